"""C05 - reduction feeds regressors exactly the lagged windows, never the future.

The real `make_reduction(...)` forecasters are run with recording, deterministic TEST-DOUBLE
regressors (a tabular sklearn-style RegressorMixin and a sktime BaseRegressor subclass).  Every
array handed to `fit`/`predict`, the returned forecast and its index are canonicalised to integers
and (a) judged by `oracle`, the Python restatement of the theorems of coq/C05/Props.v, and (b)
embedded into Coq cases where the Gallina model, run with the same doubles, must reproduce them.

Two kinds of runs: "run" = fit [update] predict (the cutoff is the last remembered observation) and
"hist" = call histories with update_predict (moving, detached cutoff; twice over the same data;
followed by predict), update_predict_single and update with data that end before the remembered end,
in which the cutoff lies INSIDE the remembered data.  The doubles record the forecaster's cutoff at
the time of every predict call; the oracle states, for every forecast labelled from cutoff c, that
the window fed is y[c-wl+1..c] by time label and holds nothing observed after c.
"""
from harness.core import cbool, clist, copt, cz, czlist

ID = "C05"
MODEL_TARGETS = ["C05/Cases.vo"]
PROOF_TARGETS = ["C05/Gen.vo", "C05/Bridge.vo", "C05/Proofs.vo", "C05/HistProofs.vo"]
OBLIGATION_FILES = ["C05/Bridge.v"]
PROPS_FILE = "C05/Props.v"
SHARD = 60
PER_CASE_TIMEOUT = 30
RULE = ("random reductions: 4 strategies x 2 scitypes (inferred or explicit), series of n <= 26 distinct "
        "positive integers on a RangeIndex starting at 0/7/100, window_length 1..6, horizon = sorted "
        "subset of 1..6 (contiguous and gapped), 0-2 exogenous columns of distinct integers disjoint "
        "from y, dtype of y / of the exogenous columns in {float64 (5 in 9), int64, int32, float32, bool} "
        "(bool: values 0/1, kinds run and swt only), 0-3 exogenous columns labelled in the caller's order "
        "with plain / unsorted string / descending integer / mixed labels, fh given at fit / predict / both, 0-5 observations appended by "
        "update(update_params=False) before predict (4 in 9 cases); feasibility boundary n = wl + max(fh) - 1 + "
        "{-1,0,1,2,..} oversampled; plus direct calls of _sliding_window_transform and "
        "_infer_scitype/make_reduction dispatch on 4 estimator kinds; plus call histories (kind hist, 240 "
        "quick / 3000 thorough, 10 scenarios x 4 strategies x 2 scitypes then random): fit on labels "
        "off..off+n-1 (off 0/7/100), then 1-4 calls out of update(new block | older block that ends "
        "before the remembered end, possibly with revised values | update_params=True), predict(fh "
        "None / same / new for recursive), update_predict_single, update_predict(new or overlapping "
        "data; sliding / expanding splitter, window 1-4, step 1-3, start_with_window both, or cv=None; "
        "update_params False and True; the same data twice; followed by predict), with 0-2 exogenous "
        "columns where the code supports them (update / predict only); all values distinct so that "
        "every value identifies its variable and time label.  non-trivial = accepted run "
        "with >= 2 training rows (or a rejection exactly at the boundary), for a history: at least one "
        "regressor predict call made while the cutoff was before the last remembered label; "
        "distinct = distinct JSON case")
TRUSTED = [
    "translator/reduce_c05.py (fail-closed symbolic execution of the anchored Python functions -> "
    "canonical linear integer expressions in Gallina): allocation, loop bound, fill and truncation "
    "bounds, target / feature columns and the rejection test of _sliding_window_transform, the window "
    "and feedback positions of the recursive and dirrec loops and the label bounds of _get_last_window "
    "are regenerated on every run as C05/Gen.v and proved equal to the model's in C05/Bridge.v "
    "(unfold; lia); the interpreter's semantics of the Python subset (environments, guard clauses, "
    "conditional values, array writes with path condition and loop, interprocedural inlining from the "
    "public predict / fit, `isinstance` of an integer time point, `fh.is_all_out_of_sample(cutoff)` "
    "taken to hold on the predict path) is trusted",
    "the test-double regressors in props/c05.py (recording, positional weighted sums + 1/2, so that "
    "their outputs are never whole numbers and an integer-typed buffer shows) and their "
    "Gallina twins in coq/C05/Cases.v: same arithmetic on both sides in the unit 1/2 (all values of a "
    "case are doubled when printed for Coq), exact in float64 (multiples of 1/2 below 2^52); the "
    "theorems quantify over ALL deterministic regressors, the doubles only instantiate them",
    "modelled: numpy zeros / slice assignment / negative-stop slicing / reshape (C order) / "
    "concatenate / expand_dims / ravel as list operations; ForecastingHorizon as a sorted list of "
    "positive steps with to_indexer = h - 1; pandas .loc[start:cutoff] on an integer RangeIndex as an "
    "inclusive positional slice; sklearn clone as identity on unfitted doubles",
    "histories: the doubles read `forecaster.cutoff` at the time of each predict call (props/c05.py "
    "_cutoff_now); the canonicalisation of update_predict's Series / DataFrame result into one "
    "(labels, values) forecast per moving cutoff (_canon_moving); the oracle takes the windows of "
    "update_predict from the real splitter (property C01), the Coq model takes them from the C01 "
    "splitter model through SkV.C10.Model.cv_windows (read-only import)",
    "modelled: pandas combine_first on integer-labelled series as label-sorted upsert (new wins), "
    ".loc[a:b] on a sorted integer index as the rows whose label lies in [a, b], _shift on an "
    "integer as x + by (pinned by the extractor)",
]
MODELLED = [
    "the control flow of _DirectReducer/_MultioutputReducer/_RecursiveReducer/_DirRecReducer "
    "(_fit, _predict_last_window) is a hand model tied by correspondence only (the integer "
    "expressions of _sliding_window_transform, of the feedback loops and the label bounds of "
    "_get_last_window are regenerated; the extractor also checks on the symbolic value that the array "
    "handed to every estimator.predict is built from the result of _get_last_window as resolved "
    "through the class hierarchy, in variable-major layout)",
    "pandas combine_first keeps the column order when both frames list the same labels in the same "
    "order (the model is positional per variable); with another order it returns the sorted union, "
    "which update() undoes by re-indexing to the remembered column order (fix bf25489 of finding "
    "F-C05-1; scenario perm_update keeps exercising it)",
    "the state machine of histories (update / _update_y_X, update_predict_single, update_predict = "
    "_predict_moving_cutoff inside _detached_cutoff, refit through fit(self._y, self._X, self._fh), "
    "_set_fh of the two mixins, _format_moving_cutoff_predictions) is a hand model (coq/C05/Hist.v) "
    "tied by correspondence only; per call the regressor events, the returned forecasts, the cutoff "
    "and the remembered target series are compared",
    "integer RangeIndex only (period/datetime indices: _shift arithmetic not modelled)",
    "in-sample horizons, NaN/inf VALUES in the window, prediction intervals: outside the "
    "property's quantifier, no theorem; a window whose labels are not all remembered gives a NaN "
    "forecast without regressor calls (modelled, generated in the `nan` scenario)",
    "histories: update_predict / update_predict_single only without exogenous data (the code raises "
    "NotImplementedError when X is passed and cannot slice X otherwise); the splitter's horizon equals "
    "the fitted horizon for direct / multioutput / dirrec; remembered labels stay consecutive (sliding "
    "step <= window), so no NaN column appears inside update_predict's DataFrame",
    "recursive strategy with exogenous data: X passed to predict has exactly max(fh) rows "
    "(numpy would broadcast a single row; not modelled)",
]
NOT_RUNNABLE = [
    "stock sklearn regressors with strategies direct/recursive/dirrec: `y_pred[i] = "
    "estimator.predict(X_pred)` assigns a length-1 array to a scalar slot, which numpy 2.4 rejects "
    "(ValueError: setting an array element with a sequence; multioutput works); the doubles return "
    "a 0-d array for a single-row single-target predict and a (1, k) array for k targets",
]


def translate(repo):
    from translator import reduce_c05
    return reduce_c05.translate(repo)


STRATS = ["direct", "recursive", "multioutput", "dirrec"]

# ------------------------------------------------------------------------------------------------
# generators


def _rand_fh(rng, hi=6):
    k = min(hi, rng.choice([1, 1, 2, 2, 3, 3, 4]))
    if rng.random() < 0.35:           # contiguous from 1
        return list(range(1, k + 1))
    return sorted(rng.sample(range(1, hi + 1), k))


def _series(rng, n, nx):
    """distinct positive integers for y, and per exogenous column distinct integers in its own band,
    so that every value identifies its variable and time position"""
    y = rng.sample(range(1, 3 * n + 12), n)
    xs = [[300 * (v + 1) + a for a in rng.sample(range(1, 3 * n + 12), n)] for v in range(nx)]
    return y, xs


def _rand_dtype(rng, allow_bool=True):
    """[dtype of y, dtype of the exogenous columns]: float64 in 5 of 9 cases; otherwise an integer /
    narrower float / bool target with exogenous columns of the same or of another dtype"""
    if rng.random() < 0.55:
        return ["float64", "float64"]
    yd = rng.choice(["int64", "int64", "int32", "float32"] + (["bool"] if allow_bool else []))
    xd = yd if rng.random() < 0.6 else rng.choice(["float64", "int64", "int32", "float32"])
    return [yd, xd]


def _boolify(rng, case):
    """bool columns hold only 0 / 1 (the values no longer identify their position: the clauses that
    locate values are skipped for such cases, the exact comparisons are not)"""
    yd, xd = case["dtype"]

    def bits(col):
        return [rng.randint(0, 1) for _ in col]
    if yd == "bool":
        case["y"] = bits(case["y"])
        if case.get("news"):
            case["news"][0] = bits(case["news"][0])
    if xd == "bool":
        case["xs"] = [bits(c) for c in case["xs"]]
        if case.get("news"):
            case["news"][1:] = [bits(c) for c in case["news"][1:]]
        if case.get("xfut"):
            case["xfut"] = [bits(c) for c in case["xfut"]]
    return case


def _rand_labels(rng, nx):
    """labels of the exogenous columns, in the CALLER's order (the order of case["xs"]): plain x0, x1, ..
    (sorted) in 3 of 10 cases, otherwise strings that are NOT in sorted order, descending integers, or
    mixed strings / integers"""
    if nx == 0:
        return []
    r = rng.random()
    if r < 0.3 or nx == 1 and r < 0.6:
        return ["x%d" % i for i in range(nx)]
    if r < 0.65:
        names = rng.sample(["load", "holiday", "temp", "wind", "price", "Zeta", "alpha"], nx)
        if nx > 1 and names == sorted(names):
            names = names[::-1]
        return names
    if r < 0.85:
        return sorted(rng.sample(range(0, 12), nx), reverse=True)
    mixed = rng.sample(["b", 1, "a", 0, "B", 10], nx)
    return mixed


def _rand_pre(rng, wl, n, fm_fit, force=False):
    """an earlier life of the SAME forecaster object (or None): built with another window_length (and
    step_length), fitted on a prefix of the series (mostly long enough for that window; possibly asked
    to predict), then reconfigured to the case's settings by set_params / attribute assignment.  The
    fit the case goes on with must behave exactly like the fit of a fresh forecaster."""
    if not force and rng.random() >= 0.3:
        return None
    others = [w for w in (1, 2, 3, 4, 5, 6, 7) if w != wl]
    r = rng.random()
    small = [w for w in others if w < wl]
    large = [w for w in others if w > wl and w + fm_fit <= n] or [w for w in others if w > wl]
    if r < 0.45 and small:
        a = rng.choice(small)                       # the window grows on reconfiguration
    elif r < 0.9:
        a = rng.choice(large)                       # the window shrinks
    else:
        a = wl                                      # refit with unchanged settings
    lo = min(n, a + fm_fit)
    m = n if rng.random() < 0.5 else rng.randint(lo, n)
    if rng.random() < 0.08:
        m = rng.randint(1, n)                       # possibly too short: the first fit is refused
    return {"wl": a, "step": rng.choice([1, 1, 2, 3]), "n": m, "predict": rng.random() < 0.6,
            "how": rng.choice(["set_params", "set_params", "attr"])}


def _run_case(rng, strategy=None):
    st = strategy or rng.choice(STRATS)
    fh = _rand_fh(rng)
    wl = rng.choice([1, 1, 2, 2, 3, 3, 4, 5, 6])
    nx = rng.choice([0, 0, 0, 1, 2, 2, 3])
    if st == "dirrec" and rng.random() < 0.85:
        nx = 0
    fm_fit = 1 if st == "recursive" else fh[-1]
    n = wl + fm_fit - 1 + rng.choice([-1, 0, 0, 1, 1, 1, 2, 2, 3, 4, 5, 7, 9, 12, 16])
    n = max(1, min(n, 26))
    y, xs = _series(rng, n, nx)
    xfut = []
    if st == "recursive" and nx:
        xfut = [[300 * (v + 1) + 150 + a for a in rng.sample(range(1, 40), fh[-1])] for v in range(nx)]
    # observations appended by update(..., update_params=False) between fit and predict
    k = rng.choice([0, 0, 0, 0, 0, 1, 2, 3, 5])
    news = [[100 + a for a in rng.sample(range(1, 60), k)]] + [
        [300 * (v + 1) + 200 + a for a in rng.sample(range(1, 40), k)] for v in range(nx)]
    c = {"kind": "run", "strategy": st, "scitype": rng.choice(["tab", "ts"]),
         "explicit": rng.random() < 0.25, "y": y, "xs": xs, "wl": wl, "fh": fh, "xfut": xfut,
         "news": news,
         "off": rng.choice([0, 0, 7, 100]),
         "fh_at": rng.choice(["fit", "both", "predict"]) if st == "recursive"
         else rng.choice(["fit", "both"])}
    c["dtype"] = _rand_dtype(rng)
    c["xlabels"] = _rand_labels(rng, nx)
    c = _boolify(rng, c)
    pre = _rand_pre(rng, wl, n, fm_fit)
    if pre:
        c["pre"] = pre
    return c


def gen_cases(rng, tier):
    cases = []
    nrun = 300 if tier == "quick" else 4000
    for i in range(nrun):
        cases.append(_run_case(rng, STRATS[i % 4] if i < nrun // 2 else None))
    for _ in range(70 if tier == "quick" else 1000):
        fh = _rand_fh(rng)
        wl = rng.randint(1, 6)
        nx = rng.choice([0, 0, 1, 2])
        n = max(1, wl + fh[-1] - 1 + rng.choice([-1, 0, 0, 1, 1, 2, 3, 5, 8, 12]))
        y, xs = _series(rng, n, nx)
        cases.append(_boolify(rng, {"kind": "swt", "scitype": rng.choice(["tab", "ts"]), "y": y, "xs": xs,
                                    "wl": wl, "fh": fh, "dtype": _rand_dtype(rng),
                                    "xlabels": _rand_labels(rng, nx)}))
    for est in ("tab", "ts", "both", "neither"):
        for st in ("direct", "recursive"):
            cases.append({"kind": "infer", "estimator": est, "strategy": st})
    nh = 240 if tier == "quick" else 3000
    for i in range(nh):
        cases.append(_hist_case(rng, SCENARIOS[i % len(SCENARIOS)] if i < nh * 2 // 3 else None,
                                STRATS[(i // len(SCENARIOS)) % 4] if i < nh * 2 // 3 else None))
    if tier == "thorough":
        cases += exhaustive_cases()
    return cases


# ------------------------------------------------------------------------------------------------
# call histories: fit, then update / predict / update_predict_single / update_predict, so that the
# cutoff is NOT always the last remembered observation


def _cutoffs_of(cv, k):
    """positions of the cutoffs a window splitter yields on k points (-1: empty first window)"""
    sp = cv["wl"] if cv["sww"] else 0
    return list(range(sp - 1, k - cv["fh"][-1], cv["step"]))


def _gen_cv(rng, fh, k, wl_f, default=False):
    fm = fh[-1]
    if default:
        return None if k >= wl_f + fm else False
    if k < 1 + fm:
        return False
    cvwl = rng.randint(1, min(4, k - fm))
    kind = rng.choice(["sliding", "sliding", "expanding"])
    step = rng.choice([1, 1, 2, 3])
    if kind == "sliding":
        step = min(step, cvwl)          # a larger step would leave gaps in the remembered data
    return {"kind": kind, "fh": list(fh), "wl": cvwl, "step": step, "sww": rng.random() < 0.6}


SCENARIOS = ["up_predict", "up_twice", "up_up", "ups", "older", "refit", "defaultcv", "mix", "nan",
             "older_x", "perm_update"]


def _hist_case(rng, scenario=None, st=None):
    scenario = scenario or rng.choice(SCENARIOS)
    st = st or rng.choice(STRATS)
    wl = rng.choice([1, 2, 2, 3, 3, 4])
    fh = _rand_fh(rng, hi=4)
    fm_fit = 1 if st == "recursive" else fh[-1]
    nx = 0
    if scenario in ("older_x", "perm_update"):
        if st == "dirrec":
            st = rng.choice(["direct", "recursive", "multioutput"])
            fm_fit = 1 if st == "recursive" else fh[-1]
        nx = rng.choice([1, 2, 2, 3]) if scenario == "older_x" else rng.choice([2, 3])
    n0 = wl + fm_fit - 1 + rng.choice([1, 2, 3, 4, 6])
    LO = 4
    span = n0 + 40
    band = range(1, 4 * span)
    yv = rng.sample(band, span + LO)                       # truth of y at relative time j: yv[j + LO]
    yr = [500 + a for a in rng.sample(band, span + LO)]    # revised values
    xv = [[1000 * (v + 1) + a for a in rng.sample(band, span + LO)] for v in range(nx)]
    xr = [[1000 * (v + 1) + 500 + a for a in rng.sample(band, span + LO)] for v in range(nx)]
    off = rng.choice([0, 0, 7, 100])
    state = {"lo": 0, "hi": n0 - 1, "cut": n0 - 1, "fh": list(fh), "xf": 0}
    ops = []

    def vals(s, k, revised=False):
        src = yr if revised else yv
        return [src[j + LO] for j in range(s, s + k)]

    def xvals(s, k, revised=False):
        src = xr if revised else xv
        return [[c[j + LO] for j in range(s, s + k)] for c in src]

    def add_update(s, k, up=False, revised=False, kind="update", fhp=None, xperm=None):
        o = {"op": kind, "t": off + s, "y": vals(s, k, revised), "up": up}
        if kind == "update":
            o["xs"] = xvals(s, k, revised) if nx else None
            if xperm:
                o["xperm"] = xperm
        else:
            o["fh"] = fhp
        ops.append(o)
        state["lo"] = min(state["lo"], s)
        state["hi"] = max(state["hi"], s + k - 1)
        state["cut"] = state["hi"] if up else s + k - 1

    def new_block(kmin=1, kmax=6):
        return state["hi"] + 1, rng.randint(kmin, max(kmin, kmax))

    def older_block(predictable=True):
        """a block that ends before the remembered end (and touches the remembered data)"""
        lo, hi = state["lo"], state["hi"]
        for _ in range(50):
            s = rng.randint(max(lo - 2, -LO), hi - 1)
            e = rng.randint(max(s, lo - 1), hi - 1)
            ok = e - wl + 1 >= min(lo, s)
            if ok == predictable:
                return s, e - s + 1
        return None

    def pfh():
        if st == "recursive" and rng.random() < 0.4:
            state["fh"] = _rand_fh(rng, hi=4)
            return list(state["fh"])
        return rng.choice([None, None, list(state["fh"])])

    def add_predict():
        f = pfh()
        m = (f or state["fh"])[-1]
        xf = []
        if nx and st == "recursive":
            xf = [[5000 + 1000 * v + state["xf"] + a for a in range(m)] for v in range(nx)]
            state["xf"] += m
        ops.append({"op": "predict", "fh": f, "xfut": xf})

    def add_updpred(s, k, cv, up=False):
        ops.append({"op": "updpred", "t": off + s, "y": vals(s, k), "cv": cv, "up": up})
        c = cv or {"fh": state["fh"], "wl": wl, "step": 1, "sww": False}
        cuts = _cutoffs_of(c, k)
        if cuts and cuts[-1] >= 0:
            state["hi"] = max(state["hi"], s + cuts[-1])

    def cvfh():
        return list(state["fh"]) if st != "recursive" or rng.random() < 0.5 else _rand_fh(rng, hi=3)

    def fresh_updpred(up=False, default=False, overlap=False):
        f = list(state["fh"]) if default else cvfh()
        fm = f[-1]
        kmin = (wl if default else 1) + fm
        if overlap and state["hi"] - (state["lo"] + wl) >= 1:
            s = rng.randint(state["lo"] + wl, state["hi"])
        else:
            s = state["hi"] + 1
        k = rng.randint(kmin + 1, kmin + 6)
        cv = _gen_cv(rng, f, k, wl, default)
        add_updpred(s, k, cv, up)
        return s, k, cv

    if scenario == "up_predict":
        fresh_updpred()
        add_predict()
    elif scenario == "up_twice":
        s, k, cv = fresh_updpred()
        add_updpred(s, k, cv, False)
        if rng.random() < 0.5:
            add_predict()
    elif scenario == "up_up":
        fresh_updpred()
        fresh_updpred(overlap=rng.random() < 0.6)
        if rng.random() < 0.5:
            add_predict()
    elif scenario == "ups":
        if rng.random() < 0.5:
            s, k = new_block()
            add_update(s, k, kind="ups", fhp=pfh())
            add_predict()
        else:
            s, k = new_block(2, 6)
            add_update(s, k)
            b = older_block()
            if b:
                add_update(b[0], b[1], kind="ups", fhp=pfh())
    elif scenario == "perm_update":
        # the caller lists the SAME labelled columns in another order in update (data follow their labels)
        s, k = new_block(1, 4)
        perm = list(range(nx))
        while perm == list(range(nx)):
            rng.shuffle(perm)
        add_update(s, k, xperm=perm)
        add_predict()
    elif scenario in ("older", "older_x"):
        if rng.random() < 0.5:
            s, k = new_block(1, 4)
            add_update(s, k)
        b = older_block()
        if b:
            add_update(b[0], b[1], revised=rng.random() < 0.3)
        add_predict()
    elif scenario == "refit":
        r = rng.random()
        if r < 0.35:
            s, k = new_block()
            add_update(s, k, up=True)
            add_predict()
        elif r < 0.7:
            fresh_updpred(up=True)
            add_predict()
        else:
            s, k, cv = fresh_updpred()
            add_updpred(s, k, cv, True)
    elif scenario == "defaultcv":
        fresh_updpred(default=True)
        add_predict()
    elif scenario == "nan":
        b = older_block(predictable=False)
        if b:
            add_update(b[0], b[1])
        add_predict()
    else:
        for _ in range(rng.randint(2, 4)):
            r = rng.random()
            if r < 0.3:
                add_predict()
            elif r < 0.45:
                s, k = new_block()
                add_update(s, k, up=rng.random() < 0.25)
            elif r < 0.6:
                b = older_block()
                if b:
                    add_update(b[0], b[1], revised=rng.random() < 0.3)
            elif r < 0.7:
                s, k = new_block()
                add_update(s, k, kind="ups", fhp=pfh(), up=rng.random() < 0.2)
            else:
                fresh_updpred(up=rng.random() < 0.2, overlap=rng.random() < 0.4)
    c = {"kind": "hist", "scenario": scenario, "strategy": st, "scitype": rng.choice(["tab", "ts"]),
         "explicit": rng.random() < 0.2, "wl": wl, "off": off, "y": vals(0, n0),
         "xs": xvals(0, n0), "fh": list(fh), "ops": ops, "dtype": _rand_dtype(rng, allow_bool=False),
         "xlabels": _rand_labels(rng, nx)}
    pre = _rand_pre(rng, wl, n0, fm_fit)
    if pre:
        c["pre"] = pre
    return c



def exhaustive_cases():
    import itertools
    out = []
    fhs = [list(c) for k in range(1, 4) for c in itertools.combinations(range(1, 4), k)]
    for n in range(1, 11):
        for wl in range(1, 5):
            for fh in fhs:
                for st in STRATS:
                    for sc in ("tab", "ts"):
                        for nx in ((0,) if st == "dirrec" else (0, 1)):
                            y = list(range(11, 11 + n))
                            xs = [[300 + a for a in range(1, n + 1)]] * nx
                            xfut = [[500 + a for a in range(1, fh[-1] + 1)]] * nx \
                                if st == "recursive" else []
                            dts = [["float64", "float64"], ["int64", "int64"], ["int32", "float64"],
                                   ["float32", "int64"]]
                            out.append({"kind": "run", "strategy": st, "scitype": sc,
                                        "explicit": False, "y": y, "xs": xs, "wl": wl, "fh": fh,
                                        "xfut": xfut, "news": [[]] * (1 + nx), "off": 0,
                                        "fh_at": "fit", "dtype": dts[len(out) % 4]})
    return out


# ------------------------------------------------------------------------------------------------
# the test doubles (driver side)

_LOG = []
_CLS = {}
_CUR = [None]     # the forecaster under test: the doubles read its cutoff at the time of each predict


def _cutoff_now():
    f = _CUR[0]
    try:
        return int(f.cutoff)
    except Exception:
        return None


def _wsum(vals):
    """positional weighted sum, weights 1, 2, 3, ... - exact on multiples of 1/2 (the doubles answer
    half-integers, see _d_predict), computed on the doubled integers"""
    try:
        twos = []
        for v in vals:
            f = 2.0 * float(v)
            if f != f or f in (float("inf"), float("-inf")) or f != int(f):
                raise ValueError
            twos.append(int(f))
        return sum((i + 1) * v for i, v in enumerate(twos)) / 2.0
    except (ValueError, OverflowError):
        return float(sum((i + 1) * float(v) for i, v in enumerate(vals)))


def _d_fit(self, X, y):
    import numpy as np
    X = np.array(X, dtype=float, copy=True)
    y = np.array(y, dtype=float, copy=True)
    self.serial_ = sum(1 for e in _LOG if e["op"] == "fit")
    _LOG.append({"op": "fit", "X": X, "y": y})
    self.ntargets_ = y.shape[1] if y.ndim == 2 else 0
    self.digest_ = _wsum(y.ravel()) + X.shape[0]
    return self


def _d_predict(self, X):
    import numpy as np
    X = np.array(X, dtype=float, copy=True)
    rows = X.reshape(X.shape[0], -1) if X.ndim >= 2 else X.reshape(1, -1)
    # + 1/2: the outputs are NOT whole numbers, so that an integer-typed buffer somewhere between the
    # regressor and the next window (or the returned forecast) shows as a truncated value
    vals = [_wsum(r) + self.digest_ + 0.5 for r in rows]
    if self.ntargets_:
        ret = np.array([[v + 7 * (j + 1) for j in range(self.ntargets_)] for v in vals], dtype=float)
    elif len(vals) == 1:
        ret = np.array(float(vals[0]))      # 0-d: what `y_pred[i] = ...` needs under numpy 2.4
    else:
        ret = np.array(vals, dtype=float)
    _LOG.append({"op": "predict", "k": self.serial_, "X": X, "ret": np.array(ret, copy=True),
                 "cut": _cutoff_now()})
    return ret


def _doubles():
    if _CLS:
        return _CLS
    from sklearn.base import BaseEstimator, RegressorMixin
    from sktime.regression.base import BaseRegressor

    class TabDouble(RegressorMixin, BaseEstimator):
        def __init__(self, tag=0):
            self.tag = tag
        fit = _d_fit
        predict = _d_predict

    class TsDouble(BaseRegressor):
        def __init__(self, tag=0):
            self.tag = tag
            super(TsDouble, self).__init__()
        fit = _d_fit
        predict = _d_predict

    class BothDouble(BaseRegressor, RegressorMixin):
        def __init__(self, tag=0):
            self.tag = tag
            super(BothDouble, self).__init__()
        fit = _d_fit
        predict = _d_predict

    class NeitherDouble(BaseEstimator):
        def __init__(self, tag=0):
            self.tag = tag
        fit = _d_fit
        predict = _d_predict

    _CLS.update(tab=TabDouble, ts=TsDouble, both=BothDouble, neither=NeitherDouble)
    return _CLS


class _NonInt(Exception):
    pass


def _halves(x):
    """a doubled integer back as a number: int when whole, x.5 otherwise"""
    if isinstance(x, list):
        return [_halves(v) for v in x]
    return x // 2 if x % 2 == 0 else x / 2.0


def _canon(a):
    """numpy array -> nested lists of Python numbers that are multiples of 1/2 (ints when whole: the
    observations; the doubles' outputs are half-integers); raises _NonInt on NaN/inf/other fractions"""
    import numpy as np
    a = 2.0 * np.asarray(a, dtype=float)
    if not np.all(np.isfinite(a)) or not np.all(a == np.round(a)):
        raise _NonInt(repr((a / 2.0).tolist())[:200])
    t = np.round(a).astype("int64").tolist() if a.ndim else int(np.round(a))
    return _halves(t)


ERRS = ("ValueError", "NotImplementedError", "TypeError", "IndexError", "KeyError", "AssertionError",
        "AttributeError")


DTYPES = ("float64", "int64", "int32", "float32", "bool")


def _dt(case, which):
    """dtype of y (which = 0) / of the exogenous columns (which = 1); float64 when not stated"""
    d = case.get("dtype") or ["float64", "float64"]
    return d[which]


def _arr(vals, dt="float64"):
    """the values in the requested dtype; they must be representable exactly (bool: only 0 / 1)"""
    import numpy as np
    a = np.array(vals, dtype="int64" if len(vals) else float).astype(dt)
    if len(vals) and [int(v) for v in a.astype("int64")] != [int(v) for v in vals]:
        raise ValueError("invalid case: values %s are not representable as %s" % (list(vals)[:5], dt))
    return a


def _labels(case):
    return case.get("xlabels") or ["x%d" % i for i in range(len(case["xs"]))]


def _frame(cols, index, dt="float64", labels=None, order=None):
    """the exogenous columns as the caller builds the frame: column i labelled labels[i], listed in the
    given order (default: the order of `cols`)"""
    import numpy as np
    import pandas as pd
    labels = labels or ["x%d" % i for i in range(len(cols))]
    order = list(order) if order else list(range(len(cols)))
    data = np.column_stack([_arr(cols[i], dt) for i in order]) if len(cols[0]) else \
        np.zeros((0, len(cols)), dtype=dt)
    return pd.DataFrame(data, index=index, columns=pd.Index([labels[i] for i in order], dtype=object)
                        if any(isinstance(x, str) for x in labels) else [labels[i] for i in order])


def _mk_cv(c, fh_default, wl_default):
    from sktime.forecasting.model_selection import ExpandingWindowSplitter, SlidingWindowSplitter
    if c is None:      # what update_predict(cv=None) of a window forecaster builds
        return SlidingWindowSplitter(fh=fh_default, window_length=wl_default, start_with_window=False)
    if c["kind"] == "sliding":
        return SlidingWindowSplitter(fh=c["fh"], window_length=c["wl"], step_length=c["step"],
                                     start_with_window=c["sww"])
    return ExpandingWindowSplitter(fh=c["fh"], initial_window=c["wl"], step_length=c["step"],
                                   start_with_window=c["sww"])


def _canon_fc(p):
    """a returned forecast Series -> {"ix": labels, "v": integer values or None when all NaN}"""
    import numpy as np
    a = np.asarray(p.to_numpy(), dtype=float)
    ix = [int(i) for i in p.index]
    if len(a) and np.all(np.isnan(a)):
        return {"ix": ix, "v": None}
    return {"ix": ix, "v": _canon(a)}


def _canon_moving(r, fh):
    """the result of update_predict -> one [column label or None, labels, values] per moving cutoff
    (DataFrame: one column per cutoff, NaN where a cutoff has no forecast for that label; a forecast
    that is NaN altogether has values None)"""
    import numpy as np
    import pandas as pd
    out = []
    if isinstance(r, pd.DataFrame):
        for j in range(r.shape[1]):
            col = r.iloc[:, j].dropna()
            if len(col) == 0:
                out.append([int(r.columns[j]), [int(r.columns[j]) + h for h in fh], None])
                continue
            pairs = sorted((int(t), v) for t, v in zip(col.index, _canon(col.to_numpy())))
            out.append([int(r.columns[j]), [t for t, _ in pairs], [v for _, v in pairs]])
    elif len(fh) == 1:
        for t, v in zip(r.index, np.asarray(r.to_numpy(), dtype=float)):
            out.append([None, [int(t)], None if np.isnan(v) else [_canon(v)]])
    else:
        a = np.asarray(r.to_numpy(), dtype=float)
        out.append([int(r.name) if r.name is not None else None, [int(t) for t in r.index],
                    None if len(a) and np.all(np.isnan(a)) else _canon(a)])
    return out


def _earlier_life(f, case, y, X, fit_fh, pred_fh, can_predict):
    """case["pre"]: `f` was built with pre["wl"]; fit it on a prefix, maybe predict, then reconfigure
    the same object to the case's settings.  Errors of the ERRS families in this earlier life are not
    the subject (the prefix may be too short for the old window); the regressor log is cleared so that
    only the life after reconfiguration is judged."""
    pre = case["pre"]
    info = {}
    try:
        if pre.get("step", 1) != 1:
            f.set_params(step_length=pre["step"])
        m = max(1, min(int(pre.get("n") or len(y)), len(y)))
        f.fit(y.iloc[:m], X.iloc[:m] if X is not None else None, fh=fit_fh)
        info["fitted"] = True
        if pre.get("predict") and can_predict:
            f.predict(fh=pred_fh)
            info["predicted"] = True
    except Exception as e:
        if type(e).__name__ not in ERRS:
            raise
        info["err"] = type(e).__name__
    if pre.get("how") == "attr":
        f.window_length = case["wl"]
        f.step_length = 1
    else:
        f.set_params(window_length=case["wl"], step_length=1)
    del _LOG[:]
    return info


def _run_hist(case):
    import warnings
    import numpy as np
    import pandas as pd
    from sktime.forecasting.compose import _reduce
    cls = _doubles()
    off, n = case["off"], len(case["y"])
    nx = len(case["xs"])

    def ser(t, vals):
        return pd.Series(_arr(vals, _dt(case, 0)), index=pd.RangeIndex(t, t + len(vals)))

    def frm(t, cols, order=None):
        return _frame(cols, pd.RangeIndex(t, t + len(cols[0])), _dt(case, 1), _labels(case), order) \
            if cols else None

    est = cls[case["scitype"]]()
    sc = "infer"
    if case.get("explicit"):
        sc = "tabular-regressor" if case["scitype"] == "tab" else "time-series-regressor"
    pre = case.get("pre")
    f = _reduce.make_reduction(est, strategy=case["strategy"],
                               window_length=pre["wl"] if pre else case["wl"], scitype=sc)
    _CUR[0] = f
    steps = []
    mark = [0]
    if pre:
        import warnings as _w
        with _w.catch_warnings():
            _w.simplefilter("ignore")
            _earlier_life(f, case, ser(off, case["y"]), frm(off, case["xs"]), list(case["fh"]), None,
                          not (nx and case["strategy"] == "recursive"))

    def events():
        evs = []
        for e in _LOG[mark[0]:]:
            if e["op"] == "fit":
                evs.append({"op": "fit", "X": _canon(e["X"]), "ndim": int(e["X"].ndim),
                            "t": _canon(e["y"]), "tdim": int(e["y"].ndim)})
            else:
                evs.append({"op": "predict", "k": int(e["k"]), "cut": e["cut"], "X": _canon(e["X"]),
                            "ndim": int(e["X"].ndim), "ret": _canon(e["ret"])})
        mark[0] = len(_LOG)
        return evs

    def snap(ret, extra=None):
        d = {"ev": events(), "ret": ret, "cut": int(f.cutoff),
             "mem": [[int(t), v] for t, v in zip(f._y.index, _canon(f._y.to_numpy()))]}
        d.update(extra or {})
        steps.append(d)

    try:
        with warnings.catch_warnings():
            warnings.simplefilter("ignore")
            try:
                f.fit(ser(off, case["y"]), frm(off, case["xs"]), fh=list(case["fh"]))
            except Exception as e:
                if type(e).__name__ in ERRS:
                    return {"err": type(e).__name__, "stage": "fit", "msg": str(e)[:160]}
                raise
            snap(None)
            for o in case["ops"]:
                extra = {}
                try:
                    if o["op"] == "update":
                        f.update(ser(o["t"], o["y"]), frm(o["t"], o["xs"], o.get("xperm")) if o["xs"] else None,
                                 update_params=bool(o["up"]))
                        ret = None
                    elif o["op"] == "predict":
                        Xf = None
                        if o["xfut"]:
                            Xf = frm(int(f.cutoff) + 1, o["xfut"])
                        ret = _canon_fc(f.predict(fh=o["fh"], X=Xf))
                    elif o["op"] == "ups":
                        ret = _canon_fc(f.update_predict_single(ser(o["t"], o["y"]), fh=o["fh"],
                                                                update_params=bool(o["up"])))
                    else:
                        y = ser(o["t"], o["y"])
                        fhd = [int(h) for h in f.fh.to_relative(f.cutoff)] if o["cv"] is None else None
                        fhcv = o["cv"]["fh"] if o["cv"] is not None else fhd
                        extra["windows"] = [[int(i) for i in w]
                                            for w, _ in _mk_cv(o["cv"], fhd, case["wl"]).split(y)]
                        extra["fhcv"] = list(fhcv)
                        cv = None if o["cv"] is None else _mk_cv(o["cv"], None, None)
                        r = f.update_predict(y, cv=cv, update_params=bool(o["up"]))
                        ret = {"mc": _canon_moving(r, fhcv)}
                except Exception as e:
                    if type(e).__name__ in ERRS:
                        steps.append({"err": type(e).__name__, "msg": str(e)[:160], "ev": [],
                                      "cut": None, "mem": []})
                        break
                    raise
                snap(ret, extra)
    except _NonInt as e:
        return {"nonint": str(e)}
    finally:
        _CUR[0] = None
    return {"steps": steps, "cls": type(f).__name__, "cls_scitype": type(f)._estimator_scitype,
            "cls_strategy": type(f).strategy}


_SWT_NAME = []


def _swt_function(_reduce):
    """the sliding-window transform of the tree under test, found by its role in the call graph (the
    one function of _reduce.py that every strategy's fit reaches), so that a rename is followed"""
    if not _SWT_NAME:
        name = "_sliding_window_transform"
        try:
            import os
            from translator import reduce_c05
            repo = os.path.dirname(os.path.dirname(os.path.dirname(os.path.dirname(
                os.path.abspath(_reduce.__file__)))))
            name = reduce_c05.transform_function_name(repo)
        except Exception:
            pass
        _SWT_NAME.append(name)
    return getattr(_reduce, _SWT_NAME[0])


def run_impl(case):
    import numpy as np
    import pandas as pd
    from sktime.forecasting.base import ForecastingHorizon
    from sktime.forecasting.compose import _reduce
    cls = _doubles()
    k = case["kind"]
    del _LOG[:]
    if k == "hist":
        return _run_hist(case)
    if k == "infer":
        est = cls[case["estimator"]]()
        out = {}
        try:
            if hasattr(_reduce, "_infer_scitype"):
                out["scitype"] = _reduce._infer_scitype(est)
            else:   # the private helper is gone: what make_reduction infers
                out["scitype"] = type(_reduce.make_reduction(est, strategy="recursive"))._estimator_scitype
        except ValueError:
            out["scitype"] = None
        try:
            f = _reduce.make_reduction(est, strategy=case["strategy"], window_length=3)
            out["cls"] = type(f).__name__
            out["cls_scitype"] = type(f)._estimator_scitype
            out["cls_strategy"] = type(f).strategy
        except ValueError:
            out["cls"] = None
        return out
    n = len(case["y"])
    if k == "swt":
        idx = pd.RangeIndex(n)
        y = pd.Series(_arr(case["y"], _dt(case, 0)), index=idx)
        X = _frame(case["xs"], idx, _dt(case, 1), _labels(case)) if case["xs"] else None
        sc = "tabular-regressor" if case["scitype"] == "tab" else "time-series-regressor"
        try:
            yt, Xt = _swt_function(_reduce)(
                y, case["wl"], ForecastingHorizon(case["fh"]), X, scitype=sc)
        except Exception as e:
            if type(e).__name__ in ERRS:
                return {"err": type(e).__name__}
            raise
        try:
            return {"yt": _canon(yt), "Xt": _canon(Xt), "ndim": int(np.ndim(Xt)),
                    "tdim": int(np.ndim(yt))}
        except _NonInt as e:
            return {"nonint": str(e)}
    # kind == "run"
    off = case["off"]
    idx = pd.RangeIndex(off, off + n)
    y = pd.Series(_arr(case["y"], _dt(case, 0)), index=idx)
    X = _frame(case["xs"], idx, _dt(case, 1), _labels(case)) if case["xs"] else None
    fh = list(case["fh"])
    est = cls[case["scitype"]]()
    sc = "infer"
    if case.get("explicit"):
        sc = "tabular-regressor" if case["scitype"] == "tab" else "time-series-regressor"
    stage = "make"
    try:
        pre = case.get("pre")
        f = _reduce.make_reduction(est, strategy=case["strategy"],
                                   window_length=pre["wl"] if pre else case["wl"], scitype=sc)
        if pre:
            stage = "reconfigure"
            # the earlier fit is always told the horizon (the same one): a fitted optional-horizon
            # forecaster that has never seen any fh refuses `fit(y)` without fh (its _set_fh looks at
            # is_fitted of the earlier life) - a matter of horizon bookkeeping, not of this property
            _earlier_life(f, case, y, X, fh, None,
                          not (case["xs"] and case["strategy"] == "recursive"))
        stage = "fit"
        if case["fh_at"] == "predict":
            f.fit(y, X)
        else:
            f.fit(y, X, fh=fh)
        news = _news(case)
        k = len(news[0])
        if k:
            stage = "update"
            idx2 = pd.RangeIndex(off + n, off + n + k)
            f.update(pd.Series(_arr(news[0], _dt(case, 0)), index=idx2),
                     _frame(news[1:], idx2, _dt(case, 1), _labels(case)) if case["xs"] else None,
                     update_params=False)
        stage = "predict"
        Xf = None
        if case["xfut"]:
            m = len(case["xfut"][0])
            Xf = _frame(case["xfut"], pd.RangeIndex(off + n + k, off + n + k + m), _dt(case, 1), _labels(case))
        p = f.predict(fh=None if case["fh_at"] == "fit" else fh, X=Xf)
    except Exception as e:
        if type(e).__name__ in ERRS:
            return {"err": type(e).__name__, "stage": stage, "msg": str(e)[:160]}
        raise
    try:
        fc = _canon(p.to_numpy())
    except _NonInt as e:
        # e.g. _predict_nan: the forecaster answered without a usable window
        return {"nan_forecast": str(e), "n_predict_calls": sum(1 for e in _LOG if e["op"] == "predict")}
    try:
        fits = [{"X": _canon(e["X"]), "ndim": int(e["X"].ndim), "t": _canon(e["y"]),
                 "tdim": int(e["y"].ndim)} for e in _LOG if e["op"] == "fit"]
        preds = [{"k": int(e["k"]), "X": _canon(e["X"]), "ndim": int(e["X"].ndim),
                  "ret": _canon(e["ret"])} for e in _LOG if e["op"] == "predict"]
        # order of events: all fits must precede all predicts
        order = "".join("f" if e["op"] == "fit" else "p" for e in _LOG)
        return {"fits": fits, "preds": preds, "forecast": fc,
                "index": [int(i) for i in p.index], "order": order, "cls": type(f).__name__,
                "cls_scitype": type(f)._estimator_scitype, "cls_strategy": type(f).strategy}
    except _NonInt as e:
        return {"nonint": str(e)}


# ------------------------------------------------------------------------------------------------
# oracle: the theorems' conclusions restated on the implementation's output


def _news(case):
    return case.get("news") or [[] for _ in range(1 + len(case["xs"]))]


def _where(case):
    """value -> (variable, time position); observations appended by update sit at positions n, ...,
    future exogenous rows after them"""
    n = len(case["y"])
    w = {}
    if "bool" in (case.get("dtype") or []):
        return None
    if case["kind"] == "run":
        for j, col in enumerate(_news(case)):
            for t, v in enumerate(col):
                w[v] = (j, n + t)
        n += len(_news(case)[0])
    for t, v in enumerate(case["y"]):
        w[v] = (0, t)
    for j, col in enumerate(case["xs"]):
        for t, v in enumerate(col):
            w[v] = (j + 1, t)
    for j, col in enumerate(case.get("xfut") or []):
        for t, v in enumerate(col):
            w[v] = (j + 1, n + t)
    return w


def _rows3(X, ndim, nvars, what):
    """view the rows of a recorded 2-d / 3-d array as lists of per-variable lists; for the 2-d
    (tabular) layout the columns are variable-major: variable v occupies [v*L, (v+1)*L)"""
    out = []
    for row in X:
        if ndim == 3:
            out.append(row)
        else:
            if len(row) % nvars:
                return None
            L = len(row) // nvars
            out.append([row[v * L:(v + 1) * L] for v in range(nvars)])
    return out


def _swt_checks(case, zs, wl, steps, nw, Xrows, T, what):
    """clauses of C05_swt_* on one (X, targets) pair.  Xrows: per row a list of per-variable lists;
    T: per row the list of targets, one per entry of `steps`; nw: the number of full windows"""
    y = zs[0]
    if len(Xrows) != nw or len(T) != nw:
        return "all-full-windows-used-once: %s has %d rows / %d targets, expected n-wl-max(fh)+1 = %d" % (
            what, len(Xrows), len(T), nw)
    where = _where(case)
    for r in range(nw):
        if len(T[r]) != len(steps):
            return "array-layout: %s row %d has %d targets for %d steps" % (what, r, len(T[r]), len(steps))
        for j, h in enumerate(steps):
            want = y[r + wl - 1 + h]
            if T[r][j] != want:
                return ("target-not-h-steps-after-window: %s row %d step %d got %s expected "
                        "y[%d]=%s" % (what, r, h, T[r][j], r + wl - 1 + h, want))
        first_target = r + wl - 1 + steps[0]
        for v, win in enumerate(Xrows[r] if where is not None else []):
            for val in win:
                if val not in where:
                    return "row-contains-non-observation: %s row %d value %s" % (what, r, val)
                if where[val][1] >= first_target:
                    return ("row-contains-target-or-later-value: %s row %d holds position %d, "
                            "target at %d" % (what, r, where[val][1], first_target))
        if len(Xrows[r]) != len(zs):
            return "train-row-not-lag-window: %s row %d has %d variables, expected %d" % (
                what, r, len(Xrows[r]), len(zs))
        for v, win in enumerate(Xrows[r]):
            if win != zs[v][r:r + wl]:
                return "train-row-not-lag-window: %s row %d variable %d got %s expected %s" % (
                    what, r, v, win, zs[v][r:r + wl])
    return None


def _expected_reject(case):
    st = case["strategy"]
    if st == "dirrec" and case["xs"]:
        return "NotImplementedError"
    n, wl = len(case["y"]), case["wl"]
    fm = 1 if st == "recursive" else case["fh"][-1]
    if n - wl - fm + 1 <= 0:
        return "ValueError"
    return None


# ------------------------------------------------------------------------------------------------
# oracle for call histories.  The statement checked at EVERY forecast (plain, single-step update and
# each moving cutoff of update_predict): if the forecast is labelled from cutoff c (its index is
# c + fh), then the window handed to the regressor(s) is the window_length observations with the
# time labels c - wl + 1 .. c, as observed so far (by LABEL, the latest value where a label was
# observed twice), and it holds nothing observed at a label after c.


def _expected_fits(st, zs, wl, fh):
    """per fit call: (rows as per-variable lists, targets, target ndim) on the series zs"""
    y = zs[0]
    n = len(y)
    steps = [1] if st == "recursive" else fh
    nw = n - wl - steps[-1] + 1
    if nw <= 0:
        return None
    wins = [[z[r:r + wl] for z in zs] for r in range(nw)]
    if st == "multioutput":
        return [(wins, [[y[r + wl - 1 + h] for h in fh] for r in range(nw)], 2)]
    if st == "recursive":
        return [(wins, [y[r + wl] for r in range(nw)], 1)]
    if st == "direct":
        return [(wins, [y[r + wl - 1 + h] for r in range(nw)], 1) for h in fh]
    return [([[y[r:r + wl] + [y[r + wl - 1 + g] for g in fh[:i]]] for r in range(nw)],
             [y[r + wl - 1 + fh[i]] for r in range(nw)], 1) for i in range(len(fh))]


def _check_fits(evs, st, zs, wl, fh, what):
    exp = _expected_fits(st, zs, wl, fh)
    if exp is None:
        return "accepted-although-no-full-window-fits: %s on %d observations" % (what, len(zs[0]))
    if len(evs) != len(exp):
        return "number-of-fitted-regressors: %s made %d fit calls, expected %d" % (what, len(evs), len(exp))
    nv = 1 if st == "dirrec" else len(zs)
    for i, (e, (X, t, tdim)) in enumerate(zip(evs, exp)):
        rows = _rows3(e["X"], e["ndim"], nv, what)
        if rows is None:
            return "array-layout: row length not a multiple of the number of variables"
        if e["tdim"] != tdim:
            return "array-layout: %s target ndim %d" % (what, e["tdim"])
        if len(rows) != len(X) or len(e["t"]) != len(t):
            return "all-full-windows-used-once: %s call %d has %d rows / %d targets, expected %d" % (
                what, i, len(rows), len(e["t"]), len(X))
        for r in range(len(X)):
            if rows[r] != X[r]:
                return "train-row-not-lag-window: %s call %d row %d got %s expected %s" % (
                    what, i, r, rows[r], X[r])
            if e["t"][r] != t[r]:
                return "target-not-h-steps-after-window: %s call %d row %d got %s expected %s" % (
                    what, i, r, e["t"][r], t[r])
    return None


def _n_calls(st, fh):
    return fh[-1] if st == "recursive" else 1 if st == "multioutput" else len(fh)


def _check_forecast(st, nd, wl, fh, nv, evs, base, fc, truth, where, xfut, what):
    """one forecast `fc` = (labels, values or None) with the predict events `evs` made for it"""
    ix, vals = fc
    if not ix or len(ix) != len(fh):
        return "forecast-index: %s has labels %s for steps %s" % (what, ix, fh)
    c = ix[0] - fh[0]
    if ix != [c + h for h in fh]:
        return "forecast-index: %s has labels %s, not cutoff + fh for any cutoff (fh = %s)" % (what, ix, fh)
    for e in evs:
        if e["cut"] != c:
            return ("forecast-index: %s is labelled from cutoff %d but the forecaster's cutoff was %s "
                    "when the regressor was asked" % (what, c, e["cut"]))
    labels = list(range(c - wl + 1, c + 1))
    last = [[truth[v].get(t) for t in labels] for v in range(nv)]
    avail = all(x is not None for x in last[0])
    if vals is None:
        if avail:
            return ("forecast-not-regressor-output-for-step: %s is NaN although the observations "
                    "%d..%d are remembered" % (what, labels[0], c))
        return None if not evs else "number-of-predict-calls: regressor asked for a NaN forecast"
    if not avail:
        return ("predict-window-not-ending-at-cutoff: %s was produced although the labels %d..%d "
                "are not all observed" % (what, labels[0], c))
    if len(evs) != _n_calls(st, fh):
        return "number-of-predict-calls: %s used %d calls, expected %d" % (what, len(evs), _n_calls(st, fh))
    nvv = 1 if st == "dirrec" else nv
    views = []
    for i, e in enumerate(evs):
        if e["ndim"] != nd:
            return "array-layout: predict input ndim %d" % e["ndim"]
        v = _rows3(e["X"], nd, nvv, what)
        if not v or len(v) != 1:
            return "array-layout: predict input %s" % (e["X"],)
        views.append(v[0])
    # observation slots of call i: everything for direct / multioutput; the first wl - i entries of
    # the recursive window; the first wl entries of the dirrec row
    for i, view in enumerate(views):
        nobs = wl if st in ("direct", "multioutput", "dirrec") else max(0, wl - i)
        for var in view:
            for x in var[:nobs]:
                if x in where and where[x][1] > c:
                    return ("predict-window-contains-future: %s (cutoff %d) call %d was fed %s: the "
                            "value %s was observed at label %d, after the cutoff" % (
                                what, c, i, view, x, where[x][1]))
    if st in ("direct", "multioutput"):
        for i, view in enumerate(views):
            if view != last:
                return ("predict-window-not-ending-at-cutoff: %s (cutoff %d) call %d was fed %s, "
                        "expected the observations at labels %d..%d = %s" % (
                            what, c, i, view, labels[0], c, last))
            if evs[i]["k"] != base + i:
                return "forecast-not-regressor-output-for-step: call %d used regressor %d, expected %d" % (
                    i, evs[i]["k"], base + i)
        got = [e["ret"] for e in evs] if st == "direct" else evs[0]["ret"][0]
    elif st == "recursive":
        ext = [last[0] + [e["ret"] for e in evs]] + [
            c_ + f_ for c_, f_ in zip(last[1:], xfut or [[]] * (nv - 1))]
        for i, view in enumerate(views):
            want = [s_[i:i + wl] for s_ in ext]
            if view != want:
                cl = "predict-window-not-ending-at-cutoff" if i == 0 or view[0][:max(0, wl - i)] != \
                    want[0][:max(0, wl - i)] else "recursive-feedback"
                return ("%s: %s (cutoff %d) step %d was fed %s, expected the window ending at the "
                        "cutoff extended by the earlier predictions %s" % (cl, what, c, i + 1, view, want))
            if evs[i]["k"] != base:
                return "forecast-not-regressor-output-for-step: wrong regressor"
        got = [evs[h - 1]["ret"] for h in fh]
    else:
        for i, view in enumerate(views):
            want = [last[0] + [p["ret"] for p in evs[:i]]]
            if view != want:
                cl = "predict-window-not-ending-at-cutoff" if view[0][:wl] != last[0] else "dirrec-feedback"
                return ("%s: %s (cutoff %d) step index %d was fed %s, expected the window ending at "
                        "the cutoff followed by the earlier predictions %s" % (cl, what, c, i, view, want))
            if evs[i]["k"] != base + i:
                return "forecast-not-regressor-output-for-step: call %d used regressor %d" % (i, evs[i]["k"])
        got = [e["ret"] for e in evs]
    if vals != got:
        return "forecast-not-regressor-output-for-step: %s is %s, regressor outputs %s" % (what, vals, got)
    return None


def _oracle_hist(case, out):
    st, sc, wl, fh0 = case["strategy"], case["scitype"], case["wl"], case["fh"]
    nv = 1 + len(case["xs"])
    if "nonint" in out:
        return "row-contains-non-observation: non-integer data reached the regressor: " + out["nonint"]
    n0 = len(case["y"])
    fm = 1 if st == "recursive" else fh0[-1]
    rej = "NotImplementedError" if st == "dirrec" and case["xs"] else \
        "ValueError" if n0 - wl - fm + 1 <= 0 else None
    if "err" in out:
        if rej is None:
            return "rejected-although-a-full-window-fits: %s at fit (%s)" % (out["err"], out.get("msg"))
        return None if out["err"] == rej else "unexpected-error: %s, expected %s" % (out["err"], rej)
    if rej is not None:
        return "accepted-although-no-full-window-fits: n=%d wl=%d fh=%s strategy=%s" % (n0, wl, fh0, st)
    want_sc = "tabular-regressor" if sc == "tab" else "time-series-regressor"
    if out["cls_scitype"] != want_sc or out["cls_strategy"] != st:
        return "strategy-scitype-dispatch: built %s" % out["cls"]
    nd = 2 if sc == "tab" else 3
    truth = [dict() for _ in range(nv)]       # per variable: label -> value observed (latest wins)
    where = {}                                # value -> (variable, label)

    def learn(v, t0, vals):
        for i, x in enumerate(vals):
            truth[v][t0 + i] = x
            where[x] = (v, t0 + i)

    def memory():
        ts = sorted(truth[0])
        return [[truth[v][t] for t in ts if t in truth[v]] for v in range(nv)]

    learn(0, case["off"], case["y"])
    for v, col in enumerate(case["xs"]):
        learn(v + 1, case["off"], col)
    steps = out["steps"]
    fh_fit = [1] if st == "recursive" else fh0
    nfit_set = 1 if st in ("recursive", "multioutput") else len(fh0)
    ev0 = steps[0]["ev"]
    if any(e["op"] != "fit" for e in ev0):
        return "fit-after-predict: predict call during fit"
    f = _check_fits(ev0, st, memory(), wl, fh_fit, "fit")
    if f:
        return f
    state = {"base": 0, "nfit": len(ev0), "fh": list(fh0)}

    def take_refit(evs, what):
        """a complete refit on everything remembered"""
        fits = evs[:nfit_set]
        if len(fits) < nfit_set or any(e["op"] != "fit" for e in fits):
            return "number-of-fitted-regressors: %s did not refit all regressors" % what, evs
        f = _check_fits(fits, st, memory(), wl, fh_fit, what)
        state["base"] = state["nfit"]
        state["nfit"] += nfit_set
        return f, evs[nfit_set:]

    for j, (o, stp) in enumerate(zip(case["ops"], steps[1:])):
        what = "call %d (%s)" % (j + 1, o["op"])
        if "err" in stp:
            return "rejected-although-a-full-window-fits: %s raised %s (%s)" % (what, stp["err"], stp["msg"])
        evs = list(stp["ev"])
        if o["op"] == "update":
            learn(0, o["t"], o["y"])
            for v, col in enumerate(o["xs"] or []):
                learn(v + 1, o["t"], col)
            if o["up"]:
                f, evs = take_refit(evs, what)
                if f:
                    return f
            if evs:
                return "fit-after-predict: %s: unexpected regressor calls %s" % (what, [e["op"] for e in evs])
            continue
        if o["op"] in ("predict", "ups"):
            if o["op"] == "ups":
                learn(0, o["t"], o["y"])
                if o["up"]:
                    f, evs = take_refit(evs, what)
                    if f:
                        return f
            if o["fh"] is not None:
                state["fh"] = list(o["fh"])
            if any(e["op"] != "predict" for e in evs):
                return "fit-after-predict: %s refitted" % what
            f = _check_forecast(st, nd, wl, state["fh"], nv, evs, state["base"],
                                (stp["ret"]["ix"], stp["ret"]["v"]), truth, where,
                                o.get("xfut") or [], what)
            if f:
                return f
            continue
        # update_predict: one forecast per window of the splitter, each after its window was observed
        fhcv = stp["fhcv"]
        mc = stp["ret"]["mc"]
        if len(mc) != len(stp["windows"]):
            return "number-of-predict-calls: %s returned %d forecasts for %d windows" % (
                what, len(mc), len(stp["windows"]))
        for w, (col, ix, vals) in zip(stp["windows"], mc):
            if w:
                if w != list(range(w[0], w[-1] + 1)):
                    return None       # not a contiguous window: outside this oracle
                learn(0, o["t"] + w[0], [o["y"][i] for i in w])
            if o["up"]:
                f, evs = take_refit(evs, what)
                if f:
                    return f
            k = 0
            while k < len(evs) and evs[k]["op"] == "predict" and k < _n_calls(st, fhcv) \
                    and vals is not None:
                k += 1
            if col is not None and ix and col != ix[0] - fhcv[0]:
                return "forecast-index: %s column %s holds the labels %s (fh = %s)" % (what, col, ix, fhcv)
            f = _check_forecast(st, nd, wl, fhcv, nv, evs[:k], state["base"], (ix, vals), truth,
                                where, [], "%s window %s" % (what, w))
            if f:
                return f
            evs = evs[k:]
        if evs:
            return "number-of-predict-calls: %s: %d regressor calls left over" % (what, len(evs))
    return None


def oracle(case, out):
    k = case["kind"]
    if k == "hist":
        return _oracle_hist(case, out)
    if k == "infer":
        e = case["estimator"]
        want = {"tab": "tabular-regressor", "ts": "time-series-regressor",
                "both": "time-series-regressor", "neither": None}[e]
        if out["scitype"] != want:
            return "scitype-inference: %s inferred %s expected %s" % (e, out["scitype"], want)
        if want is None:
            return None if out["cls"] is None else "scitype-inference: uninferable estimator accepted"
        if out["cls"] is None or out["cls_scitype"] != want or out["cls_strategy"] != case["strategy"]:
            return "strategy-scitype-dispatch: %s/%s built %s" % (e, case["strategy"], out["cls"])
        return None
    if "nonint" in out:
        return "row-contains-non-observation: non-integer data reached the regressor: " + out["nonint"]
    if "nan_forecast" in out:
        return ("forecast-not-regressor-output-for-step: forecast %s is not a regressor output "
                "(%d predict calls were made)" % (out["nan_forecast"], out["n_predict_calls"]))
    zs = [case["y"]] + case["xs"]
    wl, fh = case["wl"], case["fh"]
    n = len(case["y"])
    if k == "swt":
        rej = n - wl - fh[-1] + 1 <= 0
        if "err" in out:
            if out["err"] != "ValueError":
                return "unexpected-error: %s" % out["err"]
            return None if rej else "rejected-although-a-full-window-fits: n=%d wl=%d fh=%s" % (n, wl, fh)
        if rej:
            return "accepted-although-no-full-window-fits: n=%d wl=%d fh=%s" % (n, wl, fh)
        nd = 2 if case["scitype"] == "tab" else 3
        if out["ndim"] != nd or out["tdim"] != 2:
            return "array-layout: Xt.ndim=%s yt.ndim=%s" % (out["ndim"], out["tdim"])
        rows = _rows3(out["Xt"], out["ndim"], len(zs), "Xt")
        if rows is None:
            return "array-layout: row length not a multiple of the number of variables"
        return _swt_checks(case, zs, wl, fh, n - wl - fh[-1] + 1, rows, out["yt"], "transform")
    # run
    st, sc = case["strategy"], case["scitype"]
    rej = _expected_reject(case)
    if "err" in out:
        if rej is None:
            return "rejected-although-a-full-window-fits: %s at %s (%s)" % (
                out["err"], out.get("stage"), out.get("msg"))
        if out["err"] != rej or out.get("stage") != "fit":
            return "unexpected-error: %s at %s, expected %s at fit" % (out["err"], out.get("stage"), rej)
        return None
    if rej is not None:
        return "accepted-although-no-full-window-fits: n=%d wl=%d fh=%s strategy=%s" % (n, wl, fh, st)
    want_sc = "tabular-regressor" if sc == "tab" else "time-series-regressor"
    if out["cls_scitype"] != want_sc or out["cls_strategy"] != st:
        return "strategy-scitype-dispatch: built %s" % out["cls"]
    nd = 2 if sc == "tab" else 3
    fits, preds = out["fits"], out["preds"]
    if any(e["ndim"] != nd for e in fits + preds):
        return "array-layout: %s regressor handed arrays of ndim %s" % (
            sc, sorted(set(e["ndim"] for e in fits + preds)))
    if "pf" in out["order"]:
        return "fit-after-predict: event order %s" % out["order"]
    nfit = len(fh) if st in ("direct", "dirrec") else 1
    if len(fits) != nfit:
        return "number-of-fitted-regressors: %d expected %d" % (len(fits), nfit)
    fh_fit = [1] if st == "recursive" else fh
    # --- training data
    for i, e in enumerate(fits):
        rows = _rows3(e["X"], e["ndim"], len(zs), "fit %d" % i)
        if rows is None:
            return "array-layout: row length not a multiple of the number of variables"
        nw = n - wl - fh_fit[-1] + 1
        if st == "multioutput":
            if e["tdim"] != 2:
                return "array-layout: multioutput target ndim %d" % e["tdim"]
            f = _swt_checks(case, zs, wl, fh, nw, rows, e["t"], "fit")
        elif st == "recursive":
            if e["tdim"] != 1:
                return "array-layout: target ndim %d" % e["tdim"]
            f = _swt_checks(case, zs, wl, [1], nw, rows, [[t] for t in e["t"]], "fit")
        elif st == "direct":
            if e["tdim"] != 1:
                return "array-layout: target ndim %d" % e["tdim"]
            f = _swt_checks(case, zs, wl, [fh[i]], nw, rows, [[t] for t in e["t"]],
                            "fit for step %d" % fh[i])
        else:  # dirrec: window followed by the targets of the earlier steps
            if e["tdim"] != 1:
                return "array-layout: target ndim %d" % e["tdim"]
            if len(rows) != nw or len(e["t"]) != nw:
                return "all-full-windows-used-once: fit %d has %d rows, expected %d" % (i, len(rows), nw)
            where = _where(case)
            for r in range(nw):
                tpos = r + wl - 1 + fh[i]
                if len(rows[r]) != 1:
                    return "train-row-not-lag-window: dirrec row %d has %d variables" % (r, len(rows[r]))
                for val in (rows[r][0] if where is not None else []):
                    if val not in where:
                        return "row-contains-non-observation: dirrec step %d row %d value %s" % (
                            fh[i], r, val)
                    if where[val][1] >= tpos:
                        return ("row-contains-target-or-later-value: dirrec fit for step %d row %d "
                                "holds position %d, target at %d" % (fh[i], r, where[val][1], tpos))
                want = case["y"][r:r + wl] + [case["y"][r + wl - 1 + h] for h in fh[:i]]
                if rows[r] != [want]:
                    return ("train-row-not-lag-window: dirrec fit for step %d row %d got %s expected "
                            "window + earlier targets %s" % (fh[i], r, rows[r], want))
                if e["t"][r] != case["y"][tpos]:
                    return "target-not-h-steps-after-window: dirrec step %d row %d got %s" % (
                        fh[i], r, e["t"][r])
            f = None
        if f:
            return f
    # --- prediction data flow: the series as known at prediction time (after update)
    zp = [z + a for z, a in zip(zs, _news(case))]
    n = len(zp[0])
    last = [z[n - wl:] for z in zp]

    def view(x, nv):
        v = _rows3(x, nd, nv, "predict")
        return v[0] if v and len(v) == 1 else None
    if st in ("direct", "multioutput"):
        npred = len(fh) if st == "direct" else 1
        if len(preds) != npred:
            return "number-of-predict-calls: %d expected %d" % (len(preds), npred)
        for i, e in enumerate(preds):
            if view(e["X"], len(zs)) != last:
                return "predict-input-not-last-window: call %d got %s expected %s" % (i, e["X"], last)
            if e["k"] != i:
                return "forecast-not-regressor-output-for-step: call %d used the regressor fitted for step index %d" % (i, e["k"])
        got = [e["ret"] for e in preds] if st == "direct" else preds[0]["ret"][0]
        if out["forecast"] != got:
            return "forecast-not-regressor-output-for-step: forecast %s regressor outputs %s" % (
                out["forecast"], got)
    elif st == "recursive":
        fm = fh[-1]
        if len(preds) != fm:
            return "number-of-predict-calls: %d expected max(fh) = %d" % (len(preds), fm)
        ext = [zp[0] + [e["ret"] for e in preds]] + [
            c + f for c, f in zip(zp[1:], case["xfut"] or [[]] * len(case["xs"]))]
        for i, e in enumerate(preds):
            want = [s[n - wl + i:n + i] for s in ext]
            if view(e["X"], len(zs)) != want:
                return ("recursive-feedback: step %d input %s expected the last %d values of the "
                        "series extended by the earlier predictions %s" % (i + 1, e["X"], wl, want))
            if e["k"] != 0:
                return "forecast-not-regressor-output-for-step: wrong regressor"
        got = [preds[h - 1]["ret"] for h in fh]
        if out["forecast"] != got:
            return "forecast-not-regressor-output-for-step: forecast %s, outputs for steps %s are %s" % (
                out["forecast"], fh, got)
    else:
        if len(preds) != len(fh):
            return "number-of-predict-calls: %d expected %d" % (len(preds), len(fh))
        for i, e in enumerate(preds):
            want = [zp[0][n - wl:] + [p["ret"] for p in preds[:i]]]
            if view(e["X"], 1) != want:
                return ("dirrec-feedback: step index %d input %s expected last window followed by "
                        "the earlier predictions %s" % (i, e["X"], want))
            if e["k"] != i:
                return "forecast-not-regressor-output-for-step: call %d used regressor %d" % (i, e["k"])
        got = [e["ret"] for e in preds]
        if out["forecast"] != got:
            return "forecast-not-regressor-output-for-step: forecast %s regressor outputs %s" % (
                out["forecast"], got)
    want_idx = [case["off"] + n - 1 + h for h in fh]
    if out["index"] != want_idx:
        return "forecast-index: %s expected cutoff + fh = %s" % (out["index"], want_idx)
    return None


def nontrivial(case, out):
    if case["kind"] == "infer":
        return True
    if case["kind"] == "hist":
        # at least one forecast was made while the cutoff was not the last remembered label
        for stp in (out.get("steps") or [])[1:]:
            last = stp["mem"][-1][0] if stp.get("mem") else None
            if any(e["op"] == "predict" and e["cut"] is not None and last is not None
                   and e["cut"] < last for e in stp.get("ev", [])):
                return True
        return False
    if "nonint" in out or "nan_forecast" in out:
        return False
    n, wl, fh = len(case["y"]), case["wl"], case["fh"]
    fm = 1 if case.get("strategy") == "recursive" else fh[-1]
    nw = n - wl - fm + 1
    if "err" in out:
        return nw == 0
    return nw >= 2


def _shrink_pre(c):
    """simpler earlier lives first: none at all, then a plainer one"""
    pre = c.get("pre")
    if not pre:
        return
    d = dict(c)
    del d["pre"]
    yield d
    plain = dict(pre, step=1, predict=False, how="set_params", n=len(c["y"]))
    for k in ("step", "predict", "how", "n"):
        if pre.get(k) != plain[k]:
            d = dict(c)
            d["pre"] = dict(pre, **{k: plain[k]})
            yield d


def _shrink_hist(c):
    for d in _shrink_pre(c):
        yield d
    ops = c["ops"]
    for i in reversed(range(len(ops))):
        d = dict(c)
        d["ops"] = ops[:i] + ops[i + 1:]
        yield d
    for i, o in enumerate(ops):
        if o["op"] in ("update", "ups", "updpred") and len(o["y"]) > 1:
            for cut_front in (False, True):
                o2 = dict(o)
                if cut_front:
                    o2["y"] = o["y"][1:]
                    o2["t"] = o["t"] + 1
                    if o.get("xs"):
                        o2["xs"] = [x[1:] for x in o["xs"]]
                else:
                    o2["y"] = o["y"][:-1]
                    if o.get("xs"):
                        o2["xs"] = [x[:-1] for x in o["xs"]]
                d = dict(c)
                d["ops"] = ops[:i] + [o2] + ops[i + 1:]
                yield d
        if o["op"] == "updpred" and o["cv"] and o["cv"]["kind"] != "sliding":
            o2 = dict(o)
            o2["cv"] = dict(o["cv"], kind="sliding")
            d = dict(c)
            d["ops"] = ops[:i] + [o2] + ops[i + 1:]
            yield d
    if len(c["y"]) > 2:
        d = dict(c)
        d["y"] = c["y"][1:]
        d["xs"] = [x[1:] for x in c["xs"]]
        d["off"] = c["off"] + 1
        yield d
    if c.get("xlabels") and c["xlabels"] != ["x%d" % i for i in range(len(c["xs"]))]:
        d = dict(c)
        d["xlabels"] = ["x%d" % i for i in range(len(c["xs"]))]
        yield d
    if c.get("off"):
        # relabel the whole history so that the first observation is at 0
        k = c["off"]
        d = dict(c)
        d["off"] = 0
        d["ops"] = [dict(o, t=o["t"] - k) if "t" in o else o for o in ops]
        yield d
    if c.get("dtype") and c["dtype"] != ["float64", "float64"]:
        d = dict(c)
        d["dtype"] = ["float64", "float64"]
        yield d
    if c.get("explicit"):
        d = dict(c)
        d["explicit"] = False
        yield d
    if c["scitype"] != "tab":
        d = dict(c)
        d["scitype"] = "tab"
        yield d


def shrink(case):
    if case["kind"] == "infer":
        return
    if case["kind"] == "hist":
        for d in _shrink_hist(case):
            yield d
        return
    c = dict(case)
    for d in _shrink_pre(c):
        yield d
    n = len(c["y"])
    if n > 1:
        for m in (n - 1, n // 2):
            if m >= 1 and m != n:
                d = dict(c)
                d["y"] = c["y"][:m]
                d["xs"] = [x[:m] for x in c["xs"]]
                yield d
    if c["kind"] == "run" and _news(c)[0]:
        d = dict(c)
        d["news"] = [[] for _ in _news(c)]
        yield d
        d = dict(c)
        d["news"] = [a[:-1] for a in _news(c)]
        yield d
    if c["xs"]:
        d = dict(c)
        d["xs"] = c["xs"][:-1]
        if c.get("xfut"):
            d["xfut"] = c["xfut"][:-1]
        if c.get("news"):
            d["news"] = c["news"][:-1]
        if c.get("xlabels"):
            d["xlabels"] = c["xlabels"][:-1]
        yield d
    if c.get("xlabels") and c["xlabels"] != ["x%d" % i for i in range(len(c["xs"]))]:
        d = dict(c)
        d["xlabels"] = ["x%d" % i for i in range(len(c["xs"]))]
        yield d
    if c["wl"] > 1:
        d = dict(c)
        d["wl"] = c["wl"] - 1
        yield d
    fh = c["fh"]
    if len(fh) > 1:
        for i in range(len(fh)):
            d = dict(c)
            d["fh"] = fh[:i] + fh[i + 1:]
            if c.get("xfut"):
                d["xfut"] = [x[:d["fh"][-1]] for x in c["xfut"]]
            yield d
    for i, h in enumerate(fh):
        if h > 1 and (i == 0 or fh[i - 1] < h - 1):
            d = dict(c)
            d["fh"] = fh[:i] + [h - 1] + fh[i + 1:]
            if c.get("xfut"):
                d["xfut"] = [x[:d["fh"][-1]] for x in c["xfut"]]
            yield d
    if c.get("off"):
        d = dict(c)
        d["off"] = 0
        yield d
    if c.get("dtype") and c["dtype"] != ["float64", "float64"] and "bool" not in c["dtype"]:
        d = dict(c)
        d["dtype"] = ["float64", "float64"]
        yield d
    if c["y"] != list(range(1, n + 1)) and "bool" not in (c.get("dtype") or []):
        d = dict(c)
        d["y"] = list(range(1, n + 1))
        yield d
    if c.get("explicit"):
        d = dict(c)
        d["explicit"] = False
        yield d


# ------------------------------------------------------------------------------------------------
# model side

CASES_HEADER = """From Coq Require Import ZArith List Bool.
Require Import SkV.Lib.Base SkV.Lib.ZRange SkV.C05.Model SkV.C05.Hist SkV.C05.Cases.
Import ListNotations.
Open Scope Z_scope.
"""

_ST = {"direct": "Direct", "recursive": "Recursive", "multioutput": "Multioutput", "dirrec": "DirRec"}
_SC = {"tab": "Tabular", "ts": "TimeSeries"}


def _v2(v):
    """a value (multiple of 1/2) in the model's unit: doubled, so that it is an integer"""
    d = 2 * v
    if d != int(d):
        raise ValueError("not a multiple of 1/2: %r" % (v,))
    return cz(int(d))


def vzlist(l):
    return clist([_v2(v) for v in l])


def _czll(m):
    """matrix of VALUES"""
    return clist([vzlist(r) for r in m])


def _cxrows(X, ndim):
    if ndim == 2:
        return clist(["RTab " + vzlist(r) for r in X])
    if ndim == 3:
        return clist(["RPan " + _czll(r) for r in X])
    return None


def _cfit(e):
    X = _cxrows(e["X"], e["ndim"])
    if X is None:
        return None
    if e["tdim"] == 1:
        return "Fit1 %s %s" % (X, vzlist(e["t"]))
    if e["tdim"] == 2:
        return "FitM %s %s" % (X, _czll(e["t"]))
    return None


def _bad_shape():
    # a shape the model never produces (forces a disagreement the oracle has already named)
    return "(Some ([], [], [], []))"


def _crun_out(out):
    if "err" in out:
        return "None"
    fs = [_cfit(e) for e in out["fits"]]
    ps = []
    for e in out["preds"]:
        X = _cxrows(e["X"], e["ndim"])
        if X is None or len(e["X"]) != 1:
            return _bad_shape()
        ps.append("(%s, %s)" % (cz(e["k"]), X[1:-1]))
    if any(f is None for f in fs):
        return _bad_shape()
    if not isinstance(out["forecast"], list) or any(isinstance(v, list) for v in out["forecast"]):
        return _bad_shape()
    return "(Some (%s, %s, %s, %s))" % (clist(fs), clist(ps), vzlist(out["forecast"]),
                                       czlist(out["index"]))


def _cinputs(case):
    return "%s %s %s %s" % (vzlist(case["y"]), _czll(case["xs"]), cz(case["wl"]), czlist(case["fh"]))


def _ctser(t0, vals):
    return "(tblock %s %s)" % (cz(t0), vzlist(vals))


def _cfh(fh):
    return "None" if fh is None else "(Some %s)" % czlist(fh)


def _ccv(c):
    if c is None:
        return "None"
    return "(Some (mk_cv %s %s %s %s %s))" % (cbool(c["kind"] == "sliding"), czlist(c["fh"]),
                                               cz(c["wl"]), cz(c["step"]), cbool(c["sww"]))


def _cop(o):
    if o["op"] == "update":
        xs = "None" if not o["xs"] else "(Some %s)" % clist([_ctser(o["t"], c) for c in o["xs"]])
        return "HUpdate %s %s %s" % (_ctser(o["t"], o["y"]), xs, cbool(o["up"]))
    if o["op"] == "predict":
        return "HPredict %s %s" % (_cfh(o["fh"]), _czll(o.get("xfut") or []))
    if o["op"] == "ups":
        return "HUps %s %s %s" % (_ctser(o["t"], o["y"]), _cfh(o["fh"]), cbool(o["up"]))
    return "HUpdPred %s %s %s" % (_ctser(o["t"], o["y"]), _ccv(o["cv"]), cbool(o["up"]))


def _cev(e):
    if e["op"] == "fit":
        f = _cfit(e)
        return None if f is None else "EvFit (%s)" % f
    X = _cxrows(e["X"], e["ndim"])
    if X is None or len(e["X"]) != 1 or e["cut"] is None:
        return None
    return "EvPred %s %s (%s)" % (cz(e["cut"]), cz(e["k"]), X[1:-1])


def _cfc(ix, v):
    return "(%s, %s)" % (czlist(ix), "None" if v is None else "Some %s" % vzlist(v))


def _chist_out(out):
    if "err" in out:
        return "None"
    hs = []
    for stp in out["steps"]:
        if "err" in stp:
            hs.append("([], RErr, 0, [])")
            continue
        evs = [_cev(e) for e in stp["ev"]]
        if any(e is None for e in evs):
            evs = ["EvPred 0 (-1) (RTab [])"]     # a shape the model never produces
        r = stp["ret"]
        if r is None:
            res = "RNone"
        elif "mc" in r:
            res = "RMoving %s" % clist([_cfc(ix, v) for _, ix, v in r["mc"]])
        else:
            v = r["v"]
            if v is not None and (not isinstance(v, list) or any(isinstance(x, list) for x in v)):
                v = []
            res = "RPred %s" % _cfc(r["ix"], v)
        mem = clist(["(%s, %s)" % (cz(t), _v2(v)) for t, v in stp["mem"]])
        hs.append("(%s, %s, %s, %s)" % (clist(evs), res, cz(stp["cut"]), mem))
    return "(Some %s)" % clist(hs)


def _chist_inputs(case):
    return "%s %s %s %s %s %s %s %s" % (
        _ST[case["strategy"]], _SC[case["scitype"]], cz(case["wl"]), cz(case["off"]),
        vzlist(case["y"]), _czll(case["xs"]), _cfh(case["fh"]), clist([_cop(o) for o in case["ops"]]))


def coq_case(case, out):
    k = case["kind"]
    if out is None or "nonint" in out or "nan_forecast" in out:
        return None
    if k == "hist":
        return "CHist %s %s" % (_chist_inputs(case), _chist_out(out))
    if k == "infer":
        e = case["estimator"]
        o = {None: "None", "tabular-regressor": "(Some Tabular)",
             "time-series-regressor": "(Some TimeSeries)"}.get(out["scitype"], "None")
        return "CInfer %s %s %s" % (cbool(e in ("ts", "both")), cbool(e in ("tab", "both")), o)
    if k == "swt":
        if "err" in out:
            o = "None"
        else:
            X = _cxrows(out["Xt"], out["ndim"])
            if X is None or out["tdim"] != 2:
                return "CSwt %s %s (Some ([], [RTab []]))" % (_SC[case["scitype"]], _cinputs(case))
            o = "(Some (%s, %s))" % (_czll(out["yt"]), X)
        return "CSwt %s %s %s" % (_SC[case["scitype"]], _cinputs(case), o)
    return "CRun %s %s %s %s %s %s %s" % (_ST[case["strategy"]], _SC[case["scitype"]], _cinputs(case),
                                         _czll(case["xfut"]), _czll(_news(case)), cz(case["off"]),
                                         _crun_out(out))


def coq_model_term(case):
    k = case["kind"]
    if k == "hist":
        return "model_hist %s" % _chist_inputs(case)
    if k == "infer":
        e = case["estimator"]
        return "infer_scitype %s %s" % (cbool(e in ("ts", "both")), cbool(e in ("tab", "both")))
    if k == "swt":
        return "swt_view %s %s" % (_SC[case["scitype"]], _cinputs(case))
    return "(model_run %s %s %s %s %s, forecast_index %s %s %s)" % (
        _ST[case["strategy"]], _SC[case["scitype"]], _cinputs(case), _czll(case["xfut"]),
        _czll(_news(case)), cz(case["off"]), cz(len(case["y"]) + len(_news(case)[0])),
        czlist(case["fh"]))


def distribution(cases, results):
    import collections
    d = collections.Counter()
    for c, r in zip(cases, results):
        o = r.get("out") or {}
        if c["kind"] in ("hist", "run", "swt"):
            d["dtype:y=%s,X=%s" % tuple(c.get("dtype") or ["float64", "float64"])] += 1
            lb = c.get("xlabels") or []
            if len(lb) >= 2:
                try:
                    srt = lb == sorted(lb)
                except TypeError:
                    srt = None
                d["xlabels(>=2 columns):%s" % ("mixed types" if srt is None else "sorted" if srt
                                               else "not sorted")] += 1
        if c["kind"] in ("hist", "run") and c.get("pre"):
            a = c["pre"]["wl"]
            d["%s:refit-after-%s:window %s" % (c["kind"], c["pre"].get("how"),
                                              "grows" if a < c["wl"] else "shrinks" if a > c["wl"]
                                              else "unchanged")] += 1
        if c["kind"] == "hist":
            d["hist:scenario=%s" % c.get("scenario")] += 1
            d["hist:%s:%s" % (c["strategy"], c["scitype"])] += 1
            d["hist:exog=%d" % len(c["xs"])] += 1
            for op in c["ops"]:
                d["hist:op=%s%s" % (op["op"], ":refit" if op.get("up") else "")] += 1
                if op["op"] == "updpred":
                    d["hist:cv=%s" % ("default" if op["cv"] is None else "%s:sww=%s" % (
                        op["cv"]["kind"], op["cv"]["sww"]))] += 1
            npred = nmid = nnan = 0
            for stp in (o.get("steps") or [])[1:]:
                last = stp["mem"][-1][0] if stp.get("mem") else None
                for e in stp.get("ev", []):
                    if e["op"] == "predict":
                        npred += 1
                        nmid += bool(last is not None and e["cut"] is not None and e["cut"] < last)
                rr = stp.get("ret") or {}
                nnan += bool("v" in rr and rr["v"] is None)
            d["hist:predict-calls"] += npred
            d["hist:predict-calls-with-cutoff-before-remembered-end"] += nmid
            d["hist:nan-forecasts(window not remembered)"] += nnan
        elif c["kind"] == "run":
            d["run:%s:%s:%s" % (c["strategy"], c["scitype"], "rejected" if "err" in o else "accepted")] += 1
            d["run:exog=%d" % len(c["xs"])] += 1
            d["run:update=%s" % ("yes" if _news(c)[0] else "no")] += 1
            gap = c["fh"] != list(range(1, len(c["fh"]) + 1))
            d["run:fh=%s" % ("gapped" if gap else "contiguous")] += 1
        else:
            d["%s:%s" % (c["kind"], "rejected" if "err" in o else "accepted")] += 1
    return dict(d)


def extra_coverage(cases, results, tier):
    return {"exhaustive": False,
            "exhaustive_scope": ("n<=10, wl<=4, fh subset of {1..3}, 4 strategies x 2 scitypes, 0-1 "
                                 "exogenous columns: %d cases, all enumerated" % len(exhaustive_cases()))
            if tier == "thorough" else "thorough only"}
