"""C06 - forecast accuracy metrics equal their published definitions and obey their laws."""
from fractions import Fraction

from harness.core import cbool, clist, cnat, copt, cq

ID = "C06"
MODEL_TARGETS = ["C06/Cases.vo"]
PROOF_TARGETS = ["C06/Gen.vo", "C06/WrapSem.vo", "C06/GenWrap.vo", "C06/Bridge.vo",
                 "C06/Proofs.vo", "C06/GMean.vo", "C06/Refuted.vo"]
OBLIGATION_FILES = ["C06/Bridge.v", "C06/Refuted.v"]
PROPS_FILE = "C06/Props.v"
SHARD = 120
PER_CASE_TIMEOUT = 30
RULE = ("all 18 metric functions x option combinations (symmetric, square_root, sp in 1..3, "
        "horizon_weight none / positive dyadic / with zero entries / equal, multioutput raw / uniform / "
        "weights, 1-D input or 1..3 columns, numpy or pandas containers, storage types int64 / int32 / "
        "float32 / bool for the series and the horizon weights - the reference is computed from the "
        "numbers in exact arithmetic, single precision is judged at 2e-5) on small dyadic-rational "
        "data with planted structure (exact hits y_pred=y_true, zeros in y_true, y_true=y_bench, sign "
        "changes, constant training series, values below EPS); per case the implementation is also "
        "run on the perfect forecast, with truth/forecast swapped, rescaled by c, per column, and "
        "with rescaled / equal horizon weights; plus every metric class against its function for all "
        "constructor options. non-trivial = accepted call with horizon >= 2 and not all errors zero; "
        "distinct = distinct canonical JSON case")
TRUSTED = [
    "translator/metricq.py + translator/metricsym.py (fail-closed): every function / method is "
    "executed symbolically (same-module helpers, self._helper() and super().__init__ inlined "
    "along the C3 MRO; statements in continuation style) and the readers inspect the TERM it "
    "computes in each mode (horizon_weight None / array, multioutput raw / uniform / array, "
    "square_root) - never the text of a statement, never a private name, import alias or "
    "constant name (imports are resolved to what they are, constants to their value, helpers are "
    "followed into other modules of the sub-package): the per-step loss of each function as a Q "
    "expression with all helpers inlined, "
    "the structure of the 18 public functions, their option defaults, and the wrapper facts of "
    "the 18 classes (what the constructor chain stores, what __call__ passes). Statements run for "
    "their effect alone: calls of check_consistent_length / check_time_index, and `raise` under "
    "conditions on type / shape / index facts only. Validated on every run: Bridge.v proves the "
    "regenerated definitions equal to the model that the implementation is compared with",
    "modelled, not verified: numpy element-wise arithmetic / np.where / np.maximum / np.minimum / "
    "np.abs / np.square as the scalar operation per horizon step, np.average / np.mean / np.median, "
    "scipy gmean, sklearn 1.7 mean_absolute_error / mean_squared_error / root_mean_squared_error / "
    "median_absolute_error and _weighted_percentile (algorithm transcribed from the installed "
    "source), _check_reg_targets as a reshaper to (horizon, outputs). numpy BROADCASTING between "
    "arrays of different shapes is not modelled: the translator only accepts aggregations whose "
    "weights go through np.average(..., weights=, axis=0) / _weighted_percentile(sample_weight=) "
    "and refuses hand-written `weights * array` products (the repaired F-C06-6 had that shape and "
    "was found by the correspondence half, not by the translator)",
    "float64 rounding is outside the model: equalities are compared in Q with relative tolerance "
    "1e-9; square roots / geometric means are never computed but checked through their defining "
    "equation root^deg ~ pre-root quantity (the implementation's raw_values output is the witness)",
    "Python calling rules (unexpected keyword -> TypeError before the body, missing attribute -> "
    "AttributeError while evaluating arguments) as modelled by Wrap.class_call; compared with the "
    "real classes on every class case",
]
MODELLED = [
    "geometric-mean metrics: exp / log are not computed; the weighted geometric mean is modelled by "
    "its defining equation value^(sum W_i) = prod x_i^W_i for integer weights W proportional to the "
    "horizon weights (any rational weights >= 0, not all zero; GMean.v proves the choice of the "
    "common multiple immaterial)",
    "relative_loss: relative_loss_function ranges over mean/median absolute/squared error only",
    "input validation (shape / index checks, y_train before y_true) is not modelled; only valid "
    "inputs are generated (horizon >= 1, len(y_train) > sp, weights >= 0 with positive sum)",
    "multi-output scaled errors and relative_loss with uniform_average / weights: the value is the "
    "ratio of the averaged numerator and the averaged (clamped) denominator, as the code and its "
    "docstring examples do; the docstring sentence 'weighted average of all output errors' "
    "would be the average of the per-output ratios (observation O1 in notes/C06.md)",
]
NOT_RUNNABLE = []



def translate(repo):
    from translator import metricq
    files = metricq.translate(repo)
    files.update(metricq.translate_classes(repo))
    return files


# name -> (coq name, class name, option names, extra series)
METRICS = {
    "mean_absolute_error": ("MAE", "MeanAbsoluteError", (), None),
    "mean_squared_error": ("MSE", "MeanSquaredError", ("square_root",), None),
    "median_absolute_error": ("MdAE", "MedianAbsoluteError", (), None),
    "median_squared_error": ("MdSE", "MedianSquaredError", ("square_root",), None),
    "mean_absolute_percentage_error": ("MAPE", "MeanAbsolutePercentageError", ("symmetric",), None),
    "median_absolute_percentage_error": ("MdAPE", "MedianAbsolutePercentageError", ("symmetric",),
                                         None),
    "mean_squared_percentage_error": ("MSPE", "MeanSquaredPercentageError",
                                      ("symmetric", "square_root"), None),
    "median_squared_percentage_error": ("MdSPE", "MedianSquaredPercentageError",
                                        ("symmetric", "square_root"), None),
    "mean_relative_absolute_error": ("MRAE", "MeanRelativeAbsoluteError", (), "y_pred_benchmark"),
    "median_relative_absolute_error": ("MdRAE", "MedianRelativeAbsoluteError", (),
                                       "y_pred_benchmark"),
    "geometric_mean_relative_absolute_error": ("GMRAE", "GeometricMeanRelativeAbsoluteError", (),
                                               "y_pred_benchmark"),
    "geometric_mean_relative_squared_error": ("GMRSE", "GeometricMeanRelativeSquaredError",
                                              ("square_root",), "y_pred_benchmark"),
    "mean_absolute_scaled_error": ("MASE", "MeanAbsoluteScaledError", ("sp",), "y_train"),
    "median_absolute_scaled_error": ("MdASE", "MedianAbsoluteScaledError", ("sp",), "y_train"),
    "mean_squared_scaled_error": ("MSSE", "MeanSquaredScaledError", ("sp", "square_root"),
                                  "y_train"),
    "median_squared_scaled_error": ("MdSSE", "MedianSquaredScaledError", ("sp", "square_root"),
                                    "y_train"),
    "mean_asymmetric_error": ("MAsym", "MeanAsymmetricError",
                              ("asymmetric_threshold", "left_error_function",
                               "right_error_function"), None),
    "relative_loss": ("RelLoss", "RelativeLoss", ("relative_loss_function",), "y_pred_benchmark"),
}
RL_FUNCS = ["mean_absolute_error", "mean_squared_error", "median_absolute_error",
            "median_squared_error"]
PCT = {"MAPE", "MdAPE", "MSPE", "MdSPE"}
GM = {"GMRAE", "GMRSE"}
SCALED = {"MASE", "MdASE", "MSSE", "MdSSE"}
EPS = Fraction(1, 2 ** 52)
TOL = Fraction(1, 10 ** 9)


def _short(metric):
    return METRICS[metric][0]


# ------------------------------------------------------------------------------------------------
# generators


def _vals(rng, n, style):
    """n dyadic values; style selects the planted structure."""
    grid = [k / 4.0 for k in range(-12, 13)]
    if style == "pos":
        return [rng.choice([0.25, 0.5, 1.0, 1.5, 2.0, 3.0, 5.0, 7.5]) for _ in range(n)]
    if style == "const":
        v = rng.choice(grid)
        return [v] * n
    if style == "zeros":
        return [rng.choice([0.0, 0.0, 1.0, -2.0, 0.5]) for _ in range(n)]
    if style == "tiny":
        return [rng.choice([0.0, 2.0 ** -60, -2.0 ** -55, 2.0 ** -53, 1.0, -0.5]) for _ in range(n)]
    if style == "eps":
        # differences around machine epsilon, all exactly representable: both sides of the EPS clamps
        return [rng.choice([0.0, 2.0 ** -60, -2.0 ** -55, 2.0 ** -53, 2.0 ** -51, -2.0 ** -50,
                            2.0 ** -52]) for _ in range(n)]
    if style == "int_big":
        # 32-bit integers whose differences do not fit 32 bits when squared (|d| > 46340)
        return [rng.choice([0.0, 50000.0, -60000.0, 3.0, 65536.0, -1.0]) for _ in range(n)]
    if style == "big":
        return [rng.choice([1024.0, -4096.0, 0.5, 3.0, 2.0 ** 20]) for _ in range(n)]
    return [rng.choice(grid) for _ in range(n)]


def _hw(rng, n):
    r = rng.random()
    if r < 0.2:
        return [rng.choice([0.5, 1.0, 2.0])] * n          # equal weights: exact cdf ties
    if r < 0.45:
        w = [rng.choice([0.0, 0.0, 1.0, 2.0, 0.5]) for _ in range(n)]
        if sum(w) == 0:
            w[rng.randrange(n)] = 1.0
        return w
    return [rng.choice([0.25, 0.5, 1.0, 1.0, 2.0, 3.0]) for _ in range(n)]


def _mo(rng, k):
    r = rng.random()
    if r < 0.3:
        return "raw_values"
    if r < 0.6 or k == 1:
        return "uniform_average"
    return [rng.choice([0.3, 0.7, 1.0, 2.0, 0.5, 0.25]) for _ in range(k)]


DEFAULTS = {"symmetric": True, "square_root": False, "sp": 1, "asymmetric_threshold": 0.0,
            "left_error_function": "squared", "right_error_function": "absolute",
            "relative_loss_function": "mean_absolute_error"}


def _opts(rng, metric):
    o = {}
    names = METRICS[metric][2]
    if "symmetric" in names:
        o["symmetric"] = rng.random() < 0.6
    if "square_root" in names:
        o["square_root"] = rng.random() < 0.5
    if "sp" in names:
        o["sp"] = rng.choice([1, 1, 2, 3])
    if "asymmetric_threshold" in names:
        o["asymmetric_threshold"] = rng.choice([0.0, 0.0, 0.5, 0.5, -1.0, 0.25, 2.0, -0.5])
        o["left_error_function"] = rng.choice(["squared", "absolute"])
        o["right_error_function"] = rng.choice(["squared", "absolute"])
        if rng.random() < 0.5:
            o["right_error_function"] = "absolute" if o["left_error_function"] == "squared" \
                else "squared"
    if "relative_loss_function" in names:
        o["relative_loss_function"] = rng.choice(RL_FUNCS)
    return o


def _data(rng, metric, n, k, sp, styles=None):
    """columns of y_true / y_pred / y_bench / y_train with planted structure."""
    extra = METRICS[metric][3]
    style = rng.choice(styles or ["mixed", "mixed", "mixed", "pos", "zeros", "tiny", "big",
                                  "const"])
    if style == "tiny" and _short(metric) == "MAsym":
        # the threshold switch is discontinuous: keep y_true - y_pred exact in float64
        style = "mixed"
    yt, yp, yb, ytr = [], [], None, None
    for _ in range(k):
        t = _vals(rng, n, style)
        p = _vals(rng, n, rng.choice([style, "mixed"]))
        for i in range(n):          # exact hits and sign flips
            r = rng.random()
            if r < 0.2:
                p[i] = t[i]
            elif r < 0.3:
                p[i] = -t[i]
        yt.append(t)
        yp.append(p)
    if extra == "y_pred_benchmark":
        yb = []
        # benchmark within a few EPS of the truth everywhere (not for typed storage: see _plan)
        near = styles is None and rng.random() < 0.12
        if near:
            yt = [_vals(rng, n, "eps") for _ in range(k)]
        for j in range(k):
            b = _vals(rng, n, "eps" if near else rng.choice([style, "mixed"]))
            for i in range(n):
                r = rng.random()
                if r < 0.2:
                    b[i] = yt[j][i]         # zero denominator -> +EPS
                elif r < 0.3:
                    b[i] = yp[j][i]
            yb.append(b)
    if extra == "y_train":
        m = sp + rng.choice([1, 1, 2, 3, 5])
        ytr = [_vals(rng, m, rng.choice([style, "mixed", "mixed", "const"] +
                                        (["eps"] if styles is None else [])))
               for _ in range(k)]
    return yt, yp, yb, ytr


# ---- storage types.  The dtype of an argument only changes how its numbers are STORED: the metric
# is defined on the numbers, so the reference below never looks at it.  A series gets a typed
# storage only if its values are exactly representable in it (_fits).
PLANS = ["int_true", "int_true", "int_all", "f32", "bool_true", "hw_typed", "hw_typed", "int_big"]
# metrics that square a DIFFERENCE OF THE INPUTS themselves (the others divide first, or hand the
# data to scikit-learn, which converts to floating point)
SQUARES_INPUTS = {"median_squared_error", "mean_asymmetric_error", "median_squared_scaled_error"}


def _fits(vals, dt):
    import struct
    flat = [v for c in vals for v in c] if vals and isinstance(vals[0], list) else list(vals)
    if dt == "bool":
        return all(v in (0.0, 1.0) for v in flat)
    if dt in ("int64", "int32"):
        lim = 2 ** 17 if dt == "int32" else 2 ** 40
        return all(float(v).is_integer() and abs(v) <= lim for v in flat)
    if dt == "float32":
        return all(struct.unpack("f", struct.pack("f", v))[0] == v for v in flat)
    return True


def _plan(rng, c, plan):
    """dtypes for the arguments of case c (values already chosen to suit the plan)."""
    it = rng.choice(["int64", "int64", "int32"])
    want = {}
    if plan == "int_true":
        want = {"y_true": it, "y_train": rng.choice([it, "float64"])}
    elif plan == "int_all":
        want = {"y_true": it, "y_pred": it, "y_bench": it, "y_train": it}
    elif plan == "int_big":
        want = {s_: "int32" for s_ in ("y_true", "y_pred", "y_bench", "y_train")}
    elif plan == "f32":
        want = {s_: "float32" for s_ in ("y_true", "y_pred", "y_bench", "y_train")}
        if rng.random() < 0.5:
            want["hw"] = "float32"
    elif plan == "bool_true":
        want = {"y_true": "bool"}
    elif plan == "hw_typed":
        want = {"hw": rng.choice(["int64", "int32", "bool", "float32"])}
        if rng.random() < 0.5:
            want["y_true"] = it
    dts = {}
    for s_, dt in want.items():
        v = c.get(s_)
        if v is not None and dt != "float64" and _fits(v, dt):
            dts[s_] = dt
    if dts:
        c["dtypes"] = dts


def _func_case(rng, metric, force=None):
    force = force or {}
    n = force.get("n", rng.choice([1, 2, 2, 3, 3, 4, 4, 5, 6]))
    univ = force.get("univ", rng.random() < 0.35)
    k = 1 if univ else force.get("k", rng.choice([1, 2, 2, 3]))
    o = _opts(rng, metric)
    omit = bool(o) and rng.random() < 0.15
    if omit:        # call without the option keywords: the documented defaults must apply
        o = {nm: DEFAULTS[nm] for nm in o}
    sh = _short(metric)
    plan = force.get("plan", rng.choice(PLANS) if rng.random() < 0.4 else None)
    if plan == "f32" and sh in GM:
        plan = None     # the root equation amplifies single-precision rounding beyond any tolerance
    styles = None
    if plan in ("int_true", "int_all", "bool_true"):
        styles = ["mixed", "mixed", "pos", "zeros", "const", "big"]
    elif plan == "int_big":
        styles = ["int_big"]
    elif plan == "f32":
        styles = ["mixed", "mixed", "pos", "zeros", "const", "big"]
    yt, yp, yb, ytr = _data(rng, metric, n, k, o.get("sp", 1), styles)
    if plan in ("int_true", "int_all", "bool_true"):
        # count-like data: the quarter grid becomes the integers (planted equalities survive)
        yt, yp, ytr = [[[4.0 * v for v in col] for col in s_] if s_ is not None else None
                       for s_ in (yt, yp, ytr)]
        yb = [[4.0 * v for v in col] for col in yb] if yb is not None else None
    if plan == "bool_true":
        yt = [[float(rng.random() < 0.5) for _ in col] for col in yt]
    if sh == "MAsym" and rng.random() < 0.6:
        # plant errors exactly AT the threshold (the switch is `<`, not `<=`)
        for j in range(k):
            i = rng.randrange(n)
            yp[j][i] = yt[j][i] - o["asymmetric_threshold"]
    hw = None
    if force.get("hw", rng.random() < (0.5 if plan is None else 0.8)):
        hw = _hw(rng, n)
        if plan == "hw_typed" and rng.random() < 0.6:
            hw = [float(rng.choice([0, 1, 1, 2, 3])) for _ in range(n)]
            if sum(hw) == 0:
                hw[rng.randrange(n)] = 1.0
    c = {"kind": "func", "metric": metric, "opts": o, "mo": _mo(rng, k), "hw": hw,
         "univariate": univ, "container": "pandas" if rng.random() < 0.2 else "numpy",
         "y_true": yt, "y_pred": yp}
    if yb is not None:
        c["y_bench"] = yb
    if ytr is not None:
        c["y_train"] = ytr
        c["scale"] = rng.choice([0.5, 3.0, 10.0, 2.0 ** -30, 1e-3])
    if omit:
        c["omit_opts"] = True
    c["agg"] = STRUCT[sh][3] or "inner"
    if plan is not None:
        _plan(rng, c, plan)
    dts = c.get("dtypes", {})
    if plan == "int_big" and dts.get("y_true") == "int32":
        i32 = {s_ for s_, dt in dts.items() if dt == "int32"}
        rl = c["opts"].get("relative_loss_function")
        if (metric in SQUARES_INPUTS and "y_pred" in i32) \
                or (metric == "median_squared_scaled_error" and "y_train" in i32) \
                or (rl == "median_squared_error" and i32 & {"y_pred", "y_bench"}):
            c["tag"] = "int32-squared-differences"
    return c


def gen_cases(rng, tier):
    cases = []
    per = 32 if tier == "quick" else 700
    for metric in METRICS:
        sh = _short(metric)
        for _ in range(per):
            cases.append(_func_case(rng, metric))
    # every class: all constructor options x a few data sets
    import itertools
    for metric, (sh, cls, names, extra) in METRICS.items():
        grids = []
        for nm in names:
            if nm in ("symmetric", "square_root"):
                grids.append([(nm, True), (nm, False)])
            elif nm == "sp":
                grids.append([(nm, 1), (nm, 2)])
            elif nm == "asymmetric_threshold":
                grids.append([(nm, 0.0), (nm, 0.5)])
            elif nm in ("left_error_function", "right_error_function"):
                grids.append([(nm, "squared"), (nm, "absolute")])
            elif nm == "relative_loss_function":
                grids.append([(nm, f) for f in RL_FUNCS[:2]])
        for combo in itertools.product(*grids):
            o = dict(combo)
            for rep in range(2 if tier == "quick" else 20):
                n = rng.choice([2, 3, 4, 5])
                univ = rep % 2 == 0
                k = 1 if univ else 2
                yt, yp, yb, ytr = _data(rng, metric, n, k, o.get("sp", 1))
                c = {"kind": "class", "metric": metric, "cls": cls, "opts": o,
                     "needs": extra or "none", "proto": "call", "mo": "uniform_average",
                     "hw": None, "univariate": univ,
                     "container": "pandas" if rng.random() < 0.3 else "numpy", "y_true": yt,
                     "y_pred": yp}
                if yb is not None:
                    c["y_bench"] = yb
                if ytr is not None:
                    c["y_train"] = ytr
                if rng.random() < 0.3:
                    _plan(rng, c, rng.choice(["int_true", "int_all", "f32"]))
                    if _single_precision(c) and sh in GM:
                        del c["dtypes"]
                cases.append(c)
                if extra and rep == 0:
                    d = dict(c)
                    d["proto"] = "bare"
                    cases.append(d)
            cases.append({"kind": "class_opts", "metric": metric, "cls": cls, "opts": o})
        if names:
            # default-constructed class against the function called with the documented defaults
            o = {nm: DEFAULTS[nm] for nm in names}
            n = rng.choice([2, 3, 4])
            yt, yp, yb, ytr = _data(rng, metric, n, 2, 1)
            c = {"kind": "class", "metric": metric, "cls": cls, "opts": o, "omit_ctor": True,
                 "needs": extra or "none", "proto": "call", "mo": "uniform_average", "hw": None,
                 "univariate": False, "container": "numpy", "y_true": yt, "y_pred": yp}
            if yb is not None:
                c["y_bench"] = yb
            if ytr is not None:
                c["y_train"] = ytr
            cases.append(c)
    return cases


# ------------------------------------------------------------------------------------------------
# implementation side (runs in the driver subprocess)


def _arr(cols, univ, container="numpy", start=0, dtype=None):
    import numpy as np
    a = np.array(cols, dtype=float).T
    if dtype:
        a = a.astype(dtype)
    if univ:
        a = a[:, 0]
    if container == "pandas":
        import pandas as pd
        idx = pd.RangeIndex(start, start + a.shape[0])
        return pd.Series(a, index=idx) if univ else pd.DataFrame(a, index=idx)
    return a


def _kwargs(case, F, scale=1.0, container=None, swap=False, perfect=False, cols=None):
    """positional/keyword arguments of the function call for a case."""
    import numpy as np
    cont = container or case.get("container", "numpy")
    univ = case["univariate"]
    sel = (lambda x: x) if cols is None else (lambda x: [x[j] for j in cols])
    if cols is not None:
        univ = True
    m = len(case["y_train"][0]) if "y_train" in case else 0
    dts = case.get("dtypes", {})
    yt = _arr(sel(case["y_true"]), univ, cont, m, dts.get("y_true"))
    yp = _arr(sel(case["y_pred"]), univ, cont, m, dts.get("y_pred"))
    if perfect:
        # the same numbers as forecast (numpy has no boolean subtraction: a boolean truth is
        # forecast perfectly by the same 0/1 values stored as floats)
        yp = yt.astype(float) if dts.get("y_true") == "bool" else yt.copy()
    if swap:
        yt, yp = yp, yt
    kw = {}
    o = case["opts"]
    for nm in ("symmetric", "square_root", "sp", "asymmetric_threshold", "left_error_function",
               "right_error_function"):
        if nm in o and not case.get("omit_opts"):
            kw[nm] = o[nm]
    if "relative_loss_function" in o and not case.get("omit_opts"):
        kw["relative_loss_function"] = getattr(F, o["relative_loss_function"])
    if "y_bench" in case:
        kw["y_pred_benchmark"] = _arr(sel(case["y_bench"]), univ, cont, m, dts.get("y_bench"))
    if "y_train" in case:
        kw["y_train"] = _arr(sel(case["y_train"]), univ, cont, 0, dts.get("y_train"))
    if scale != 1.0:        # (a typed array times 1.0 would silently become float64)
        yt, yp = yt * scale, yp * scale
        for nm in ("y_pred_benchmark", "y_train"):
            if nm in kw:
                kw[nm] = kw[nm] * scale
    return yt, yp, kw


def _hw_arg(case, hw):
    """the horizon weights as passed: a list of floats, or an array of the planned dtype."""
    dt = case.get("dtypes", {}).get("hw")
    if hw is None or not dt:
        return hw
    import numpy as np
    return np.array(hw, dtype=float).astype(dt)


def _fl(r):
    import numpy as np
    a = np.asarray(r, dtype=float)
    return [float(x) for x in a.reshape(-1)] if a.ndim else [float(a)]


def _try(f, *a, **k):
    try:
        return _fl(f(*a, **k))
    except (ValueError, TypeError, ZeroDivisionError, AttributeError, IndexError, KeyError,
            FloatingPointError) as e:
        return {"err": type(e).__name__, "msg": str(e)[:160]}


def _mo_arg(mo):
    return mo if isinstance(mo, str) else list(mo)


def run_impl(case):
    import warnings
    import numpy as np
    import sktime.performance_metrics.forecasting as M
    F = M       # the functions are observed through the public package namespace only
    warnings.simplefilter("ignore")
    kind = case["kind"]
    if kind == "class_opts":
        try:
            kw = dict(case["opts"])
            if "relative_loss_function" in kw:
                kw["relative_loss_function"] = getattr(F, kw["relative_loss_function"])
            obj = getattr(M, case["cls"])(**kw)
            stored = {}
            for nm in case["opts"]:
                v = getattr(obj, nm, "<missing>")
                stored[nm] = getattr(v, "__name__", v)
            # the wrapped function, under whatever private attribute the class keeps it
            held = sorted(getattr(v, "__name__", "?") for k, v in vars(obj).items()
                          if k not in case["opts"] and callable(v))
            return {"stored": stored, "func": held[0] if len(held) == 1 else ",".join(held)}
        except (TypeError, ValueError, AttributeError) as e:
            return {"err": type(e).__name__, "msg": str(e)[:160]}
    f = getattr(F, case["metric"])
    yt, yp, kw = _kwargs(case, F)
    if kind == "class":
        out = {"func": _try(f, yt, yp, **kw)}
        ckw = {} if case.get("omit_ctor") else {nm: kw[nm] for nm in case["opts"]}
        extra = {nm: kw[nm] for nm in ("y_train", "y_pred_benchmark") if nm in kw}
        try:
            obj = getattr(M, case["cls"])(**ckw)
        except (TypeError, ValueError, AttributeError) as e:
            return dict(out, cls={"err": type(e).__name__, "msg": "constructor: " + str(e)[:140]})
        if case["proto"] == "bare":
            out["cls"] = _try(obj, yt, yp)
        else:
            out["cls"] = _try(obj, yt, yp, **extra)
        return out
    hw = _hw_arg(case, case["hw"])
    mo = _mo_arg(case["mo"])
    out = {"val": _try(f, yt, yp, horizon_weight=hw, multioutput=mo, **kw)}
    if isinstance(out["val"], dict):
        return out
    out["raw"] = _try(f, yt, yp, horizon_weight=hw, multioutput="raw_values", **kw)
    laws = {}
    a, b, kw2 = _kwargs(case, F, perfect=True)
    laws["perfect"] = _try(f, a, b, horizon_weight=hw, multioutput=mo, **kw2)
    sh = _short(case["metric"])
    if sh in PCT and case["opts"].get("symmetric"):
        a, b, kw2 = _kwargs(case, F, swap=True)
        laws["swap"] = _try(f, a, b, horizon_weight=hw, multioutput=mo, **kw2)
    if sh in SCALED:
        a, b, kw2 = _kwargs(case, F, scale=case["scale"])
        laws["scaled"] = _try(f, a, b, horizon_weight=hw, multioutput=mo, **kw2)
    if not case["univariate"]:
        per = []
        for j in range(len(case["y_true"])):
            a, b, kw2 = _kwargs(case, F, cols=[j], container="numpy")
            per.append(_try(f, a, b, horizon_weight=hw, multioutput="uniform_average", **kw2))
        laws["percol"] = per
    if hw is not None:
        laws["hw_x4"] = _try(f, yt, yp, horizon_weight=_hw_arg(case, [4.0 * w for w in case["hw"]]),
                             multioutput=mo, **kw)
    else:
        laws["hw_equal"] = _try(f, yt, yp, horizon_weight=[2.0] * len(case["y_true"][0]),
                                multioutput=mo, **kw)
    if sh == "MAsym" and case["opts"]["left_error_function"] == case["opts"]["right_error_function"]:
        g = F.mean_absolute_error if case["opts"]["left_error_function"] == "absolute" \
            else F.mean_squared_error
        laws["same_sides"] = _try(g, yt, yp, horizon_weight=hw, multioutput=mo)
    out["laws"] = laws
    return out


# ------------------------------------------------------------------------------------------------
# reference: the textbook formulas in exact rational arithmetic (mirror of coq/C06/Model.v)


def _fr(x):
    return Fraction(x)


def _mean(l):
    return sum(l, Fraction(0)) / len(l)


def _wmean(w, l):
    return sum((a * b for a, b in zip(w, l)), Fraction(0)) / sum(w, Fraction(0))


def _median(l):
    s = sorted(l)
    n = len(s)
    return s[n // 2] if n % 2 else (s[n // 2 - 1] + s[n // 2]) / 2


def _wpercentile(w, l):
    """lower weighted median: smallest value whose cumulative weight reaches half the total."""
    s = sorted(zip(l, w), key=lambda p: p[0])
    tot = sum((p[1] for p in s), Fraction(0))
    target = tot / 2
    acc = Fraction(0)
    last = Fraction(0)
    for v, wt in s:
        acc += wt
        if (acc > 0) if target == 0 else (acc >= target):
            return v
        last = v
    return last


def _int_weights(hw):
    """integer weights proportional to the rational ones (Model.int_weights)."""
    import math
    D = 1
    for w in hw:
        D = D * w.denominator // math.gcd(D, w.denominator)
    return [int(w * D) for w in hw]


def _agg(a, hw, l):
    if a == "median":
        return _median(l) if hw is None else _wpercentile(hw, l)
    return _mean(l) if hw is None else _wmean(hw, l)


def _pw0(k, e):
    return abs(e) if k == "absolute" else e * e


def _pct(sym, t, p):
    if sym:
        return 2 * abs(t - p) / max(abs(t) + abs(p), EPS)
    return (t - p) / max(abs(t), EPS)


def _rel(t, p, b):
    d = t - b
    den = max(d, EPS) if d >= 0 else min(d, -EPS)
    return (t - p) / den


STRUCT = {  # short name -> (family, base, point loss, aggregate)
    "MAE": ("simple", "plain", "absolute", "mean"), "MSE": ("simple", "plain", "squared", "mean"),
    "MdAE": ("simple", "plain", "absolute", "median"),
    "MdSE": ("simple", "plain", "squared", "median"),
    "MAPE": ("simple", "pct", "absolute", "mean"), "MdAPE": ("simple", "pct", "absolute", "median"),
    "MSPE": ("simple", "pct", "squared", "mean"), "MdSPE": ("simple", "pct", "squared", "median"),
    "MRAE": ("simple", "rel", "absolute", "mean"), "MdRAE": ("simple", "rel", "absolute", "median"),
    "GMRAE": ("simple", "rel", "absolute", "gmean"), "GMRSE": ("simple", "rel", "squared", "gmean"),
    "MASE": ("scaled", "plain", "absolute", "mean"),
    "MdASE": ("scaled", "plain", "absolute", "median"),
    "MSSE": ("scaled", "plain", "squared", "mean"), "MdSSE": ("scaled", "plain", "squared", "median"),
    "MAsym": ("simple", "plain", "asym", "mean"), "RelLoss": ("relloss", "plain", None, None),
}


def _mo_avg(mo, l):
    if mo == "raw_values":
        return list(l)
    if mo == "uniform_average":
        return [_mean(l)]
    return [_wmean([_fr(w) for w in mo], l)]


def reference(case, perfect=False):
    """(degree, pre-root values, post) of the textbook formula; see Model.v pre_values."""
    sh = _short(case["metric"])
    fam, base, loss, aggk = STRUCT[sh]
    o = case["opts"]
    hw = None if case["hw"] is None else [_fr(w) for w in case["hw"]]
    mo = case["mo"]
    T = [[_fr(x) for x in c] for c in case["y_true"]]
    P = T if perfect else [[_fr(x) for x in c] for c in case["y_pred"]]
    B = [[_fr(x) for x in c] for c in case.get("y_bench", [])]
    n = len(T[0])
    root = 2 if o.get("square_root") else 1
    if fam == "relloss":
        nm = o["relative_loss_function"]
        loss = "absolute" if "absolute" in nm else "squared"
        aggk = "median" if nm.startswith("median") else "mean"

    def point(j, pred):
        out = []
        for i in range(n):
            t, p = T[j][i], pred[j][i]
            if base == "plain":
                e = t - p
            elif base == "pct":
                e = _pct(o["symmetric"], t, p)
            else:
                e = _rel(t, p, B[j][i])
            if loss == "asym":
                thr = _fr(o["asymmetric_threshold"])
                e = _pw0(o["left_error_function"], e) if e < thr else \
                    _pw0(o["right_error_function"], e)
            else:
                e = _pw0(loss, e)
            out.append(e)
        return out

    k = len(T)
    if fam == "simple":
        if aggk == "gmean":
            W = [1] * n if hw is None else _int_weights(hw)
            pre = []
            for j in range(k):
                x = Fraction(1)
                for e, w in zip(point(j, P), W):
                    x *= (EPS if e == 0 else e) ** w
                pre.append(x)
            return root * sum(W), pre, (lambda r: _mo_avg(mo, r))
        pre = [_agg(aggk, hw, point(j, P)) for j in range(k)]
        return root, pre, (lambda r: _mo_avg(mo, r))
    num = _mo_avg(mo, [_agg(aggk, hw, point(j, P)) for j in range(k)])
    if fam == "scaled":
        sp = o["sp"]
        tr = [[_fr(x) for x in c] for c in case["y_train"]]
        den = _mo_avg(mo, [_agg(aggk, None, [_pw0(loss, a - b) for a, b in zip(c[sp:], c)])
                           for c in tr])
    else:
        den = _mo_avg(mo, [_agg(aggk, hw, point(j, B)) for j in range(k)])
    pre = [a / max(b, EPS) for a, b in zip(num, den)]
    return root, pre, (lambda r: r), den


def _finite(xs):
    import math
    return not isinstance(xs, dict) and all(
        isinstance(x, Fraction) or math.isfinite(x) for x in xs)


# single-precision DATA is computed with in single precision: such cases are judged with a
# tolerance of 2e-5 (and are not sent to Coq, whose comparison is at 1e-9); everything else at 1e-9
F32_TOL = Fraction(2, 10 ** 5)
_TOL = [TOL]


def _single_precision(case):
    # (single-precision WEIGHTS count too: scikit-learn's metrics then average in single precision)
    return any(dt == "float32" for dt in case.get("dtypes", {}).values())


def _close(a, b, tol=None):
    tol = _TOL[0] if tol is None else tol
    if not _finite([a, b]):
        return False
    a, b = Fraction(a), Fraction(b)
    return abs(a - b) <= tol * max(abs(a), abs(b))


def _same(x, y):
    return (not isinstance(x, dict)) and (not isinstance(y, dict)) and len(x) == len(y) and all(
        _close(a, b) for a, b in zip(x, y))


def _show(x):
    """a Fraction for a message (the exact value may be outside the float range)."""
    try:
        return float(x)
    except OverflowError:
        x = Fraction(x)
        return "%s1e%d" % ("-" if x < 0 else "", len(str(abs(x.numerator))) - len(str(x.denominator)))


def _value_check(case, val, wit, perfect=False):
    """None if val is the textbook value (through the root's defining equation), else text."""
    import math
    ref = reference(case, perfect)
    deg, pre, post = ref[0], ref[1], ref[2]
    if not _finite(val):
        return "non-finite value %s" % val
    if deg != 1 and not isinstance(wit, dict) and not _finite(wit):
        return "non-finite per-output values %s" % wit
    if deg == 1:
        want = post(pre)
        if len(want) != len(val) or not all(_close(a, b) for a, b in zip(val, want)):
            return "got %s expected %s" % (val, [_show(x) for x in want])
        return None
    if isinstance(wit, dict) or len(wit) != len(pre):
        return "per-output values %s, expected %d outputs" % (wit, len(pre))
    for s, x in zip(wit, pre):
        if s < 0 or not _close(Fraction(s) ** deg, x):
            return "per-output value %r is not the degree-%d root of %s" % (s, deg, _show(x))
    want = post([Fraction(s) for s in wit])
    if len(want) != len(val) or not all(_close(a, b) for a, b in zip(val, want)):
        return "got %s expected %s (aggregate of roots %s)" % (val, [_show(x) for x in want], wit)
    return None


def _class_has_witness(case):
    """a class call returns only the aggregate over outputs: with a root (sqrt / geometric mean)
    and several outputs there are no per-output values to check the root equation on (the same
    configurations are covered by the function cases)."""
    rooted = case["opts"].get("square_root") or _short(case["metric"]) in GM
    return not rooted or len(case["y_true"]) == 1


def oracle(case, out):
    _TOL[0] = F32_TOL if _single_precision(case) else TOL
    kind = case["kind"]
    if kind == "class_opts":
        if "err" in out:
            return "class-constructor-raises: %s %s" % (case["cls"], out["err"])
        for nm, v in case["opts"].items():
            if out["stored"].get(nm) != v:
                return "class-drops-option: %s(%s=%r) stores %r" % (
                    case["cls"], nm, v, out["stored"].get(nm))
        if out["func"] != case["metric"]:
            return "class-wraps-wrong-function: %s wraps %s" % (case["cls"], out["func"])
        return None
    if kind == "class":
        fo, co = out["func"], out["cls"]
        if isinstance(fo, dict):
            return "raised: %s in %s: %s" % (fo["err"], case["metric"], fo["msg"])
        if case["proto"] == "bare":
            # without the extra series the only acceptable outcome is the function's own TypeError
            if isinstance(co, dict) and co["err"] == "TypeError":
                return None
            if isinstance(co, dict):
                return "class-call-raises-%s: %s: %s" % (co["err"], case["cls"], co["msg"])
            return "class-ignores-missing-series: %s returned %s" % (case["cls"], co)
        if isinstance(co, dict):
            if case["needs"] != "none" and co["err"] == "TypeError" and \
                    "unexpected keyword" in co["msg"]:
                return "class-cannot-receive-series: %s(...)(y_true, y_pred, %s=...) %s" % (
                    case["cls"], case["needs"], co["msg"])
            return "class-call-raises-%s: %s: %s" % (co["err"], case["cls"], co["msg"])
        if co != fo:
            return "class-differs-from-function: %s returned %s, %s returned %s" % (
                case["cls"], co, case["metric"], fo)
        if _class_has_witness(case):
            f = _value_check(dict(case, kind="func"), fo, fo)
            if f:
                return "value-differs-from-textbook-formula: " + f
        return None
    # ---- function cases
    val = out["val"]
    sh = _short(case["metric"])
    if isinstance(val, dict):
        return "raised: %s in %s: %s" % (val["err"], case["metric"], val["msg"])
    fam = STRUCT[sh][0]
    wit = out["raw"] if fam == "simple" else val
    f = _value_check(case, val, wit)
    if f:
        return "value-differs-from-textbook-formula: " + f
    if any(v < 0 for v in val):
        return "negative-loss: %s" % val
    laws = out["laws"]
    # zero at a perfect forecast (geometric means: the EPS floor)
    pf = laws["perfect"]
    if isinstance(pf, dict):
        return "raised: %s on a perfect forecast" % pf["err"]
    floor = 0.0
    if sh in GM:
        floor = float(EPS) if not (sh == "GMRSE" and case["opts"].get("square_root")) \
            else float(EPS) ** 0.5
    if not all(_close(v, floor) for v in pf):
        return "not-zero-at-perfect-forecast: %s (expected %r)" % (pf, floor)
    if "swap" in laws:
        if not _same(laws["swap"], val):
            return "symmetric-not-invariant-under-swap: %s vs %s" % (val, laws["swap"])
        hi = 4.0 if (sh in ("MSPE", "MdSPE") and not case["opts"].get("square_root")) else 2.0
        if any(v > hi * (1 + 1e-12) for v in val):
            return "symmetric-outside-bounds: %s > %s" % (val, hi)
    if "scaled" in laws:
        den = reference(case)[3]
        c = Fraction(case["scale"])
        cc = c if sh in ("MASE", "MdASE") else c * c
        if all(d >= EPS and cc * d >= EPS for d in den) and not _same(laws["scaled"], val):
            return "scaled-not-scale-invariant: %s vs %s after rescaling by %r" % (
                val, laws["scaled"], case["scale"])
    if "percol" in laws and fam == "simple":
        per = laws["percol"]
        if any(isinstance(p, dict) for p in per):
            return "raised: on a single column"
        flat = [p[0] for p in per]
        if not _same(flat, out["raw"]):
            return "multioutput-not-columnwise: raw_values %s, per-column calls %s" % (
                out["raw"], flat)
        want = _mo_avg(case["mo"], [Fraction(x) for x in flat])
        if not _same(val, want):
            return "multioutput-not-columnwise: %s is not the requested average of %s" % (
                val, flat)
    if "hw_x4" in laws and not _same(laws["hw_x4"], val):
        return "horizon-weights-not-scale-free: %s vs %s" % (val, laws["hw_x4"])
    if "hw_equal" in laws and STRUCT[sh][3] != "median" and fam != "relloss" \
            and not _same(laws["hw_equal"], val):
        return "equal-horizon-weights-differ-from-unweighted: %s vs %s" % (val, laws["hw_equal"])
    if "same_sides" in laws and not _same(laws["same_sides"], val):
        return "asymmetric-with-equal-sides-differs: %s vs %s" % (val, laws["same_sides"])
    return None


def nontrivial(case, out):
    if case["kind"] == "class_opts":
        return "err" not in out
    if case["kind"] == "class":
        return not isinstance(out["cls"], dict)
    if isinstance(out["val"], dict):
        return False
    return len(case["y_true"][0]) >= 2 and case["y_true"] != case["y_pred"]


def shrink(case):
    if case["kind"] == "class_opts":
        return
    n = len(case["y_true"][0])
    k = len(case["y_true"])
    series = [s for s in ("y_true", "y_pred", "y_bench") if s in case]
    if n > 1:
        for i in range(n):
            d = dict(case)
            for s in series:
                d[s] = [c[:i] + c[i + 1:] for c in case[s]]
            if case.get("hw") is not None:
                d["hw"] = case["hw"][:i] + case["hw"][i + 1:]
                if sum(d["hw"]) == 0:
                    continue
            yield d
    if k > 1:
        for j in range(k):
            d = dict(case)
            for s in series + ["y_train"]:
                if s in case:
                    d[s] = case[s][:j] + case[s][j + 1:]
            if not isinstance(case["mo"], str):
                d["mo"] = case["mo"][:j] + case["mo"][j + 1:]
            yield d
    if "y_train" in case:
        m = len(case["y_train"][0])
        if m > case["opts"].get("sp", 1) + 1:
            d = dict(case)
            d["y_train"] = [c[:-1] for c in case["y_train"]]
            yield d
    if case.get("hw") is not None:
        d = dict(case)
        d["hw"] = None
        yield d
    if not isinstance(case["mo"], str):
        d = dict(case)
        d["mo"] = "uniform_average"
        yield d
    if case.get("container") == "pandas":
        d = dict(case)
        d["container"] = "numpy"
        yield d
    for s in series + ["y_train"]:
        if s not in case:
            continue
        for j, c in enumerate(case[s]):
            for i, v in enumerate(c):
                for nv in (0.0, 1.0):
                    if v != nv and abs(nv) < abs(v) + 1:
                        d = dict(case)
                        d[s] = [list(x) for x in case[s]]
                        d[s][j][i] = nv
                        if d[s] != case[s]:
                            yield d
                        break


# ------------------------------------------------------------------------------------------------
# model side


CASES_HEADER = """From Coq Require Import QArith List Bool ZArith String.
Require Import SkV.C06.Model SkV.C06.Wrap SkV.C06.Cases.
Import ListNotations.
Open Scope string_scope.
Open Scope Z_scope.
"""


def _cq(x):
    return cq(x) + "%Q"


def _cql(xs):
    return clist([_cq(x) for x in xs])


def _pw0c(s):
    return "PAbs" if s == "absolute" else "PSq"


def _copts(o):
    rl = o.get("relative_loss_function", "mean_absolute_error")
    return "(mkopts %s %s %s %s %s %s %s %s)" % (
        cbool(o.get("symmetric", True)), cbool(o.get("square_root", False)), cnat(o.get("sp", 1)),
        _cq(o.get("asymmetric_threshold", 0.0)), _pw0c(o.get("left_error_function", "squared")),
        _pw0c(o.get("right_error_function", "absolute")),
        "PAbs" if "absolute" in rl else "PSq", "Median" if rl.startswith("median") else "Mean")


def _ccols(case):
    k = len(case["y_true"])
    cols = []
    for j in range(k):
        cols.append("(mkcol %s %s %s %s)" % (
            _cql(case["y_true"][j]), _cql(case["y_pred"][j]),
            _cql(case["y_bench"][j]) if "y_bench" in case else "[]",
            _cql(case["y_train"][j]) if "y_train" in case else "[]"))
    return clist(cols)


def _cmo(mo):
    if mo == "raw_values":
        return "Raw"
    if mo == "uniform_average":
        return "Uniform"
    return "(Weights %s)" % _cql(mo)


def _cinputs(case):
    return "%s %s %s %s %s" % (_short(case["metric"]), _copts(case["opts"]), _cmo(case["mo"]),
                               copt(case["hw"], _cql), _ccols(case))


_FACTS = {}


def _class_facts():
    """wrapper facts of _classes.py (main process; None if the extractor fails closed - the
    harness has then already recorded the broken tie from translate())."""
    if "v" not in _FACTS:
        try:
            from harness import core
            from translator import metricq
            _FACTS["v"] = metricq.class_facts(core.REPO)
        except Exception:
            _FACTS["v"] = None
    return _FACTS["v"]


def _cclass(case, out):
    facts = _class_facts()
    if facts is None or case["cls"] not in facts[0]:
        return None
    from translator import metricq
    w = facts[0][case["cls"]]
    sig = facts[1][w["func"]]
    given = [] if (case["proto"] == "bare" or case["needs"] == "none") else [case["needs"]]
    co, fo = out["cls"], out["func"]
    if isinstance(co, dict):
        obs = {"TypeError": "ObsTypeErr", "AttributeError": "ObsAttrErr"}.get(co["err"], "ObsOther")
    else:
        obs = "(ObsValue %s)" % cbool(co == fo)
    return "CClass %s %s %s %s" % (metricq.coq_wrapper(case["cls"], w),
                                   metricq.coq_fsig(w["func"], sig),
                                   clist(['"%s"' % g for g in given]), obs)


def coq_case(case, out):
    if case["kind"] == "class_opts":
        return None
    if case["kind"] == "class":
        if isinstance(out["func"], dict) or case.get("omit_ctor"):
            return None
        cc = _cclass(case, out)
        if not _finite(out["cls"]) or not _finite(out["func"]) or not _class_has_witness(case) \
                or _single_precision(case):
            return cc
        v = "CFunc (mkcase %s %s %s)" % (_cinputs(case), _cql(out["cls"]), _cql(out["cls"]))
        return v if cc is None else "CPair (%s) (%s)" % (cc, v)
    if not _finite(out["val"]) or not _finite(out.get("raw")) or _single_precision(case):
        return None
    fam = STRUCT[_short(case["metric"])][0]
    wit = out["raw"] if fam == "simple" else out["val"]
    return "CFunc (mkcase %s %s %s)" % (_cinputs(case), _cql(out["val"]), _cql(wit))


def coq_model_term(case):
    if case["kind"] == "class_opts":
        return "textbook %s %s" % (_short(case["metric"]), _copts(case["opts"]))
    return "model_says (mkcase %s [] [])" % _cinputs(case)


def distribution(cases, results):
    import collections
    d = collections.Counter()
    for c, r in zip(cases, results):
        o = r.get("out") or {}
        if c["kind"] == "func":
            d["func:" + _short(c["metric"])] += 1
            d["func:hw=%s" % ("none" if c["hw"] is None else "given")] += 1
            for s_, dt in sorted(c.get("dtypes", {}).items()):
                d["func:dtype:%s=%s" % (s_, dt)] += 1
            if c.get("dtypes", {}).get("y_true", "f")[0] in "ib" and c["hw"] is not None \
                    and any(w != int(w) for w in c["hw"]):
                d["func:integer-or-bool truth with fractional weights"] += 1
            d["func:mo=%s" % (c["mo"] if isinstance(c["mo"], str) else "weights")] += 1
            d["func:columns=%s" % ("1-D" if c["univariate"] else len(c["y_true"]))] += 1
            d["func:%s" % ("raised" if isinstance(o.get("val"), dict) else "value")] += 1
            if c["opts"].get("square_root"):
                d["func:square_root"] += 1
            if c["opts"].get("symmetric") is False:
                d["func:asymmetric-percentage"] += 1
        elif c["kind"] == "class":
            d["class:%s" % ("raised" if isinstance(o.get("cls"), dict) else "value")] += 1
        else:
            d["class_opts"] += 1
    return dict(d)


def extra_coverage(cases, results, tier):
    """which classes pass Wrap.wrapper_ok on the regenerated facts (evaluated in Coq)."""
    try:
        from harness import core
        hdr = ("From Coq Require Import String List Bool.\nRequire Import SkV.C06.Wrap "
               "SkV.C06.GenWrap.\nImport ListNotations.\n")
        txt = core.eval_term_in_coq(
            ID, hdr, "map (fun ws => w_class (fst ws)) (filter (fun ws => negb (wrapper_ok (fst ws) "
                     "(snd ws))) gen_wrappers)")
    except Exception as e:      # evidence only
        txt = "not evaluated: %s" % e
    return {"exhaustive": False, "classes_failing_wrapper_ok": txt}
