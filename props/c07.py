"""C07 - evaluate() reports what an honest per-fold fit, predict and score would give."""
from fractions import Fraction

from harness.core import cbool, clist, copt, cq, cz, czlist

ID = "C07"
MODEL_TARGETS = ["C07/Cases.vo"]
PROOF_TARGETS = ["C01/Gen.vo", "C01/Bridge.vo", "C01/Proofs.vo", "C07/Site.vo", "C07/Bridge.vo",
                 "C07/Proofs.vo", "C07/FitParams.vo", "C07/PriorState.vo"]
OBLIGATION_FILES = ["C07/Bridge.v"]
PROPS_FILE = "C07/Props.v"
SHARD = 60
PER_CASE_TIMEOUT = 60
RULE = ("random evaluate() runs: series of small positive integers (n <= 26, index RangeIndex(off, "
        "off+n*stride, stride), off in {0,3,7}, stride 1 (70%) / 2 / 3: integer index with gaps), sliding / expanding / single-window splitters (fh sorted subset of "
        "1..5, window, step, optional initial window, start_with_window=True; a few with "
        "start_with_window=False and infeasible windows for the rejection path), strategy refit / "
        "update, with / without a one-column exogenous frame, return_data on/off, metrics sMAPE "
        "(default None and explicit), MAPE(symmetric=False), MAE, MSE, and make_forecasting_scorer "
        "around the asymmetric mean(2*y_true - y_pred); forecaster = a recording test double (forecast "
        "is an integer function of the first and latest window received since fit, the number of "
        "windows, the step, the exogenous rows and the `boost` keyword of its last fit; every call is "
        "logged with its keyword arguments) or the real NaiveForecaster "
        "(last / mean / mean with window_length); fit_params None / {} / {'boost': k} (k in -4..6, 45% "
        "of the runs with the double); the forecaster OBJECT handed to evaluate() is fresh (55%), "
        "already fitted on the full series, fitted on another series, or was used by an earlier "
        "evaluate() call on another series (either strategy) - the reference is always the honest "
        "run of a fresh object. non-trivial = accepted run with >= 2 folds; "
        "distinct = distinct canonical JSON case")
TRUSTED = [
    "translator/evalsite_c07.py (Python ast -> Gallina fold step of evaluate() and position "
    "arithmetic of _split(), fail-closed); the regenerated step is proved equal to the model's step "
    "(Bridge.v) on every run",
    "the recording test double (props/c07.py, subclass of sktime's _SktimeForecaster) reports the "
    "calls it receives faithfully; its Coq twin `double_step` is compared with it on every case",
    "pandas .iloc / RangeIndex semantics modelled as position -> (time label, value)",
]
MODELLED = [
    "the forecaster is abstract in the theorems (a function of the history of calls); its two "
    "contracts (fit forgets earlier calls; cutoff = last time label of the latest data call) are "
    "Section hypotheses, proved for the Coq twins of the test double and of NaiveForecaster "
    "last/mean, and sampled for the real classes by the correspondence run",
    "the metric is abstract in the theorems; sMAPE/MAPE/MAE/MSE are hand models in Q compared with "
    "the float results to 1e-9 relative",
    "NaiveForecaster(last/mean) under update(): modelled as combine_first of the windows followed by "
    "a refit (label-based last window), tied by correspondence only",
    "wall-clock columns fit_time / pred_time are ignored",
    "fit_params: the dict is coded by one integer (the recording double's `boost` fit keyword, which "
    "shifts its forecasts until the next fit); None and {} are the same `no keyword`; only the "
    "double accepts fit keywords (sktime 0.6.0 forecasters take none), so fit_params are generated "
    "for the double only",
]
NOT_RUNNABLE = []


def translate(repo):
    from translator import evalsite_c07, split
    files = dict(split.translate(repo))      # C07's leak theorem uses C01's soundness proofs
    files.update(evalsite_c07.translate(repo))
    return files


# ------------------------------------------------------------------------------------------------
# the recording test double (built lazily: sktime is importable only in driver processes)

_DOUBLE = {}
LOG = []   # every call received by any instance of the double, in order


def double_class():
    if "cls" in _DOUBLE:
        return _DOUBLE["cls"]
    import pandas as pd
    from sktime.forecasting.base._sktime import (_OptionalForecastingHorizonMixin,
                                                 _SktimeForecaster)

    def _ydump(y):
        return [[int(t), float(v)] for t, v in zip(y.index, y.to_numpy())]

    def _xdump(X):
        if X is None:
            return None
        return [[int(t), float(v)] for t, v in zip(X.index, X.iloc[:, 0].to_numpy())]

    class RecordingForecaster(_OptionalForecastingHorizonMixin, _SktimeForecaster):
        """forecast(t) = a*last(latest window) + b*sum(latest window) + c*first(first window since
        fit) + d*(number of windows since fit) + e*(t - cutoff) + X_test[t] + sum(latest X_train)
        + boost (keyword of the last fit, 0 if not given)."""

        def __init__(self, a=1, b=0, c=0, d=0, e=0, tag=0):
            self.a, self.b, self.c, self.d, self.e, self.tag = a, b, c, d, e, tag
            super(RecordingForecaster, self).__init__()

        def _key(self):
            return [self.a, self.b, self.c, self.d, self.e, self.tag]

        def fit(self, y, X=None, fh=None, boost=None):
            self._set_y_X(y, X)
            self._set_fh(fh)
            # the keyword arguments this fit received (fit_params of evaluate): logged as given
            self.boost_ = 0 if boost is None else boost
            LOG.append({"who": self._key(), "op": "fit", "y": _ydump(y), "X": _xdump(X),
                        "fh": None if fh is None else [int(t) for t in self.fh.to_absolute(
                            self.cutoff).to_pandas()],
                        "kw": {} if boost is None else {"boost": boost}})
            self.first_ = [float(v) for v in y.to_numpy()]
            self.latest_ = list(self.first_)
            self.count_ = 1
            self.xsum_ = 0.0 if X is None else float(X.iloc[:, 0].sum())
            self._is_fitted = True
            return self

        def update(self, y, X=None, update_params=True):
            self.check_is_fitted()
            LOG.append({"who": self._key(), "op": "update", "y": _ydump(y), "X": _xdump(X)})
            self._set_cutoff(y.index[-1])
            self._y, self._X = y, X
            self.latest_ = [float(v) for v in y.to_numpy()]
            self.count_ += 1
            self.xsum_ = 0.0 if X is None else float(X.iloc[:, 0].sum())
            return self

        def _predict(self, fh, X=None, return_pred_int=False, alpha=0.05):
            times = [int(t) for t in fh.to_absolute(self.cutoff).to_pandas()]
            LOG.append({"who": self._key(), "op": "predict", "fh": times, "X": _xdump(X)})
            base = (self.a * self.latest_[-1] + self.b * sum(self.latest_) + self.c * self.first_[0]
                    + self.d * self.count_ + self.xsum_ + self.boost_)
            xt = {} if X is None else {int(t): float(v)
                                       for t, v in zip(X.index, X.iloc[:, 0].to_numpy())}
            vals = [base + self.e * (t - int(self.cutoff)) + xt.get(t, 0.0) for t in times]
            return pd.Series(vals, index=pd.Index(times), dtype=float)

    _DOUBLE["cls"] = RecordingForecaster
    return RecordingForecaster


# ------------------------------------------------------------------------------------------------
# implementation side


def asym_score(y_true, y_pred):
    import numpy as np
    return float(np.mean(2 * np.asarray(y_true, dtype=float) - np.asarray(y_pred, dtype=float)))


def neg_mae_score(y_true, y_pred):
    import numpy as np
    return -float(np.mean(np.abs(np.asarray(y_true, dtype=float) - np.asarray(y_pred, dtype=float))))


def make_metric(name):
    from sktime.performance_metrics.forecasting import (
        MeanAbsoluteError, MeanAbsolutePercentageError, MeanSquaredError, make_forecasting_scorer)
    if name == "default":
        return None
    if name == "smape":
        return MeanAbsolutePercentageError()
    if name == "mape":
        return MeanAbsolutePercentageError(symmetric=False)
    if name == "mae":
        return MeanAbsoluteError()
    if name == "mse":
        return MeanSquaredError()
    if name == "asym":
        return make_forecasting_scorer(asym_score, name="asym")
    if name == "negmae":
        return make_forecasting_scorer(neg_mae_score, name="negmae", greater_is_better=True)
    raise AssertionError(name)


METRIC_COLUMN = {"default": "test_MeanAbsolutePercentageError",
                 "smape": "test_MeanAbsolutePercentageError",
                 "mape": "test_MeanAbsolutePercentageError", "mae": "test_MeanAbsoluteError",
                 "mse": "test_MeanSquaredError", "asym": "test_asym", "negmae": "test_negmae"}


def make_cv(sp):
    from sktime.forecasting.model_selection import (ExpandingWindowSplitter, SingleWindowSplitter,
                                                    SlidingWindowSplitter)
    if sp["type"] == "sliding":
        return SlidingWindowSplitter(fh=sp["fh"], window_length=sp["wl"], step_length=sp["step"],
                                     initial_window=sp["iw"], start_with_window=sp["sww"])
    if sp["type"] == "expanding":
        return ExpandingWindowSplitter(fh=sp["fh"], initial_window=sp["wl"],
                                       step_length=sp["step"], start_with_window=sp["sww"])
    return SingleWindowSplitter(fh=sp["fh"], window_length=sp["wl"])


def make_forecaster(fc):
    if fc["type"] == "double":
        a, b, c, d, e = fc["k"]
        return double_class()(a=a, b=b, c=c, d=d, e=e, tag=fc.get("tag", 0))
    from sktime.forecasting.naive import NaiveForecaster
    return NaiveForecaster(strategy=fc["strategy"], window_length=fc.get("wl"))


def make_data(case):
    import numpy as np
    import pandas as pd
    n, off = len(case["y"]), case["off"]
    # time labels off, off+stride, ...: an integer index may have gaps (stride > 1)
    stride = case.get("stride", 1)
    idx = pd.RangeIndex(off, off + n * stride, stride)
    y = pd.Series(np.asarray(case["y"], dtype=float), index=idx)
    X = None
    if case.get("X") is not None:
        X = pd.DataFrame({"a": np.asarray(case["X"], dtype=float)}, index=idx)
    return y, X


PRIORS = {"fresh": "a fresh object",
          "full": "an object already fitted on the full series",
          "other": "an object already fitted on another series",
          "evaluated": "an object used by an earlier evaluate() call on another series"}


def make_prior_data(case):
    import numpy as np
    import pandas as pd
    vals = case["prior_y"]
    idx = pd.RangeIndex(case.get("prior_off", 0), case.get("prior_off", 0) + len(vals))
    y2 = pd.Series(np.asarray(vals, dtype=float), index=idx)
    X2 = None
    if case.get("X") is not None:
        X2 = pd.DataFrame({"a": np.asarray(case["prior_X"], dtype=float)}, index=idx)
    return y2, X2


def apply_prior(f, case, y, X):
    """Bring the forecaster OBJECT into the state it has when evaluate() is called.  Whatever
    happens here is the caller's business: an exception leaves the object as it is."""
    prior = case.get("prior", "fresh")
    if prior == "fresh":
        return "fresh"
    from sktime.forecasting.model_evaluation import evaluate
    try:
        if prior == "full":
            f.fit(y.copy(), None if X is None else X.copy(), fh=[1])
        elif prior == "other":
            y2, X2 = make_prior_data(case)
            f.fit(y2, X2, fh=[1, 2])
        elif prior == "evaluated":
            y2, X2 = make_prior_data(case)
            evaluate(f, make_cv(case["splitter"]), y2, X=X2, strategy=case["prior_strategy"],
                     scoring=make_metric("mae"))
        else:
            raise AssertionError(prior)
    except (ValueError, TypeError) as e:
        return "%s (raised %s)" % (prior, type(e).__name__)
    return "%s, is_fitted=%s" % (prior, bool(getattr(f, "is_fitted", False)))


def _ser(s):
    from harness.core import float_ratio
    return [[int(t), float_ratio(v)] for t, v in zip(s.index, s.to_numpy())]


def dump_table(res, col, return_data):
    from harness.core import float_ratio
    rows = []
    for _, r in res.iterrows():
        row = {"score": float_ratio(r[col]), "cutoff": int(r["cutoff"]),
               "len": int(r["len_train_window"])}
        if return_data:
            row["ytrain"], row["ytest"], row["ypred"] = (_ser(r["y_train"]), _ser(r["y_test"]),
                                                          _ser(r["y_pred"]))
        rows.append(row)
    return rows


def run_impl(case):
    from sktime.forecasting.model_evaluation import evaluate
    y, X = make_data(case)
    y0 = y.copy()
    try:
        cv = make_cv(case["splitter"])
        f = make_forecaster(case["fc"])
        prior_note = apply_prior(f, case, y, X)
        del LOG[:]
        kw = {}
        if "fit_params" in case:
            kw["fit_params"] = case["fit_params"]
        res = evaluate(f, cv, y, X=X, strategy=case["strategy"],
                       scoring=make_metric(case["metric"]), return_data=case["return_data"], **kw)
    except (ValueError, TypeError) as e:
        return {"err": type(e).__name__}
    col = METRIC_COLUMN[case["metric"]]
    out = {"columns": sorted(str(c) for c in res.columns), "has_score_column": col in res.columns}
    if col not in res.columns:
        return out
    out["rows"] = dump_table(res, col, case["return_data"])
    out["len_dtype_int"] = str(res["len_train_window"].dtype).startswith("int") if len(res) else True
    out["input_unchanged"] = bool(y.equals(y0))
    out["prior"] = prior_note
    if case["fc"]["type"] == "double":
        out["trace"] = [{k: v for k, v in c.items() if k != "who"} for c in LOG]
    else:
        out["trace"] = None
    return out


# ------------------------------------------------------------------------------------------------
# reference: the honest per-fold computation, in exact rationals (mirrors coq/C07/Model.v+Cases.v)


def ref_splits(sp, n):
    """None = rejected; else list of (train positions, test positions)."""
    fh = sp["fh"]
    fm = fh[-1]
    if sp["type"] == "single":
        cut = n - fm - 1
        lo = 0 if sp["wl"] is None else max(cut + 1 - sp["wl"], 0)
        return [(list(range(lo, cut + 1)), [cut + h for h in fh])]
    wl, step, iw, sww = sp["wl"], sp["step"], sp.get("iw"), sp["sww"]
    if not sww:
        return None
    if wl + fm > n or (iw is not None and (iw + fm > n or wl >= iw)):
        return None
    out = []
    if iw is not None:
        out.append((list(range(0, iw)), [iw - 1 + h for h in fh]))
    start = (iw + step) if iw is not None else wl
    for cut in range(start - 1, n - fm, step):
        lo = max(cut + 1 - wl, 0) if sp["type"] == "sliding" else 0
        out.append((list(range(lo, cut + 1)), [cut + h for h in fh]))
    return out


EPS = Fraction(1, 2 ** 52)


def _mean(xs):
    return sum(xs, Fraction(0)) / len(xs)


def ref_metric(name, yt, yp):
    pairs = list(zip(yt, yp))
    if name in ("default", "smape"):
        return _mean([abs(2 * abs(a - b) / max(abs(a) + abs(b), EPS)) for a, b in pairs])
    if name == "mape":
        return _mean([abs((a - b) / max(abs(a), EPS)) for a, b in pairs])
    if name == "mae":
        return _mean([abs(a - b) for a, b in pairs])
    if name == "mse":
        return _mean([(a - b) * (a - b) for a, b in pairs])
    if name == "asym":
        return _mean([2 * a - b for a, b in pairs])
    if name == "negmae":
        return -_mean([abs(a - b) for a, b in pairs])
    raise AssertionError(name)


class RefPipe:
    """TransformedTargetForecaster([affine y -> a*y+b, inner]) around a RefForecaster (C08)."""

    def __init__(self, fc):
        self.a, self.b = Fraction(fc["a"]), Fraction(fc["b"])
        self.inner = RefForecaster(fc["inner"])

    def _t(self, y):
        return [(t, self.a * v + self.b) for t, v in y]

    def fit(self, y, x):
        self.inner.fit(self._t(y), x)

    def update(self, y, x):
        self.inner.update(self._t(y), None)       # TransformedTargetForecaster.update drops X

    @property
    def cutoff(self):
        return self.inner.cutoff

    def predict(self, fhabs, x):
        return [(v - self.b) / self.a for v in self.inner.predict(fhabs, x)]


def make_ref(fc):
    return RefPipe(fc) if fc["type"] == "pipe" else RefForecaster(fc)


class RefForecaster:
    """Exact twin of the test double / NaiveForecaster(last|mean) as a machine over calls."""

    def __init__(self, fc):
        self.fc = fc
        self.first = self.latest = self.merged = None
        self.cnt = 0
        self.boost = 0
        self.xsum = Fraction(0)

    def fit(self, y, x, boost=0):
        self.first = self.latest = self.merged = list(y)
        self.boost = boost
        self.cnt = 1
        self.xsum = sum((v for _, v in x), Fraction(0)) if x is not None else Fraction(0)

    def update(self, y, x):
        old = self.merged
        self.merged = ([o for o in old if o[0] < y[0][0]] + list(y)
                       + [o for o in old if o[0] > y[-1][0]])
        self.latest = list(y)
        self.cnt += 1
        self.xsum = sum((v for _, v in x), Fraction(0)) if x is not None else Fraction(0)

    @property
    def cutoff(self):
        return self.latest[-1][0]

    def predict(self, fhabs, x):
        fc = self.fc
        cut = self.cutoff
        if fc["type"] == "double":
            a, b, c, d, e = fc["k"]
            base = (a * self.latest[-1][1] + b * sum(v for _, v in self.latest)
                    + c * self.first[0][1] + d * self.cnt + self.xsum + self.boost)
            xt = dict(x) if x is not None else {}
            return [base + e * (t - cut) + xt.get(t, 0) for t in fhabs]
        if fc["strategy"] == "last":
            return [self.merged[-1][1]] * len(fhabs)
        w = fc.get("wl") or len(self.merged)
        sel = [v for t, v in self.merged if t >= cut - w + 1]
        return [_mean(sel)] * len(fhabs)


def ref_eval(case):
    """None if rejected, else (rows, trace): rows of dicts with exact Fractions."""
    sp = case["splitter"]
    stride, off0 = case.get("stride", 1), case["off"]

    class _T:                      # position -> time label, written `p + off` below
        def __radd__(self, p):
            return p * stride + off0
    off = _T()
    ys = [Fraction(v) for v in case["y"]]
    xs = None if case.get("X") is None else [Fraction(v) for v in case["X"]]
    n = len(ys)
    splits = ref_splits(sp, n)
    if splits is None:
        return None
    fhmin = min(sp["fh"])
    rows, trace = [], []
    f = make_ref(case["fc"])
    for i, (train, test) in enumerate(splits):
        ytr = [(p + off, ys[p]) for p in train]
        xtr = None if xs is None else [(p + off, xs[p]) for p in train]
        fhabs = [p + off for p in test]
        xpos = [v + 1 for v in range(test[0] - fhmin, test[-1])]
        xte = None if xs is None else [(p + off, xs[p]) for p in xpos]
        if i == 0 or case["strategy"] == "refit":
            if case["strategy"] == "refit":
                f = make_ref(case["fc"])      # honest: a forecaster that knows nothing else
            # honest: EVERY fit is given the fit_params
            fkw = dict(case.get("fit_params") or {})
            f.fit(ytr, xtr, **fkw)
            trace.append({"op": "fit", "y": ytr, "X": xtr, "fh": fhabs, "kw": fkw})
        else:
            f.update(ytr, xtr)
            trace.append({"op": "update", "y": ytr, "X": xtr})
        pred = f.predict(fhabs, xte)
        trace.append({"op": "predict", "fh": fhabs, "X": xte})
        yte = [ys[p] for p in test]
        rows.append({"score": ref_metric(case["metric"], yte, pred),
                     "swapped": ref_metric(case["metric"], pred, yte),
                     "cutoff": train[-1] + off, "len": len(train), "ytrain": ytr,
                     "ytest": [(p + off, ys[p]) for p in test], "ypred": list(zip(fhabs, pred)),
                     "first_test_time": test[0] + off})
    return rows, trace


def _fr(r):
    return None if r is None or isinstance(r, str) else Fraction(int(r[0]), int(r[1]))


def _close(a, b):
    if a is None or b is None:
        return False
    return abs(a - b) <= Fraction(1, 10 ** 9) * max(1, abs(a), abs(b))


def _pairs(lst):
    return None if lst is None else [(int(t), _fr(v) if isinstance(v, list) else Fraction(v))
                                     for t, v in lst]


def _same_series(got, want, tol=False):
    got = _pairs(got)
    if got is None or len(got) != len(want):
        return False
    for (t, v), (t2, v2) in zip(got, want):
        if t != t2 or (not _close(v, v2) if tol else v != v2):
            return False
    return True


def _fmt(ps):
    return None if ps is None else [[int(t), float(v)] for t, v in ps]


def oracle(case, out):
    msg = _oracle(case, out)
    if msg is not None and case.get("prior", "fresh") != "fresh":
        # the honest reference never depends on it; say which object evaluate() was given
        msg += " [evaluate() was given %s; the honest run starts from a fresh object's fit on " \
               "the first training window]" % PRIORS[case["prior"]]
    return msg


def _oracle(case, out):
    ref = ref_eval(case)
    if "err" in out:
        return None if ref is None else "rejected-valid-evaluation: %s" % out["err"]
    if ref is None:
        return "accepted-invalid-configuration: start_with_window=False or window does not fit"
    if not out.get("has_score_column"):
        return "score-column-missing: %s not in %s" % (METRIC_COLUMN[case["metric"]], out["columns"])
    rows, trace = ref
    got = out["rows"]
    if len(got) != len(rows):
        return "row-count: %d rows for %d splits" % (len(got), len(rows))
    data_cols = {"y_train", "y_test", "y_pred"}
    if case["return_data"] != data_cols.issubset(out["columns"]):
        return "return-data-columns: return_data=%s but columns %s" % (case["return_data"],
                                                                      out["columns"])
    if not out.get("len_dtype_int", True):
        return "len-train-window-dtype: not an integer column"
    # the calls the forecaster received (test double only)
    tr = out.get("trace")
    if tr is not None:
        ops = [c["op"] for c in tr]
        if ops != [c["op"] for c in trace]:
            return "call-sequence: forecaster received %s, honest %s run is %s" % (
                ops, case["strategy"], [c["op"] for c in trace])
        fold = 0
        for k, (c, w) in enumerate(zip(tr, trace)):
            fold = k // 2
            if c["op"] in ("fit", "update"):
                late = [t for t, _ in c["y"] if t >= rows[fold]["first_test_time"]]
                if late:
                    return ("leak: fold %d %s received observations at times %s, first test time "
                            "is %d" % (fold, c["op"], late, rows[fold]["first_test_time"]))
                if not _same_series(c["y"], w["y"]):
                    return "fold-data-not-the-training-window: fold %d %s got %s expected %s" % (
                        fold, c["op"], _fmt(_pairs(c["y"])), _fmt(w["y"]))
                if (c["X"] is None) != (w["X"] is None) or (
                        w["X"] is not None and not _same_series(c["X"], w["X"])):
                    return "exog-train-slice: fold %d %s got %s expected %s" % (
                        fold, c["op"], c["X"], _fmt(w["X"]))
            if c["op"] == "fit" and c.get("kw", {}) != w["kw"]:
                return "fit-params-not-passed-to-every-fit: fold %d fit received keyword " \
                       "arguments %s, evaluate() was given fit_params=%s" % (
                           fold, c.get("kw", {}), case.get("fit_params"))
            if c["op"] in ("fit", "predict") and c["fh"] != w["fh"]:
                return "horizon-not-the-test-times: fold %d %s got %s expected %s" % (
                    fold, c["op"], c["fh"], w["fh"])
            if c["op"] == "predict" and ((c["X"] is None) != (w["X"] is None) or (
                    w["X"] is not None and not _same_series(c["X"], w["X"]))):
                return "exog-test-slice: fold %d predict got %s expected %s" % (
                    fold, c["X"], _fmt(w["X"]))
    for i, (g, w) in enumerate(zip(got, rows)):
        s = _fr(g["score"])
        if not _close(s, w["score"]):
            hint = ""
            if _close(s, w["swapped"]):
                hint = " (equals metric(y_pred, y_true): arguments swapped)"
            return "score-not-metric-of-truth-and-honest-forecast: fold %d got %s expected %s%s" % (
                i, None if s is None else float(s), float(w["score"]), hint)
        if g["cutoff"] != w["cutoff"]:
            return "cutoff-not-last-training-time: fold %d got %d expected %d" % (
                i, g["cutoff"], w["cutoff"])
        if g["len"] != w["len"]:
            return "len-train-window: fold %d got %d expected %d" % (i, g["len"], w["len"])
        if case["return_data"]:
            if not _same_series(g["ytrain"], w["ytrain"]):
                return "returned-y-train: fold %d" % i
            if not _same_series(g["ytest"], w["ytest"]):
                return "returned-y-test: fold %d" % i
            if not _same_series(g["ypred"], w["ypred"], tol=True):
                return "returned-y-pred: fold %d" % i
    if not out.get("input_unchanged", True):
        return "input-series-mutated"
    return None


def nontrivial(case, out):
    return "rows" in out and len(out["rows"]) >= 2


# ------------------------------------------------------------------------------------------------
# generators


def _rand_fh(rng, hi=5):
    k = rng.choice([1, 1, 2, 2, 3])
    return sorted(rng.sample(range(1, hi + 1), k))


def rand_splitter(rng, allow_bad=True):
    fh = _rand_fh(rng)
    t = rng.choice(["sliding", "sliding", "expanding", "expanding", "single"])
    if t == "single":
        wl = rng.choice([None, rng.randint(1, 8)])
        n = fh[-1] + rng.randint(1, 14)
        return {"type": "single", "fh": fh, "wl": wl}, n
    wl = rng.randint(1, 6)
    step = rng.choice([1, 1, 2, 2, 3, 4, 7])
    iw = None
    if t == "sliding" and rng.random() < 0.3:
        iw = wl + rng.choice([1, 1, 2, 3])
    sww = True
    base = max(wl, iw or 0) + fh[-1]
    n = base + rng.choice([0, 1, 2, 3, 4, 5, 6, 8, 10, 12, 14])
    if allow_bad:
        u = rng.random()
        if u < 0.04:
            sww = False
        elif u < 0.08:
            n = max(2, base - rng.choice([1, 2]))
    return {"type": t, "fh": fh, "wl": wl, "step": step, "iw": iw, "sww": sww}, n


def rand_forecaster(rng, minlen=1):
    u = rng.random()
    if u < 0.6:
        return {"type": "double", "k": [rng.randint(-2, 3), rng.randint(-1, 2), rng.randint(-2, 2),
                                        rng.randint(-3, 3), rng.randint(-2, 3)]}
    if u < 0.75:
        return {"type": "naive", "strategy": "last", "wl": None}
    return {"type": "naive", "strategy": "mean", "wl": rng.choice([None, None] + list(range(1, minlen + 1)))}


METRICS = ["default", "smape", "mape", "mape", "mae", "mse", "asym", "asym", "negmae"]


def gen_cases(rng, tier):
    cases = []
    for _ in range(260 if tier == "quick" else 3000):
        sp, n = rand_splitter(rng)
        n = min(n, 26)
        spl = ref_splits(sp, n)
        minlen = min([len(tr) for tr, _ in spl] or [1]) if spl else 1
        c = {"kind": "eval", "splitter": sp, "off": rng.choice([0, 0, 3, 7]),
             "y": [rng.randint(1, 9) for _ in range(n)],
             "X": [rng.randint(-3, 6) for _ in range(n)] if rng.random() < 0.4 else None,
             "strategy": rng.choice(["refit", "update"]), "metric": rng.choice(METRICS),
             "fc": rand_forecaster(rng, minlen), "return_data": rng.random() < 0.35}
        # fit_params: None / {} / a keyword the double's fit accepts and that changes its forecasts
        u = rng.random()
        c["fit_params"] = None if u < 0.4 else {} if u < 0.55 else (
            {"boost": rng.choice([-4, -2, -1, 1, 2, 3, 6])} if c["fc"]["type"] == "double" else {})
        # an integer index with gaps (time labels off, off+stride, ...): test time points are not
        # cutoff + steps; 30% of the runs
        c["stride"] = rng.choice([1, 1, 1, 1, 1, 1, 1, 2, 2, 3])
        # the state of the forecaster OBJECT handed to evaluate(): fresh, already fitted on the
        # full series, fitted on another series, used by an earlier evaluate() on another series.
        # evaluate() must report the honest per-fold run whatever the object went through before.
        add_prior(c, rng, rng.choice(["fresh"] * 11 + ["full"] * 4 + ["other"] * 2
                                     + ["evaluated"] * 3))
        cases.append(c)
    if tier == "thorough":
        cases += exhaustive_cases()
    return cases


def add_prior(c, rng, prior):
    c["prior"] = prior
    if prior in ("other", "evaluated"):
        n = len(c["y"])
        c["prior_y"] = [rng.randint(11, 40) for _ in range(n)]
        c["prior_off"] = rng.choice([0, 5, 40])
        if c.get("X") is not None:
            c["prior_X"] = [rng.randint(-3, 6) for _ in range(n)]
    if prior == "evaluated":
        c["prior_strategy"] = rng.choice(["refit", "update"])
    return c


def exhaustive_cases():
    """Every window configuration of a small scope, NaiveForecaster(last), asymmetric scorer."""
    import itertools
    out = []
    fhs = [list(c) for k in range(1, 4) for c in itertools.combinations(range(1, 4), k)]
    for n in range(2, 9):
        y = [(3 * i * i + 2 * i) % 7 + 1 for i in range(n)]
        for wl in range(1, 4):
            for step in range(1, 4):
                for fh in fhs:
                    for t in ("sliding", "expanding"):
                        for strat in ("refit", "update"):
                            out.append({"kind": "eval", "splitter": {
                                "type": t, "fh": fh, "wl": wl, "step": step, "iw": None,
                                "sww": True}, "off": 0, "y": y, "X": None, "strategy": strat,
                                "metric": "asym", "fc": {"type": "naive", "strategy": "last",
                                                         "wl": None}, "return_data": False})
                            if strat == "update":
                                # ... and once more on an object already fitted on the full series
                                out.append(dict(out[-1], prior="full"))
    return out


def extra_coverage(cases, results, tier):
    return {"exhaustive": False,
            "exhaustive_scope": ("n in 2..8, window 1..3, step 1..3, fh subset of {1,2,3}, sliding "
                                 "and expanding, both strategies (update: on a fresh object and on "
                                 "one already fitted on the full series), NaiveForecaster(last), "
                                 "asymmetric scorer: %d cases, all enumerated" % len(exhaustive_cases()))
            if tier == "thorough" else "thorough only"}


def shrink(case):
    for d in _shrink(case):
        # keep the generator's invariant: NaiveForecaster's window_length fits every training window
        # (a longer one is rejected by the forecaster itself, also in an honest run)
        wl = d["fc"].get("wl") if d["fc"]["type"] == "naive" else None
        if wl is not None:
            spl = ref_splits(d["splitter"], len(d["y"]))
            if spl and min(len(tr) for tr, _ in spl) < wl:
                continue
        yield d


def _shrink(case):
    c = dict(case)
    sp = dict(c["splitter"])
    n = len(c["y"])
    if n > 2:
        d = dict(c)
        d["y"] = c["y"][:-1]
        d["X"] = None if c.get("X") is None else c["X"][:-1]
        yield d
    for key in ("wl", "step", "iw"):
        v = sp.get(key)
        if isinstance(v, int) and v > 1:
            d = dict(c)
            d["splitter"] = dict(sp, **{key: v - 1})
            yield d
    if sp.get("iw") is not None:
        d = dict(c)
        d["splitter"] = dict(sp, iw=None)
        yield d
    if len(sp["fh"]) > 1:
        for i in range(len(sp["fh"])):
            d = dict(c)
            d["splitter"] = dict(sp, fh=sp["fh"][:i] + sp["fh"][i + 1:])
            yield d
    if c.get("X") is not None:
        d = dict(c)
        d["X"] = None
        yield d
    if c["off"]:
        d = dict(c)
        d["off"] = 0
        yield d
    if c.get("stride", 1) > 2:
        d = dict(c)
        d["stride"] = 2
        yield d
    if c["return_data"]:
        d = dict(c)
        d["return_data"] = False
        yield d
    if c.get("prior", "fresh") != "fresh":
        d = {k: v for k, v in c.items() if not k.startswith("prior")}
        yield d
        if c["prior"] != "full":
            d = {k: v for k, v in c.items() if not k.startswith("prior")}
            d["prior"] = "full"
            yield d
    if c.get("fit_params"):
        d = dict(c)
        d["fit_params"] = None
        yield d
        if c["fit_params"].get("boost") not in (None, 1):
            d = dict(c)
            d["fit_params"] = {"boost": 1}
            yield d
    if c["fc"]["type"] == "double" and c["fc"]["k"] != [1, 0, 0, 0, 0]:
        k = c["fc"]["k"]
        for i in range(5):
            if k[i] != (1 if i == 0 else 0):
                d = dict(c)
                d["fc"] = dict(c["fc"], k=k[:i] + [1 if i == 0 else 0] + k[i + 1:])
                yield d
    if any(v != 1 for v in c["y"][:max(0, n - 6)]):
        d = dict(c)
        d["y"] = [1] * (n - 6) + c["y"][n - 6:]
        yield d


# ------------------------------------------------------------------------------------------------
# model side

CASES_HEADER = """From Coq Require Import ZArith QArith List Bool.
Require Import SkV.Lib.Base SkV.Lib.ZRange SkV.C01.Model SkV.C07.Model SkV.C07.Cases.
Import ListNotations.
Open Scope Z_scope.
"""

MSPEC = {"default": "MsMAPE", "smape": "MsMAPE", "mape": "MMAPE", "mae": "MMAE", "mse": "MMSE",
         "asym": "MAsym", "negmae": "MNegMAE"}


def c_splitter(sp, n):
    if sp["type"] == "single":
        return "(SSingle %s %s %s)" % (cz(n), czlist(sp["fh"]), copt(sp["wl"], cz))
    return "(SWindow %s {| n := %s; fh := %s; wl := %s; step := %s; iw := %s; sww := %s |})" % (
        "Sliding" if sp["type"] == "sliding" else "Expanding", cz(n), czlist(sp["fh"]),
        cz(sp["wl"]), cz(sp["step"]), copt(sp.get("iw"), cz), cbool(sp["sww"]))


def c_fc(fc):
    if fc["type"] == "double":
        return "(FDouble %s)" % " ".join(cz(v) for v in fc["k"])
    return "(FNaive %s %s)" % (cbool(fc["strategy"] == "mean"), copt(fc.get("wl"), cz))


def _cqv(v):
    return cq(v) if isinstance(v, (list, tuple)) else cq(Fraction(v))


def c_ydata(lst):
    return clist(["(%s, %s)" % (cz(t), _cqv(v)) for t, v in lst])


def c_xdata(lst):
    return "None" if lst is None else "(Some %s)" % c_ydata(lst)


def c_call(c):
    if c["op"] == "fit":
        if c.get("kw"):
            return "(FitP %s %s %s %s)" % (c_ydata(c["y"]), c_xdata(c["X"]),
                                           czlist(c["fh"] if c["fh"] is not None else []),
                                           cz(c["kw"]["boost"]))
        return "(Fit %s %s %s)" % (c_ydata(c["y"]), c_xdata(c["X"]),
                                   czlist(c["fh"] if c["fh"] is not None else []))
    if c["op"] == "update":
        return "(Update %s %s)" % (c_ydata(c["y"]), c_xdata(c["X"]))
    return "(Predict %s %s)" % (czlist(c["fh"]), c_xdata(c["X"]))


def c_args(case):
    n = len(case["y"])
    return "%s %s %s %s %s %s %s" % (
        c_splitter(case["splitter"], n), cz(case["off"]),
        clist([cq(Fraction(v)) for v in case["y"]]),
        "None" if case.get("X") is None else "(Some %s)" % clist([cq(Fraction(v))
                                                                  for v in case["X"]]),
        "Refit" if case["strategy"] == "refit" else "UpdateS", MSPEC[case["metric"]],
        c_fc(case["fc"]))


def coq_case(case, out):
    if "err" in out:
        o = "None"
    elif "rows" not in out:
        return None
    else:
        rows = []
        for r in out["rows"]:
            if r["score"] is None or isinstance(r["score"], str):
                return None    # NaN / inf score: the oracle has already flagged it
            data = "None"
            if "ytrain" in r:
                if any(v is None or isinstance(v, str) for _, v in r["ypred"]):
                    return None
                data = "(Some (%s, %s, %s))" % (c_ydata(r["ytrain"]), c_ydata(r["ytest"]),
                                                c_ydata(r["ypred"]))
            rows.append("(mkir %s %s %s %s)" % (cq(r["score"]), cz(r["cutoff"]), cz(r["len"]),
                                                data))
        tr = out.get("trace")
        o = "(Some (%s, %s))" % (clist(rows),
                                 "None" if tr is None else "(Some %s)" % clist([c_call(c)
                                                                                for c in tr]))
    if case.get("stride", 1) != 1:
        return "CEvalS %s %s %s %s" % (cz(case["stride"]), c_fp(case), c_args(case), o)
    if "fit_params" in case:
        return "CEvalP %s %s %s" % (c_fp(case), c_args(case), o)
    return "CEval %s %s" % (c_args(case), o)


def c_fp(case):
    fp = case.get("fit_params") or {}
    return "(Some %s)" % cz(fp["boost"]) if "boost" in fp else "None"


def coq_model_term(case):
    if case.get("stride", 1) != 1:
        return "model_eval_s %s %s %s" % (cz(case["stride"]), c_fp(case), c_args(case))
    if "fit_params" in case:
        return "model_eval_fp %s %s" % (c_fp(case), c_args(case))
    return "model_eval %s" % c_args(case)


def distribution(cases, results):
    import collections
    d = collections.Counter()
    for c, r in zip(cases, results):
        o = r.get("out") or {}
        acc = "rejected" if "err" in o else "accepted"
        d["%s:%s" % (c["splitter"]["type"], acc)] += 1
        if "rows" in o:
            d["folds=%s" % min(len(o["rows"]), 6)] += 1
            d["strategy=%s" % c["strategy"]] += 1
            d["metric=%s" % c["metric"]] += 1
            d["fc=%s" % (c["fc"]["type"] if c["fc"]["type"] == "double"
                         else "naive-" + c["fc"]["strategy"])] += 1
            d["X=%s" % (c.get("X") is not None)] += 1
            d["return_data=%s" % c["return_data"]] += 1
            d["index-stride=%s" % c.get("stride", 1)] += 1
            d["forecaster-object=%s" % (o.get("prior") or c.get("prior", "fresh"))] += 1
            fp = c.get("fit_params")
            d["fit_params=%s" % ("None" if fp is None else "{}" if not fp else "keyword")] += 1
    return dict(d)
