"""C08 - Tuning selects, exposes and refits the candidate with the best CV score."""
import itertools
from fractions import Fraction

from harness.core import cbool, clist, cq, cz, czlist
from props import c07

ID = "C08"
MODEL_TARGETS = ["C08/Cases.vo"]
PROOF_TARGETS = ["C01/Gen.vo", "C01/Bridge.vo", "C01/Proofs.vo", "C07/Site.vo", "C07/Bridge.vo",
                 "C07/Proofs.vo", "C08/Site.vo", "C08/Bridge.vo", "C08/Proofs.vo", "C08/Refuted.vo"]
OBLIGATION_FILES = ["C08/Bridge.v", "C08/Refuted.v"]
PROPS_FILE = "C08/Props.v"
SHARD = 30
PER_CASE_TIMEOUT = 120
RULE = ("random searches: ForecastingGridSearchCV (75%) / ForecastingRandomizedSearchCV (25%, "
        "random_state an integer / None / one RandomState instance in equal parts, 30% with one "
        "parameter drawn from scipy.stats.randint; candidates read back from cv_results_) over four base forecasters WITH NON-DEFAULT base "
        "parameters - the recording test double (its integer coefficients and an inert `tag` "
        "parameter that creates exact ties), NaiveForecaster (strategy, window_length), "
        "TransformedTargetForecaster([affine test transformer, double or naive]) with nested t__a / "
        "t__b / f__<param> names, MultiplexForecaster with a pre-selected member (selected_forecaster "
        "and nested m<i>__<param>; repeated names create ties) - search space given as ONE dict (50%) "
        "or as a LIST of 2-3 dicts naming DIFFERENT parameters with overlapping value sets, possibly "
        "the empty dict (50%): candidates are partial assignments that leave other parameters at the "
        "base forecaster's values; 30%: a PRIOR search on a different series in the same process, on "
        "the same tuner object or on a second tuner sharing the base forecaster and cv objects; 25%: "
        "the BASE forecaster object handed to the tuner is already fitted (on the full series / on "
        "another series / used by an earlier evaluate() call) - "
        "2..8 candidates, series of small positive integers (n <= 22), sliding / expanding / "
        "single splitters as in C07, strategy refit / update, metrics of both directions (MAPE, "
        "sMAPE default, MAE, MSE, asymmetric scorer as loss and as greater_is_better, negated MAE "
        "greater_is_better), refit True/False, fit with/without fh, then predict / update / cutoff "
        "/ predict on the tuner. non-trivial = accepted search with >= 2 candidates whose mean "
        "scores are not all equal; distinct = distinct canonical JSON case")
TRUSTED = [
    "translator/tunesite_c08.py (Python ast -> Gallina: the `ascending=` expression over Python "
    "values, which column is ranked and which reduction picks best_index_, refit call arguments; "
    "string facts for the evaluate(...) and delegation arguments; fail-closed), validated by "
    "Bridge.v on every run",
    "C07's model of evaluate() (proved there, re-used here for every candidate)",
    "the recording test double and the affine test transformer (props/c07.py, props/c08.py)",
]
MODELLED = [
    "sklearn ParameterGrid order (sorted keys, last key fastest) is re-implemented in the Python "
    "oracle and compared with cv_results_['params']; ParameterSampler is not modelled (candidates "
    "are read back, checked to lie in the distribution's support and to be n_iter many)",
    "pandas Series.rank(method='average', ascending=...) and Series.argmin() are hand models in Coq "
    "(rank_avg / argmin), proved to pick the first best mean, and compared EXACTLY with the "
    "implementation's rank column and best_index_ on the implementation's own float means",
    "clone(forecaster).set_params(**params) is modelled as `apply_params base p` on forecaster "
    "objects without fitted state (abstract in the theorems: any F, any partial-assignment type P, "
    "any apply_params; in the correspondence `apply8` over the twins: one assignment per dict "
    "entry, unnamed parameters keep the base value); NaN scores are outside the model",
    "affine TransformedTargetForecaster and MultiplexForecaster are modelled only as far as needed "
    "to decode a candidate (transform the data handed to the inner forecaster, invert the forecast; "
    "a multiplexer behaves as its selected member); C09 owns their semantics",
    "the cutoff property is checked to start with check_is_fitted('cutoff') (named guard) by the "
    "site extractor; its delegation is a string fact, like predict / update",
]
NOT_RUNNABLE = []

GIB = {"negmae": True, "asym_gib": True}


def translate(repo):
    from translator import tunesite_c08
    files = dict(c07.translate(repo))
    files.update(tunesite_c08.translate(repo))
    return files


# ------------------------------------------------------------------------------------------------
# implementation side

_AFF = {}


def affine_class():
    if "cls" in _AFF:
        return _AFF["cls"]
    from sktime.transformations.base import _SeriesToSeriesTransformer

    class AffineTransformer(_SeriesToSeriesTransformer):
        _tags = {"transform-returns-same-time-index": True, "univariate-only": True}

        def __init__(self, a=1, b=0):
            self.a, self.b = a, b
            super(AffineTransformer, self).__init__()

        def fit(self, Z, X=None):
            self._is_fitted = True
            return self

        def transform(self, Z, X=None):
            self.check_is_fitted()
            return Z * self.a + self.b

        def inverse_transform(self, Z, X=None):
            self.check_is_fitted()
            return (Z - self.b) / self.a

        def update(self, Z, X=None, update_params=False):
            return self

    _AFF["cls"] = AffineTransformer
    return AffineTransformer


def make_metric(name):
    if name == "asym_gib":
        from sktime.performance_metrics.forecasting import make_forecasting_scorer
        return make_forecasting_scorer(c07.asym_score, name="asym_gib", greater_is_better=True)
    return c07.make_metric(name)


def metric_column(name):
    return "test_asym_gib" if name == "asym_gib" else c07.METRIC_COLUMN[name]


def _member(spec):
    return c07.make_forecaster(spec)


def make_base(base):
    t = base["type"]
    if t in ("double", "naive"):
        return c07.make_forecaster(base if t == "double" else dict(base, strategy=base.get(
            "strategy", "last")))
    if t == "pipe":
        from sktime.forecasting.compose import TransformedTargetForecaster
        return TransformedTargetForecaster([
            ("t", affine_class()(a=base.get("a", 1), b=base.get("b", 0))),
            ("f", _member(base["inner"]))])
    if t == "mux":
        from sktime.forecasting.compose import MultiplexForecaster
        return MultiplexForecaster([(nm, _member(sp)) for nm, sp in base["members"]],
                                   selected_forecaster=base.get("selected"))
    raise AssertionError(t)


def subgrids(grid):
    """param_grid / param_distributions as a list of dicts (a single dict is a one-element list)."""
    return [grid] if isinstance(grid, dict) else list(grid)


def grid_order(grid):
    """sklearn.model_selection.ParameterGrid order: sub-grids in the order given; inside one, keys
    sorted and the last key varies fastest; the empty dict is one candidate `{}`."""
    out = []
    for g in subgrids(grid):
        keys = sorted(g)
        out += [dict(zip(keys, vals)) for vals in itertools.product(*[values_of(g[k]) for k in keys])]
    return out


def values_of(v):
    """the support of one entry of a search space: a list of values, or (randomized search only) the
    spec {"randint": [lo, hi]} of scipy.stats.randint(lo, hi)"""
    if isinstance(v, dict):
        lo, hi = v["randint"]
        return list(range(lo, hi))
    return list(v)


def _space(grid):
    """the search space as the real objects: randint specs become scipy distributions"""
    from scipy.stats import randint
    conv = [{k: (randint(*v["randint"]) if isinstance(v, dict) else v) for k, v in g.items()}
            for g in subgrids(grid)]
    return conv[0] if isinstance(grid, dict) else conv


def _py(v):
    """numpy scalars drawn from a distribution -> Python values"""
    return v.item() if hasattr(v, "item") else v


def decode(base, params):
    """The forecaster spec (as in C07 cases) that clone(base).set_params(**params) denotes: a
    parameter the (partial) dict does not name keeps the base forecaster's value."""
    t = base["type"]
    if t == "double":
        k = list(base["k"])
        for i, nm in enumerate("abcde"):
            if nm in params:
                k[i] = params[nm]
        return {"type": "double", "k": k, "tag": params.get("tag", base.get("tag", 0))}
    if t == "naive":
        return {"type": "naive", "strategy": params.get("strategy", base.get("strategy", "last")),
                "wl": params.get("window_length", base.get("wl"))}
    if t == "pipe":
        inner = decode(base["inner"], {k[3:]: v for k, v in params.items() if k.startswith("f__")})
        return {"type": "pipe", "a": params.get("t__a", base.get("a", 1)),
                "b": params.get("t__b", base.get("b", 0)), "inner": inner}
    if t == "mux":
        sel = params.get("selected_forecaster", base.get("selected"))
        members = dict(base["members"])
        if sel not in members:
            return None
        return decode(members[sel], {k[len(sel) + 2:]: v for k, v in params.items()
                                     if k.startswith(sel + "__")})
    raise AssertionError(t)


def _double_key(spec):
    """The `who` key under which the candidate's recording double logs, if it is one."""
    if spec is None:
        return None
    if spec["type"] == "double":
        return list(spec["k"]) + [spec.get("tag", 0)]
    if spec["type"] == "pipe":
        return _double_key(spec["inner"])
    return None


def _series_dump(s):
    from harness.core import float_ratio
    return [[int(t), float_ratio(v)] for t, v in zip(s.index, s.to_numpy())]


def fit_horizon(case):
    """what is passed as `fh` to the tuner's fit (and to the directly constructed forecaster): None,
    relative steps, or an ABSOLUTE ForecastingHorizon of the time points cutoff + steps"""
    if case["fit_fh"] is None:
        return None
    if case.get("fit_fh_abs"):
        from sktime.forecasting.base import ForecastingHorizon
        cut = case["off"] + len(case["y"]) - 1
        return ForecastingHorizon([cut + h for h in case["fit_fh"]], is_relative=False)
    return list(case["fit_fh"])


def _script(case, y, X):
    """[(kind, kwargs)]: predict(fh1), update(ynew, xnew), cutoff, predict(fh2)."""
    import numpy as np
    import pandas as pd
    sc = case["script"]
    n, off = len(case["y"]), case["off"]
    m = len(sc["ynew"])
    idx = pd.RangeIndex(off + n, off + n + m)
    ynew = pd.Series(np.asarray(sc["ynew"], dtype=float), index=idx)

    def xrows(lo, hi):     # exogenous rows for absolute positions lo..hi-1 (beyond the series)
        if X is None:
            return None
        vals = [sc["xfut"][p - n] for p in range(lo, hi)]
        return pd.DataFrame({"a": np.asarray(vals, dtype=float)},
                            index=pd.RangeIndex(off + lo, off + hi))
    up = sc.get("update_params", True)
    if sc.get("kind") == "stored":
        # the horizon given at fit is the only one the tuner ever sees: update, predict() WITHOUT fh,
        # cutoff, predict(<the same horizon again>), predict() without fh
        hi = n + m + max(case["fit_fh"])
        same = fit_horizon(case)
        return [("update", {"y": ynew, "X": xrows(n, n + m), "update_params": up}),
                ("predict", {"fh": None, "X": xrows(n + m, hi)}),
                ("cutoff", {}),
                ("predict", {"fh": same, "X": xrows(n + m, hi)}),
                ("predict", {"fh": None, "X": xrows(n + m, hi)})]
    return [("predict", {"fh": sc["fh1"], "X": xrows(n, n + max(sc["fh1"]))}),
            ("update", {"y": ynew, "X": xrows(n, n + m), "update_params": up}),
            ("cutoff", {}),
            ("predict", {"fh": sc["fh2"], "X": xrows(n + m, n + m + max(sc["fh2"]))})]


def _run_script(f, script):
    from sktime.exceptions import NotFittedError
    out = []
    for kind, kw in script:
        try:
            if kind == "predict":
                out.append({"series": _series_dump(f.predict(kw["fh"], X=kw["X"]))})
            elif kind == "update":
                f.update(kw["y"], kw["X"], update_params=kw.get("update_params", True))
                out.append({"done": True})
            else:
                c = f.cutoff
                out.append({"cutoff": None if c is None else int(c)})
        except NotFittedError:
            out.append({"not_fitted": True})
    return out


def driver_init():
    """import everything a search needs, WITHOUT running one: every case then runs in a forked copy
    of this never-used process (see run_impl)"""
    import warnings
    warnings.simplefilter("ignore")
    import pandas  # noqa: F401
    from sklearn.base import clone  # noqa: F401
    from sktime.forecasting.compose import (MultiplexForecaster,  # noqa: F401
                                            TransformedTargetForecaster)
    from sktime.forecasting.model_evaluation import evaluate  # noqa: F401
    from sktime.forecasting.model_selection import (ForecastingGridSearchCV,  # noqa: F401
                                                    ForecastingRandomizedSearchCV)
    from sktime.forecasting.naive import NaiveForecaster  # noqa: F401
    c07.double_class()
    affine_class()
    make_metric("asym_gib")
    for nm in set(TUNE_METRICS) - {"asym_gib"}:
        c07.make_metric(nm)
    _INIT["done"] = True


_INIT = {}


def forked(fn, case):
    """fn(case) in a forked child; the JSON-able result comes back through a pipe.  No state of one
    case (module-level caches, objects left fitted, advanced iterators) can reach another case, so a
    failing case fails on its own in the replay: whatever history a case needs is inside the case."""
    import json
    import os
    import signal
    r, w = os.pipe()
    pid = os.fork()
    if pid == 0:
        try:
            os.close(r)
            try:
                payload = {"ok": fn(case)}
            except BaseException:
                import traceback
                payload = {"exc": traceback.format_exc()[-1500:]}
            with os.fdopen(w, "w") as f:
                json.dump(payload, f, default=str)
        finally:
            os._exit(0)
    os.close(w)
    try:
        with os.fdopen(r) as f:
            data = f.read()
    finally:
        try:
            os.kill(pid, signal.SIGKILL)
        except OSError:
            pass
        os.waitpid(pid, 0)
    if not data:
        raise RuntimeError("forked case died without a result")
    payload = json.loads(data)
    if "exc" in payload:
        raise RuntimeError(payload["exc"])
    return payload["ok"]


def run_impl(case):
    if not _INIT.get("done"):
        driver_init()
    return forked(_run_impl, case)


def _run_impl(case):
    from sklearn.base import clone
    from sktime.forecasting.model_evaluation import evaluate
    from sktime.forecasting.model_selection import (ForecastingGridSearchCV,
                                                    ForecastingRandomizedSearchCV)
    from harness.core import float_ratio
    import pandas as pd
    y, X = c07.make_data(case)
    cv = c07.make_cv(case["splitter"])
    base = make_base(case["base"])
    scoring = make_metric(case["metric"])
    kw = dict(scoring=scoring, strategy=case["strategy"], refit=case["refit"])
    # the state of the BASE forecaster object handed to the tuner: fresh, or already fitted by the
    # caller (full series / another series / an earlier evaluate() call).  The search works on clones
    # with the candidate's parameters: nothing of that state may reach a candidate or the refit.
    # Whatever happens in this set-up is the caller's business.
    if case.get("base_state"):
        y0 = pd.Series(y.to_numpy()[::-1] * 3.0 + 2.0, index=y.index)
        try:
            if case["base_state"] == "full":
                base.fit(y.copy(), None if X is None else X.copy(), fh=[1])
            elif case["base_state"] == "other":
                base.fit(y0, None if X is None else X.copy(), fh=[1, 2])
            else:
                evaluate(base, c07.make_cv(case["splitter"]), y0, X, strategy="update",
                         scoring=make_metric("mae"))
        except Exception:
            pass

    # random_state: an integer (every pass over the sampler repeats), None (numpy's global generator)
    # or ONE RandomState instance (both: every pass over the sampler draws afresh)
    import numpy as np
    rs = {"int": case["seed"], "none": None,
          "state": np.random.RandomState(case["seed"] or 0)}[case.get("rs", "int")]

    def tuner():
        if case["search"] == "grid":
            return ForecastingGridSearchCV(base, cv, case["grid"], **kw)
        return ForecastingRandomizedSearchCV(base, cv, _space(case["grid"]),
                                             n_iter=case["n_iter"], random_state=rs, **kw)

    def state(obj):
        if hasattr(obj, "get_params"):
            return sorted((k, repr(v)) for k, v in obj.get_params().items())
        return sorted((k, repr(v)) for k, v in vars(obj).items())
    g = tuner()
    base_before, cv_before = state(base), state(cv)
    # a PRIOR search on a different series in the same process: on the same tuner object, or on a
    # second tuner that shares the base forecaster and the cv object.  Nothing of it may survive.
    if case.get("prior"):
        y0 = pd.Series(y.to_numpy()[::-1] + 1.0, index=y.index)
        g0 = g if case["prior"] == "same" else tuner()
        try:
            g0.fit(y0, X, fh=fit_horizon(case), **dict(case.get("fit_params") or {}))
        except (ValueError, TypeError):
            pass
    del c07.LOG[:]
    fitkw = dict(case.get("fit_params") or {})
    try:
        g.fit(y, X, fh=fit_horizon(case), **fitkw)
    except (ValueError, TypeError) as e:
        return {"err": type(e).__name__}
    log = [{"who": c["who"], "op": c["op"],
            "yt": None if "y" not in c else [c["y"][0][0], c["y"][-1][0], len(c["y"])],
            "fh": c.get("fh"), "kw": c.get("kw")} for c in c07.LOG]
    res = g.cv_results_
    col = metric_column(case["metric"])
    out = {"columns": sorted(str(c) for c in res.columns),
           "params": [{k: _py(v) for k, v in dict(p).items()} for p in res["params"]],
           "means": [float_ratio(v) for v in res["mean_" + col]],
           "ranks": [float_ratio(v) for v in res["rank_" + col]],
           "best_index": int(g.best_index_), "best_score": float_ratio(g.best_score_),
           "best_params": {k: _py(v) for k, v in dict(g.best_params_).items()}, "log": log,
           "best_forecaster_params_ok": all(
               g.best_forecaster_.get_params()[k] == v for k, v in g.best_params_.items()),
           "base_unchanged": state(base) == base_before, "cv_unchanged": state(cv) == cv_before,
           "best_is_base_object": g.best_forecaster_ is base}
    # an independent evaluate() run per candidate, outside the tuner
    indep = []
    for p in out["params"]:
        f = clone(base).set_params(**p)
        r = evaluate(f, c07.make_cv(case["splitter"]), y, X, strategy=case["strategy"],
                     scoring=make_metric(case["metric"]), fit_params=fitkw or None)
        indep.append(float_ratio(r[col].mean()))
    out["indep_means"] = indep
    # the tuner after fit, and a forecaster constructed directly with the best parameters
    out["answers"] = _run_script(g, _script(case, y, X))
    d = clone(base).set_params(**out["best_params"])
    d.fit(y, X, fh=fit_horizon(case))
    out["direct"] = _run_script(d, _script(case, y, X))
    return out


# ------------------------------------------------------------------------------------------------
# oracle


def _fr(r):
    return None if r is None or isinstance(r, str) else Fraction(int(r[0]), int(r[1]))


def _ref_mean(case, spec):
    sub = {"splitter": case["splitter"], "off": case["off"], "y": case["y"], "X": case.get("X"),
           "strategy": case["strategy"], "fc": spec, "fit_params": case.get("fit_params"),
           "metric": "asym" if case["metric"] == "asym_gib" else case["metric"]}
    ref = c07.ref_eval(sub)
    if ref is None:
        return None
    rows, trace = ref
    return sum((r["score"] for r in rows), Fraction(0)) / len(rows), trace


def avg_ranks(means, asc):
    out = []
    for x in means:
        before = sum(1 for v in means if (v < x if asc else v > x))
        eq = sum(1 for v in means if v == x)
        out.append(Fraction(before) + Fraction(eq + 1, 2))
    return out


def oracle(case, out):
    splits = c07.ref_splits(case["splitter"], len(case["y"]))
    if "err" in out:
        return None if splits is None else "rejected-valid-search: %s" % out["err"]
    if splits is None:
        return "accepted-invalid-configuration"
    gib = GIB.get(case["metric"], False)
    params = out["params"]
    # candidates
    if case["search"] == "grid":
        want = grid_order(case["grid"])
        if params != want:
            return "candidates-not-the-grid: %s expected %s" % (params, want)
    else:
        if len(params) != case["n_iter"]:
            return "candidates-count: %d sampled, n_iter=%d" % (len(params), case["n_iter"])
        support = grid_order(case["grid"])
        for p in params:
            if p not in support:
                return "candidate-outside-distribution: %s" % p
    # the search leaves the objects it was given alone (it works on clones)
    if not out["base_unchanged"] or out["best_is_base_object"]:
        return "base-forecaster-mutated-by-search: parameters of the forecaster passed to the " \
               "tuner changed during fit (best_forecaster_ is the same object: %s)" % \
               out["best_is_base_object"]
    if not out["cv_unchanged"]:
        return "cv-mutated-by-search: attributes of the splitter passed to the tuner changed " \
               "during fit"
    means = [_fr(m) for m in out["means"]]
    if any(m is None for m in means):
        return "mean-score-not-finite: %s" % out["means"]
    # every row of cv_results_ equals an independent evaluate run of that candidate: of a fresh clone
    # of the base forecaster with the candidate's (partial) dict set - whatever was evaluated before
    specs = [decode(case["base"], p) for p in params]
    for i, (m, im) in enumerate(zip(means, out["indep_means"])):
        if _fr(im) is None or abs(m - _fr(im)) > Fraction(1, 10 ** 12) * max(1, abs(m)):
            return "cv-results-row-not-an-independent-evaluate-run: candidate %d %s mean %s, " \
                   "evaluate() gives %s" % (i, params[i], float(m),
                                            None if _fr(im) is None else float(_fr(im)))
        rm = _ref_mean(case, specs[i])
        if rm is None or abs(m - rm[0]) > Fraction(1, 10 ** 9) * max(1, abs(m)):
            return "cv-results-row-not-the-honest-mean: candidate %d %s mean %s, honest per-fold " \
                   "computation gives %s" % (i, params[i], float(m),
                                             None if rm is None else float(rm[0]))
    # same splits for every candidate (through the calls logged by recording doubles)
    keys = [_double_key(s) for s in specs]
    log = out["log"]
    nf = len(splits)
    if all(k is not None for k in keys):
        per = 2 * nf
        want_len = per * len(params) + (1 if case["refit"] else 0)
        search_log = log[:per * len(params)]
        if len(log) < want_len:
            return "candidate-call-count: %d calls logged, expected %d" % (len(log), want_len)
        off = case["off"]
        for i, k in enumerate(keys):
            seg = search_log[i * per:(i + 1) * per]
            for j, (tr, te) in enumerate(splits):
                d, p = seg[2 * j], seg[2 * j + 1]
                want_op = "fit" if (j == 0 or case["strategy"] == "refit") else "update"
                if d["who"] != k or p["who"] != k:
                    return "candidate-parameters-not-set: candidate %d calls logged by %s, " \
                           "expected %s" % (i, d["who"], k)
                if d["op"] == "fit" and (d.get("kw") or {}) != (case.get("fit_params") or {}):
                    return "candidate-fit-params-not-passed: candidate %d fold %d was fitted " \
                           "with keyword arguments %s, the tuner's fit was given %s" % (
                               i, j, d.get("kw"), case.get("fit_params"))
                if d["op"] != want_op or p["op"] != "predict":
                    return "candidate-call-sequence: candidate %d fold %d got %s/%s" % (
                        i, j, d["op"], p["op"])
                if d["yt"] != [tr[0] + off, tr[-1] + off, len(tr)] or \
                        p["fh"] != [q + off for q in te]:
                    return "candidates-not-evaluated-on-the-same-splits: candidate %d fold %d " \
                           "window %s horizon %s, split is %s / %s" % (
                               i, j, d["yt"], p["fh"], [tr[0] + off, tr[-1] + off, len(tr)],
                               [q + off for q in te])
        if case["refit"]:
            last = log[per * len(params)]
            n = len(case["y"])
            if last["op"] != "fit" or last["yt"] != [off, off + n - 1, n]:
                return "refit-not-on-the-whole-series: refit call %s on %s, series is %s" % (
                    last["op"], last["yt"], [off, off + n - 1, n])
            if last["who"] != keys[out["best_index"]] if 0 <= out["best_index"] < len(keys) \
                    else True:
                return "refit-not-the-best-candidate: refit by %s" % last["who"]
    # best = first arg-best in the declared direction
    bi = out["best_index"]
    if not 0 <= bi < len(means):
        return "best-index-out-of-range: %d" % bi
    best = max(means) if gib else min(means)
    first = means.index(best)
    if means[bi] != best:
        return "best-not-arg-best: best_index_=%d has mean %s but candidate %d has %s and %s is " \
               "better" % (bi, float(means[bi]), first, float(best),
                           "greater" if gib else "lower")
    if bi != first:
        return "best-not-first-among-ties: best_index_=%d, first best is %d" % (bi, first)
    if _fr(out["best_score"]) != means[bi]:
        return "best-score-not-the-best-mean: %s" % out["best_score"]
    if out["best_params"] != params[bi]:
        return "best-params-not-the-best-candidate: %s vs %s" % (out["best_params"], params[bi])
    if not out["best_forecaster_params_ok"]:
        return "best-forecaster-parameters-differ-from-best-params"
    ranks = [_fr(r) for r in out["ranks"]]
    if ranks != avg_ranks(means, asc=not gib):
        return "rank-column-direction: ranks %s for means %s (greater_is_better=%s)" % (
            [float(r) for r in ranks], [float(m) for m in means], gib)
    # after fit
    ans, direct = out["answers"], out["direct"]
    if case["refit"]:
        if any("not_fitted" in a for a in ans):
            return "refit-tuner-not-fitted: %s" % ans
        if ans != direct:
            return "refit-not-equal-to-directly-constructed-forecaster: tuner %s direct %s" % (
                ans, direct)
    else:
        kinds = ["update", "predict", "cutoff", "predict", "predict"] \
            if case["script"].get("kind") == "stored" else ["predict", "update", "cutoff", "predict"]
        if len(ans) != len(kinds):
            return "no-refit-did-not-raise-NotFittedError: %d answers for %d operations" % (
                len(ans), len(kinds))
        for a, (kind, _) in zip(ans, [(k, 0) for k in kinds]):
            if kind == "cutoff":
                if "not_fitted" not in a:
                    return "no-refit-cutoff-reported: cutoff answered %s instead of raising " \
                           "NotFittedError" % a
            elif "not_fitted" not in a:
                return "no-refit-did-not-raise-NotFittedError: %s answered %s" % (kind, a)
    return None


def nontrivial(case, out):
    return "means" in out and len(out["means"]) >= 2 and len(set(map(str, out["means"]))) > 1


# ------------------------------------------------------------------------------------------------
# generators


def _sub(rng, vals, lo=1, hi=3):
    k = rng.randint(lo, min(hi, len(vals)))
    return rng.sample(vals, k)


def _rand_member(rng, minlen):
    if rng.random() < 0.6:
        return {"type": "double", "k": [rng.randint(-1, 2), rng.randint(0, 1), 0,
                                        rng.randint(-1, 1), rng.randint(-1, 2)]}
    return {"type": "naive", "strategy": rng.choice(["last", "mean"]),
            "wl": rng.choice([None, None, 1, min(2, minlen)])}


def _leaf_pool(spec, minlen, prefix=""):
    """parameter name -> values a search may try, for a double / naive forecaster"""
    if spec["type"] == "double":
        pool = {prefix + nm: [-2, -1, 0, 1, 2, 3] for nm in ("a", "b", "d", "e")}
        pool[prefix + "tag"] = [0, 1, 2]
        return pool
    return {prefix + "strategy": ["last", "mean"],
            prefix + "window_length": [None] + list(range(1, min(3, minlen) + 1))}


def rand_base(rng, minlen=1):
    """base forecaster spec (non-default parameters) and the pool of searchable parameters"""
    fam = rng.choice(["double", "double", "naive", "pipe", "mux"])
    if fam == "double":
        base = {"type": "double", "k": [rng.randint(-1, 2), rng.randint(0, 1), rng.randint(-1, 1),
                                        rng.randint(-2, 2), rng.randint(-1, 2)],
                "tag": rng.choice([0, 0, 1])}
        pool = _leaf_pool(base, minlen)
    elif fam == "naive":
        base = {"type": "naive", "strategy": rng.choice(["last", "mean"]),
                "wl": rng.choice([None, None, 1, min(2, minlen)])}
        pool = _leaf_pool(base, minlen)
    elif fam == "pipe":
        if rng.random() < 0.6:
            inner = {"type": "double", "k": [1, rng.randint(0, 1), 0, rng.randint(-1, 1),
                                             rng.randint(0, 1)]}
        else:
            inner = {"type": "naive", "strategy": rng.choice(["last", "mean"]), "wl": None}
        base = {"type": "pipe", "inner": inner, "a": rng.choice([1, 1, 2, -1]),
                "b": rng.choice([0, 0, 1])}
        pool = {"t__a": [1, 2, -1, 4], "t__b": [0, 1, -3]}
        inner_pool = _leaf_pool(inner, minlen, "f__")
        inner_pool.pop("f__b", None)
        inner_pool.pop("f__window_length", None)
        pool.update(inner_pool)
    else:
        members = [["m%d" % i, _rand_member(rng, minlen)] for i in range(rng.randint(2, 4))]
        names = [m[0] for m in members]
        base = {"type": "mux", "members": members, "selected": rng.choice(names)}
        pool = {"selected_forecaster": names}
        for nm, sp in members:
            mp = _leaf_pool(sp, minlen, nm + "__")
            for k in (nm + "__b", nm + "__tag", nm + "__window_length"):
                mp.pop(k, None)
            pool.update(mp)
    return fam, base, pool


def _rand_subgrid(rng, pool, nkeys, maxvals):
    g = {}
    for k in rng.sample(sorted(pool), min(nkeys, len(pool))):
        g[k] = _sub(rng, pool[k], 1, min(maxvals, len(pool[k])))
    return g


def rand_search(rng, minlen=1):
    fam, base, pool = rand_base(rng, minlen)
    for _ in range(50):
        if rng.random() < 0.5:
            # one dict: every candidate names the same parameters
            grid = _rand_subgrid(rng, pool, rng.choice([1, 1, 2, 2, 3]), 3)
            if fam == "mux" and "selected_forecaster" in grid and rng.random() < 0.5:
                grid["selected_forecaster"] = list(grid["selected_forecaster"]) + [
                    rng.choice(pool["selected_forecaster"])]          # repeated name -> exact tie
            if fam == "double" and rng.random() < 0.4:
                grid["tag"] = [0, 1] if rng.random() < 0.8 else [0, 1, 2]          # exact ties
            form = "dict"
        else:
            # a list of dicts naming DIFFERENT parameters (value sets overlap on purpose); now and
            # then the empty dict = the base forecaster as it is
            grid = []
            for _j in range(rng.choice([2, 2, 3])):
                grid.append({} if rng.random() < 0.12 else
                            _rand_subgrid(rng, pool, rng.choice([1, 1, 2]), 2))
            if len(set(tuple(sorted(g)) for g in grid)) < 2:
                continue
            form = "list"
        if 2 <= len(grid_order(grid)) <= 8:
            return fam, base, grid, form
    k = sorted(pool)[0]
    return fam, base, {k: pool[k][:2]}, "dict"


TUNE_METRICS = ["mape", "mape", "default", "mae", "mse", "asym", "asym_gib", "asym_gib", "negmae",
                "negmae"]


def gen_cases(rng, tier):
    cases = []
    for _ in range(200 if tier == "quick" else 1500):
        sp, n = c07.rand_splitter(rng, allow_bad=rng.random() < 0.3)
        n = min(n, 22)
        spl = c07.ref_splits(sp, n)
        minlen = min(len(tr) for tr, _ in spl) if spl else 1
        fam, base, grid, form = rand_search(rng, minlen)
        ncand = len(grid_order(grid))
        search, rs = "grid", "int"
        n_iter = seed = None
        if rng.random() < 0.25 and ncand >= 2:
            search = "random"
            n_iter = rng.randint(1, ncand)
            seed = rng.randint(0, 99)
            # how the sampler is seeded: only an integer makes a second pass repeat the first
            rs = rng.choice(["int", "int", "none", "none", "state", "state"])
            if rng.random() < 0.3:
                # one integer parameter drawn from a scipy distribution (sampling WITH replacement)
                subs = subgrids(grid)
                pick = [(i, k) for i, g in enumerate(subs) for k in sorted(g)
                        if all(isinstance(v, int) and not isinstance(v, bool) for v in g[k])
                        # any integer is a legal value: not the divisor t__a, not window_length
                        and (k == "t__b" or k.split("__")[-1] in ("a", "b", "d", "e", "tag"))
                        and k != "t__a"]
                if pick:
                    i, k = rng.choice(pick)
                    lo = min(subs[i][k])
                    subs = [dict(g) for g in subs]
                    subs[i][k] = {"randint": [lo, lo + rng.randint(2, 4)]}
                    grid = subs[0] if isinstance(grid, dict) else subs
                    n_iter = rng.randint(2, 6)
        with_x = fam in ("double", "mux") and rng.random() < 0.3
        m = rng.randint(1, 3)
        fh1 = sorted(rng.sample(range(1, 4), rng.randint(1, 2)))
        fh2 = sorted(rng.sample(range(1, 4), rng.randint(1, 2)))
        # fit keywords handed to the tuner's fit reach every fit of every candidate's evaluation (only
        # the recording double accepts one; such searches are checked by the oracle, not inside Coq)
        fit_params = None
        if fam == "double" and rng.random() < 0.3:
            fit_params = {"boost": rng.choice([-3, -1, 1, 2, 5])}
        # the horizon given to the tuner's fit: None, relative steps, or an ABSOLUTE horizon; and how the
        # tuner is used afterwards: with fresh horizons at predict ("classic"), or relying on the one
        # given at fit ("stored": update, predict() without fh, predict(<the same horizon>))
        fit_fh = rng.choice([None, sp["fh"]])
        fit_abs, kind = False, "classic"
        u = rng.random()
        if u < 0.2:
            fit_fh = sorted(rng.sample(range(m + 1, m + 4), rng.randint(1, 2)))   # beyond the update
            fit_abs, kind = True, "stored"
        elif u < 0.3 and fit_fh is not None:
            kind = "stored"
        elif u < 0.4 and fit_fh is not None:
            fit_abs = True
        # update_params=False: only where the model's `Update` is exact for it (the recording double
        # ignores the flag; NaiveForecaster(mean) keeps its fitted mean: C03 / C09 own that semantics)
        only_doubles = fam == "double" or (fam == "pipe" and base["inner"]["type"] == "double")
        update_params = rng.random() < 0.6 or not only_doubles
        cases.append({
            "fit_params": fit_params, "fit_fh_abs": fit_abs,
            "kind": "tune", "search": search, "n_iter": n_iter, "seed": seed, "rs": rs, "fam": fam,
            "base": base, "grid": grid, "form": form,
            "prior": rng.choice([None, None, None, None, None, None, None, "same", "other",
                                 "other"]),
            "base_state": rng.choice([None] * 9 + ["full", "other", "evaluated"]),
            "splitter": sp, "off": rng.choice([0, 0, 5]),
            "y": [rng.randint(1, 9) for _ in range(n)],
            "X": [rng.randint(-2, 4) for _ in range(n)] if with_x else None,
            # (randomized searches: update half of the time - both searches must honour it)
            "strategy": rng.choice(["refit", "update"] if search == "random"
                                   else ["refit", "refit", "update"]),
            "metric": rng.choice(TUNE_METRICS), "refit": rng.random() < 0.75,
            "fit_fh": fit_fh,
            "script": {"fh1": fh1, "fh2": fh2, "ynew": [rng.randint(1, 9) for _ in range(m)],
                       "kind": kind, "update_params": update_params,
                       "xfut": [rng.randint(-2, 4) for _ in range(12)]}})
    return cases


def _has_dist(grid):
    return any(isinstance(v, dict) for g in subgrids(grid) for v in g.values())


def _regrid(c, subs):
    """the case with its search space replaced (a dict stays a dict while it is a single one)"""
    d = dict(c)
    d["grid"] = subs[0] if (isinstance(c["grid"], dict) and len(subs) == 1) else subs
    if d["search"] == "random" and not _has_dist(d["grid"]):
        d["n_iter"] = min(d["n_iter"], len(grid_order(d["grid"])))
    return d


def shrink(case):
    c = dict(case)
    subs = subgrids(c["grid"])
    ncand = len(grid_order(c["grid"]))
    if c.get("prior"):
        d = dict(c)
        d["prior"] = None
        yield d
    if c.get("base_state"):
        d = dict(c)
        d["base_state"] = None
        yield d
    if c.get("fit_params"):
        d = dict(c)
        d["fit_params"] = None
        yield d
    if c["script"].get("kind") == "stored" and len(c["fit_fh"]) > 1:
        d = dict(c)
        d["fit_fh"] = c["fit_fh"][-1:]
        yield d
    if not c["script"].get("update_params", True):
        d = dict(c)
        d["script"] = dict(c["script"], update_params=True)
        yield d
    # drop a sub-grid, a value, a key
    if len(subs) > 1:
        for i in range(len(subs)):
            rest = subs[:i] + subs[i + 1:]
            if len(grid_order(rest)) >= 2:
                yield _regrid(c, rest)
    if c["search"] == "random" and c["n_iter"] > 2:
        d = dict(c)
        d["n_iter"] = c["n_iter"] - 1
        yield d
    for i, g in enumerate(subs):
        for k in sorted(g):
            if isinstance(g[k], dict):
                lo, hi = g[k]["randint"]
                if hi - lo > 2:
                    yield _regrid(c, subs[:i] + [dict(g, **{k: {"randint": [lo, hi - 1]}})]
                                  + subs[i + 1:])
                continue
            if len(g[k]) > 1 and ncand > 2:
                for j in range(len(g[k])):
                    yield _regrid(c, subs[:i] + [dict(g, **{k: g[k][:j] + g[k][j + 1:]})]
                                  + subs[i + 1:])
            if len(g[k]) == 1 and len(g) > 1:
                yield _regrid(c, subs[:i] + [{q: v for q, v in g.items() if q != k}]
                              + subs[i + 1:])
    n = len(c["y"])
    if n > 3:
        d = dict(c)
        d["y"] = c["y"][:-1]
        d["X"] = None if c.get("X") is None else c["X"][:-1]
        yield d
    sp = c["splitter"]
    for key in ("wl", "step"):
        v = sp.get(key)
        if isinstance(v, int) and v > 1:
            d = dict(c)
            d["splitter"] = dict(sp, **{key: v - 1})
            yield d
    if len(sp["fh"]) > 1:
        d = dict(c)
        d["splitter"] = dict(sp, fh=sp["fh"][:1])
        if not c.get("fit_fh_abs") and c["script"].get("kind") != "stored":
            d["fit_fh"] = None if c["fit_fh"] is None else sp["fh"][:1]
        yield d
    if c.get("X") is not None:
        d = dict(c)
        d["X"] = None
        yield d
    if c["off"]:
        d = dict(c)
        d["off"] = 0
        yield d
    if c["search"] == "random":
        if c.get("rs", "int") != "int":
            d = dict(c)
            d["rs"] = "int"
            yield d
        if len(grid_order(c["grid"])) <= 8:
            d = dict(c)
            d["search"], d["n_iter"], d["seed"], d["rs"] = "grid", None, None, "int"
            d["grid"] = [{k: values_of(v) for k, v in g.items()} for g in subs]
            if isinstance(c["grid"], dict):
                d["grid"] = d["grid"][0]
            yield d


# ------------------------------------------------------------------------------------------------
# model side

CASES_HEADER = """From Coq Require Import ZArith QArith List Bool.
Require Import SkV.Lib.Base SkV.Lib.ZRange SkV.C01.Model SkV.C07.Model SkV.C07.Cases.
Require Import SkV.C08.Model SkV.C08.Cases.
Import ListNotations.
Open Scope Z_scope.
"""


def _leaf(spec):
    return c07.c_fc(dict(spec, strategy=spec.get("strategy", "last"))
                    if spec["type"] == "naive" else spec)


def c_base(base):
    """the base forecaster object as an fc8 term"""
    t = base["type"]
    if t == "pipe":
        return "(F8Pipe %s %s %s)" % (cz(base.get("a", 1)), cz(base.get("b", 0)),
                                      _leaf(base["inner"]))
    if t == "mux":
        names = [m[0] for m in base["members"]]
        sel = names.index(base["selected"]) if base.get("selected") in names else len(names)
        return "(F8Mux %s %s)" % (clist([_leaf(sp) for _, sp in base["members"]]), cz(sel))
    return "(F8 %s)" % _leaf(base)


def _c_leaf_pset(key, v):
    if key in "abcde" and len(key) == 1:
        return "(PCoef %s %s)" % (cz("abcde".index(key)), cz(v))
    if key == "tag":
        return "(PTag %s)" % cz(v)
    if key == "strategy":
        return "(PStrategy %s)" % cbool(v == "mean")
    if key == "window_length":
        return "(PWl %s)" % ("None" if v is None else "(Some %s)" % cz(v))
    raise AssertionError(key)


def c_pa(base, params):
    """one candidate dict as a list of single assignments (sorted by parameter name)"""
    t = base["type"]
    out = []
    for key in sorted(params):
        v = params[key]
        if t == "pipe":
            out.append({"t__a": "(PTa %s)", "t__b": "(PTb %s)"}[key] % cz(v) if key[:3] == "t__"
                       else "(PInner %s)" % _c_leaf_pset(key[3:], v))
        elif t == "mux":
            names = [m[0] for m in base["members"]]
            if key == "selected_forecaster":
                out.append("(PSelect %s)" % cz(names.index(v)))
            else:
                nm, sub = key.split("__", 1)
                out.append("(PMember %s %s)" % (cz(names.index(nm)), _c_leaf_pset(sub, v)))
        else:
            out.append(_c_leaf_pset(key, v))
    return clist(out)


def _c_series(lst):
    return c07.c_ydata(lst)


def _c_script(case):
    sc = case["script"]
    n, off = len(case["y"]), case["off"]
    m = len(sc["ynew"])
    has_x = case.get("X") is not None

    def xr(lo, hi):
        if not has_x:
            return "None"
        return "(Some %s)" % clist(["(%s, %s)" % (cz(off + p), cq(Fraction(sc["xfut"][p - n])))
                                    for p in range(lo, hi)])
    cut1 = off + n - 1
    cut2 = cut1 + m
    ynew = clist(["(%s, %s)" % (cz(off + n + i), cq(Fraction(v))) for i, v in enumerate(sc["ynew"])])
    if sc.get("kind") == "stored":
        # what the horizon given at fit denotes when predict is called after the update: the same time
        # points if it was absolute, the new cutoff + steps if it was relative
        times = [(cut1 if case.get("fit_fh_abs") else cut2) + h for h in case["fit_fh"]]
        xs = xr(n + m, n + m + max(case["fit_fh"]))
        pred = "(OpPredict %s %s)" % (czlist(times), xs)
        return clist(["(OpUpdate %s %s)" % (ynew, xr(n, n + m)), pred, "OpCutoff", pred, pred])
    return clist([
        "(OpPredict %s %s)" % (czlist([cut1 + h for h in sc["fh1"]]), xr(n, n + max(sc["fh1"]))),
        "(OpUpdate %s %s)" % (ynew, xr(n, n + m)),
        "OpCutoff",
        "(OpPredict %s %s)" % (czlist([cut2 + h for h in sc["fh2"]]),
                               xr(n + m, n + m + max(sc["fh2"])))])


def _c_answer(a):
    if "not_fitted" in a:
        return "ANotFitted"
    if "series" in a:
        return "(ASeries %s)" % _c_series(a["series"])
    if "done" in a:
        return "ADone"
    return "ANotFitted" if a["cutoff"] is None else "(ACutoff %s)" % cz(a["cutoff"])


def _c_args(case, cands):
    n, off = len(case["y"]), case["off"]
    metric = "asym" if case["metric"] == "asym_gib" else case["metric"]
    fitfh = [] if case["fit_fh"] is None else [off + n - 1 + h for h in case["fit_fh"]]
    return "%s %s %s %s %s %s %s %s %s %s %s" % (
        c07.c_splitter(case["splitter"], n), cz(off),
        clist([cq(Fraction(v)) for v in case["y"]]),
        "None" if case.get("X") is None else "(Some %s)" % clist([cq(Fraction(v))
                                                                  for v in case["X"]]),
        "Refit" if case["strategy"] == "refit" else "UpdateS", c07.MSPEC[metric],
        cbool(GIB.get(case["metric"], False)),
        "%s %s" % (c_base(case["base"]), clist([c_pa(case["base"], p) for p in cands])),
        cbool(case["refit"]), czlist(fitfh), _c_script(case))


def coq_case(case, out):
    if case.get("fit_params"):
        return None        # the Coq model of the search has no fit keywords (C07 owns them)
    if "err" in out:
        # the candidate list of a rejected search is the grid (never evaluated)
        cands = grid_order(case["grid"])
        if any(decode(case["base"], p) is None for p in cands):
            return None
        return "CTune %s None" % _c_args(case, cands)
    if any(decode(case["base"], p) is None for p in out["params"]):
        return None
    vals = out["means"] + out["ranks"] + [out["best_score"]]
    if any(v is None or isinstance(v, str) for v in vals):
        return None
    for a in out["answers"]:
        if "series" in a and any(v is None or isinstance(v, str) for _, v in a["series"]):
            return None
    try:
        cand = out["params"].index(out["best_params"])
    except ValueError:
        cand = -1
    if out["params"][out["best_index"]] == out["best_params"] if \
            0 <= out["best_index"] < len(out["params"]) else False:
        cand = out["best_index"]
    im = "(mkimpl %s %s %s %s %s %s)" % (
        clist([cq(v) for v in out["means"]]), clist([cq(v) for v in out["ranks"]]),
        cz(out["best_index"]), cq(out["best_score"]), cz(cand),
        clist([_c_answer(a) for a in out["answers"]]))
    return "CTune %s (Some %s)" % (_c_args(case, out["params"]), im)


def coq_model_term(case):
    return "model_tune %s" % _c_args(case, grid_order(case["grid"]))


def distribution(cases, results):
    import collections
    d = collections.Counter()
    for c, r in zip(cases, results):
        o = r.get("out") or {}
        d["%s:%s" % (c["fam"], "rejected" if "err" in o else "accepted")] += 1
        if "means" in o:
            d["search=%s" % c["search"]] += 1
            if c["search"] == "random":
                d["random_state=%s" % c.get("rs", "int")] += 1
                d["scipy-distribution=%s" % _has_dist(c["grid"])] += 1
            d["space=%s" % c.get("form", "dict")] += 1
            d["prior-search=%s" % c.get("prior")] += 1
            d["base-forecaster-object=%s" % (c.get("base_state") or "fresh")] += 1
            d["fit-keywords=%s" % bool(c.get("fit_params"))] += 1
            d["fit-horizon=%s" % ("none" if c["fit_fh"] is None else
                                  "absolute" if c.get("fit_fh_abs") else "relative")] += 1
            d["tuner-script=%s" % c["script"].get("kind", "classic")] += 1
            d["update_params=%s" % c["script"].get("update_params", True)] += 1
            keysets = set(tuple(sorted(p)) for p in o["params"])
            d["candidates-name-different-parameters=%s" % (len(keysets) > 1)] += 1
            d["empty-dict-candidate=%s" % ({} in o["params"])] += 1
            d["candidates=%s" % min(len(o["means"]), 8)] += 1
            d["metric=%s" % c["metric"]] += 1
            d["refit=%s" % c["refit"]] += 1
            d["strategy=%s" % c["strategy"]] += 1
            best = o["means"][o["best_index"]] if 0 <= o["best_index"] < len(o["means"]) else None
            d["tie-for-best=%s" % (o["means"].count(best) > 1)] += 1
            d["best-is-first=%s" % (o["best_index"] == 0)] += 1
    return dict(d)
