"""C09 - composite forecasters mean exactly the composition of their parts.

The real EnsembleForecaster / TransformedTargetForecaster / MultiplexForecaster / StackingForecaster
are built from RECORDING TEST DOUBLES (subclasses of sktime's own base classes, defined below) and
from recording subclasses of real leaves (NaiveForecaster, Detrender, Deseasonalizer).  Every inner
estimator logs each call it receives with its payload.  Per case the driver returns, for the step
fit+predict and for every step update+predict, the forecast and the trace of the REAL composite,
and the same for a REFERENCE: the parts run standalone and composed by the property's definition
(`_Ref*` classes).  The oracle compares the two; Coq recomputes both forecast and trace with the
model of coq/C09/Model.v for every case built from modelled parts.
"""
from harness.core import cbool, clist, cq, cz, czlist, float_ratio

ID = "C09"
MODEL_TARGETS = ["C09/Cases.vo"]
PROOF_TARGETS = ["C09/Proofs.vo", "C09/SiteLib.vo", "C09/Site.vo", "C09/Bridge.vo"]
OBLIGATION_FILES = ["C09/Bridge.v"]
PROPS_FILE = "C09/Props.v"
SHARD = 60
PER_CASE_TIMEOUT = 120
RULE = ("random compositions of depth 1 and 2 over {ensemble(mean/median/min/max), transformed-target "
        "pipeline (0-3 affine transformer doubles, skip-inverse / no-update variants), multiplexer, "
        "stacking} with recording leaf doubles and recording NaiveForecaster(last/mean) leaves; series "
        "of 4-10 points on consecutive integer times (several origins), relative horizons inside 1..3, "
        "0-3 updates (consecutive and overlapping batches, update_params True/False), forecast taken "
        "after fit and after every update; histories on ONE composite object: fit (+updates) as first "
        "configured, one part reconfigured in place at any depth (nested set_params, component "
        "replaced by set_params(name=new), component list reassigned), fit again (+updates), "
        "compared with the composition as configured NOW; in ~30% of the histories the horizon is "
        "(also) handed over at predict (none / another one at fit, changing from predict to predict; "
        "a stacking forecaster keeps the one of its fit); plus pipelines over the real Detrender / Deseasonalizer "
        "(oracle only). non-trivial = composite ran without error, forecast not constant zero and "
        "at least one inner event recorded; distinct = distinct canonical JSON case")
TRUSTED = [
    "coq/C09/SiteLib.v: the vocabulary the regenerated Site.v is written in (what a call to an inner "
    "estimator means in the model's terms: its state change + the event it records; pandas "
    "concat(axis=1) / <reduction>(axis) / np.column_stack / pd.Series / iloc / .values; the first "
    "split of SingleWindowSplitter on positions) and the translators translator/compose_c09.py, "
    "translator/fcskel.py (fail closed; checked against the source on every run)",
    "the recording test doubles in props/c09.py (RecF, RecNaive, RecT*, RecReg, RecDetrender, "
    "RecDeseasonalizer): their logging is what 'data received by inner estimators' means here",
    "the reference composition (_Ref* classes in props/c09.py): the Python restatement of the "
    "theorems' right-hand sides, run on standalone copies of the same parts",
]
MODELLED = [
    "REGENERATED on every run and proved equal to coq/C09/Model.v for all arguments (C09/Bridge.v): the "
    "statement skeleton of _fit_forecasters / _predict_forecasters (base/_meta.py), of "
    "EnsembleForecaster.fit / update / _predict (incl. the aggfunc -> pandas reduction(axis) dispatch), "
    "TransformedTargetForecaster fit / _predict / update / transform / inverse_transform (the steps "
    "iterated over directly or through the private generator _iter_transformers, inlined), "
    "MultiplexForecaster._check_selected_forecaster / _set_forecaster / fit / update / "
    "_predict, StackingForecaster.fit / update / _predict, and _set_y_X / _update_y_X (with _set_cutoff inlined) of "
    "base/_sktime.py; call arguments bound by name against the API signatures read from "
    "forecasting/base/_base.py and transformations/base.py",
    "in the regenerated text a member forecaster is an abstract object (M_fit / M_update / M_predict); "
    "Bridge.v ties the knot with the model's own recursive fit / update / predict; the horizon a "
    "composite hands to member.predict is checked by the translator (the fh slot receives fh, or None "
    "in the stacking forecaster) but not carried into Gallina (the model's horizon is fixed at fit)",
    "leaf semantics are abstract in the theorems (Section variables lfit/lpred/tfit/tupd/tapp/tinv/"
    "rfit/rpred); the concrete instance used for the correspondence models only the doubles and "
    "NaiveForecaster(strategy last / mean, sp=1)",
    "pipelines over the real Detrender / Deseasonalizer are checked by the oracle against the "
    "standalone parts only (their numerics are not modelled in Coq)",
    "a leaf forecaster is modelled as a _SktimeForecaster with the inherited refit-on-update; the "
    "hold-out split of StackingForecaster is modelled on positions (firstn / nth), tied to "
    "SingleWindowSplitter by the correspondence (meta rows and member training data are compared)",
    "series live on consecutive integer time indices; fh is relative, sorted, passed at fit; X=None; "
    "prediction intervals, n_jobs != None and fit_params of the multiplexer are out of scope",
    "OnlineEnsembleForecaster is not modelled",
]
NOT_RUNNABLE = []

AGGS = ["mean", "median", "min", "max"]


def translate(repo):
    """regenerate build/coq/C09/Site.v from compose/_ensemble, _pipeline, _multiplexer, _stack,
    base/_meta and the own-data methods of base/_sktime (fail closed)"""
    from translator import compose_c09
    return compose_c09.translate(repo)

# ------------------------------------------------------------------------------------------------
# recording doubles (created lazily: sktime is only importable inside the driver)

_LOG = []
_K = {}


def _ser(s):
    return [[int(t), float_ratio(v)] for t, v in s.items()]


def _classes():
    if _K:
        return _K
    import numpy as np
    import pandas as pd
    from sklearn.base import BaseEstimator, RegressorMixin
    from sktime.forecasting.base._base import DEFAULT_ALPHA
    from sktime.forecasting.base._sktime import (_OptionalForecastingHorizonMixin,
                                                 _SktimeForecaster)
    from sktime.forecasting.naive import NaiveForecaster
    from sktime.transformations.base import _SeriesToSeriesTransformer
    from sktime.transformations.series.detrend import Deseasonalizer, Detrender

    class RecF(_OptionalForecastingHorizonMixin, _SktimeForecaster):
        """forecast(h) = a * sum(data at last fit) + remembered value at the cutoff + k * h.
        `update` is the one inherited from _SktimeForecaster (merge, move cutoff, refit)."""

        def __init__(self, g=0, a=1, k=0):
            self.g = g
            self.a = a
            self.k = k
            super(RecF, self).__init__()

        def fit(self, y, X=None, fh=None):
            _LOG.append(["refit" if getattr(self, "_in_update", False) else "fit", self.g, _ser(y)])
            self._set_y_X(y, X)
            self._set_fh(fh)
            self.p_ = float(y.sum())
            self._is_fitted = True
            return self

        def update(self, y, X=None, update_params=True):
            _LOG.append(["update", self.g, _ser(y), bool(update_params)])
            self._in_update = True
            try:
                return super(RecF, self).update(y, X, update_params=update_params)
            finally:
                self._in_update = False

        def _predict(self, fh, X=None, return_pred_int=False, alpha=DEFAULT_ALPHA):
            rel = [int(h) for h in fh.to_relative(self.cutoff).to_pandas()]
            idx = fh.to_absolute(self.cutoff).to_pandas()
            _LOG.append(["predict", self.g, int(self.cutoff), rel])
            m = float(self._y.loc[self.cutoff])
            return pd.Series([self.a * self.p_ + m + self.k * h for h in rel], index=idx)

    class RecNaive(NaiveForecaster):
        def __init__(self, strategy="last", window_length=None, sp=1, g=0):
            self.g = g
            super(RecNaive, self).__init__(strategy=strategy, window_length=window_length, sp=sp)

        def fit(self, y, X=None, fh=None):
            _LOG.append(["refit" if getattr(self, "_in_update", False) else "fit", self.g, _ser(y)])
            return super(RecNaive, self).fit(y, X, fh)

        def update(self, y, X=None, update_params=True):
            _LOG.append(["update", self.g, _ser(y), bool(update_params)])
            self._in_update = True
            try:
                return super(RecNaive, self).update(y, X, update_params=update_params)
            finally:
                self._in_update = False

        def _predict(self, fh, X=None, return_pred_int=False, alpha=DEFAULT_ALPHA):
            rel = [int(h) for h in fh.to_relative(self.cutoff).to_pandas()]
            _LOG.append(["predict", self.g, int(self.cutoff), rel])
            return super(RecNaive, self)._predict(fh, X, return_pred_int=return_pred_int,
                                                  alpha=alpha)

    class RecTNoUpd(_SeriesToSeriesTransformer):
        """exact affine map v -> a*v + b + c + tg*t (t the time stamp); c is fitted (first value
        seen at fit).  a is a power of two so the inverse is exact.  No `update` method."""
        _tags = {"transform-returns-same-time-index": True, "univariate-only": True}

        def __init__(self, g=0, an=1, ad=1, b=0, tg=0):
            self.g = g
            self.an = an
            self.ad = ad
            self.b = b
            self.tg = tg
            super(RecTNoUpd, self).__init__()

        def fit(self, Z, X=None):
            _LOG.append(["tfit", self.g, _ser(Z)])
            self.c_ = float(Z.iloc[0])
            self._is_fitted = True
            return self

        def _t(self, Z):
            return pd.Series(np.asarray(Z.index, dtype=float), index=Z.index)

        def transform(self, Z, X=None):
            self.check_is_fitted()
            _LOG.append(["transform", self.g, _ser(Z)])
            return (self.an / self.ad) * Z + self.b + self.c_ + self.tg * self._t(Z)

        def inverse_transform(self, Z, X=None):
            self.check_is_fitted()
            _LOG.append(["inverse", self.g, _ser(Z)])
            return (Z - self.b - self.c_ - self.tg * self._t(Z)) / (self.an / self.ad)

    class RecT(RecTNoUpd):
        def update(self, Z, X=None, update_params=True):
            _LOG.append(["tupdate", self.g, _ser(Z), bool(update_params)])
            if update_params:
                self.c_ = self.c_ + len(Z)
            return self

    skip_tags = {"transform-returns-same-time-index": True, "univariate-only": True,
                 "skip-inverse-transform": True}

    class RecTSkip(RecT):
        _tags = skip_tags

    class RecTSkipNoUpd(RecTNoUpd):
        _tags = skip_tags

    class RecReg(RegressorMixin, BaseEstimator):
        """bias = sum(y) - sum(X[:, 0]); predict(row) = sum_j (j+1) * row[j] + bias"""

        def __init__(self, g=0):
            self.g = g

        def fit(self, X, y):
            X = np.asarray(X, dtype=float)
            y = np.asarray(y, dtype=float)
            _LOG.append(["rfit", self.g, [[float_ratio(v) for v in r] for r in X],
                         [float_ratio(v) for v in y]])
            self.bias_ = float(y.sum() - X[:, 0].sum())
            return self

        def predict(self, X):
            X = np.asarray(X, dtype=float)
            _LOG.append(["rpredict", self.g, [[float_ratio(v) for v in r] for r in X]])
            w = np.arange(1, X.shape[1] + 1, dtype=float)
            return X @ w + self.bias_

    def _rec_transformer(base):
        class Rec(base):
            def fit(self, Z, X=None):
                _LOG.append(["tfit", self.g, _ser(Z)])
                return super(Rec, self).fit(Z, X)

            def transform(self, Z, X=None):
                _LOG.append(["transform", self.g, _ser(Z)])
                return super(Rec, self).transform(Z, X)

            def inverse_transform(self, Z, X=None):
                _LOG.append(["inverse", self.g, _ser(Z)])
                return super(Rec, self).inverse_transform(Z, X)

            def update(self, Z, X=None, update_params=True):
                _LOG.append(["tupdate", self.g, _ser(Z), bool(update_params)])
                return super(Rec, self).update(Z, X, update_params=update_params)
        return Rec

    class RecDetrender(_rec_transformer(Detrender)):
        def __init__(self, forecaster=None, g=0):
            self.g = g
            super(RecDetrender, self).__init__(forecaster=forecaster)

    class RecDeseasonalizer(_rec_transformer(Deseasonalizer)):
        def __init__(self, sp=1, model="additive", g=0):
            self.g = g
            super(RecDeseasonalizer, self).__init__(sp=sp, model=model)

    _K.update(RecF=RecF, RecNaive=RecNaive, RecT=RecT, RecTNoUpd=RecTNoUpd, RecTSkip=RecTSkip,
              RecTSkipNoUpd=RecTSkipNoUpd, RecReg=RecReg, RecDetrender=RecDetrender,
              RecDeseasonalizer=RecDeseasonalizer)
    return _K


def build_transformer(ts):
    K = _classes()
    if ts["t"] == "aff":
        cls = K[{(False, True): "RecT", (False, False): "RecTNoUpd", (True, True): "RecTSkip",
                 (True, False): "RecTSkipNoUpd"}[(bool(ts["skip"]), bool(ts["upd"]))]]
        return cls(g=ts["g"], an=ts["a"][0], ad=ts["a"][1], b=ts["b"], tg=ts["tg"])
    if ts["t"] == "detrend":
        return K["RecDetrender"](g=ts["g"])
    if ts["t"] == "deseason":
        return K["RecDeseasonalizer"](sp=ts["sp"], g=ts["g"])
    raise AssertionError(ts)


def build_leaf(spec):
    K = _classes()
    if spec["t"] == "rec":
        return K["RecF"](g=spec["g"], a=spec["a"], k=spec["k"])
    if spec["t"] == "naive":
        return K["RecNaive"](strategy=spec["strategy"], window_length=spec["wl"], g=spec["g"])
    raise AssertionError(spec)


def build(spec):
    """the REAL composite for a spec"""
    from sktime.forecasting.compose import (EnsembleForecaster, MultiplexForecaster,
                                            StackingForecaster, TransformedTargetForecaster)
    t = spec["t"]
    if t in ("rec", "naive"):
        return build_leaf(spec)
    if t == "ens":
        return EnsembleForecaster([("m%d" % i, build(m)) for i, m in enumerate(spec["ms"])],
                                  aggfunc=spec["agg"])
    if t == "pipe":
        steps = [("t%d" % i, build_transformer(x)) for i, x in enumerate(spec["ts"])]
        return TransformedTargetForecaster(steps + [("f", build(spec["f"]))])
    if t == "mux":
        return MultiplexForecaster([("m%d" % i, build(m)) for i, m in enumerate(spec["ms"])],
                                   selected_forecaster="m%d" % spec["sel"])
    if t == "stack":
        return StackingForecaster([("m%d" % i, build(m)) for i, m in enumerate(spec["ms"])],
                                  final_regressor=_classes()["RecReg"](g=spec["g"]))
    raise AssertionError(spec)


# ------------------------------------------------------------------------------------------------
# reference: the parts run standalone, composed by the property's definition


def _agg(name, vals):
    import math
    v = sorted(vals)
    n = len(v)
    if name == "mean":
        return math.fsum(v) / n
    if name == "median":
        return v[n // 2] if n % 2 else (v[n // 2 - 1] + v[n // 2]) / 2.0
    return v[0] if name == "min" else v[-1]


class _RefLeaf:
    def __init__(self, spec):
        self.e = build_leaf(spec)

    def fit(self, y, fh):
        self.e.fit(y, fh=fh)

    def update(self, y, up):
        self.e.update(y, update_params=up)

    def predict(self, fh=None):
        return self.e.predict(fh)


class _RefEns:
    """aggregate, pointwise, of members each fitted / updated on the same data independently"""

    def __init__(self, spec):
        self.agg = spec["agg"]
        self.ms = [ref(m) for m in spec["ms"]]

    def fit(self, y, fh):
        for m in self.ms:
            m.fit(y, fh)

    def update(self, y, up):
        for m in self.ms:
            m.update(y, up)

    def predict(self, fh=None):
        import pandas as pd
        ps = [m.predict(fh) for m in self.ms]
        return pd.Series([_agg(self.agg, [float(p.iloc[i]) for p in ps])
                          for i in range(len(ps[0]))], index=ps[0].index)


class _RefPipe:
    """transformers fitted in order on the running transform, final forecaster on the fully
    transformed series, inverse transforms in reverse order skipping the tagged ones; at update each
    step receives the data as transformed by the steps before it"""

    def __init__(self, spec):
        self.ts = [build_transformer(x) for x in spec["ts"]]
        self.skip = [x.get("skip", False) for x in spec["ts"]]
        self.f = ref(spec["f"])

    def fit(self, y, fh):
        yt = y
        for t in self.ts:
            t.fit(yt)
            yt = t.transform(yt)
        self.f.fit(yt, fh)

    def update(self, y, up):
        yt = y
        for t in self.ts:
            if hasattr(t, "update"):
                t.update(yt, update_params=up)
            yt = t.transform(yt)
        self.f.update(yt, up)

    def predict(self, fh=None):
        yp = self.f.predict(fh)
        for t, s in reversed(list(zip(self.ts, self.skip))):
            if not s:
                yp = t.inverse_transform(yp)
        return yp


class _RefMux:
    """exactly the selected member"""

    def __init__(self, spec):
        self.m = ref(spec["ms"][spec["sel"]])

    def fit(self, y, fh):
        self.m.fit(y, fh)

    def update(self, y, up):
        self.m.update(y, up)

    def predict(self, fh=None):
        return self.m.predict(fh)


class _RefStack:
    """meta rows = member forecasts for the last max(fh) window by members fitted strictly before
    it; members then refitted on all data; forecast = meta regressor on member forecasts"""

    def __init__(self, spec):
        self.spec = spec
        self.reg = _classes()["RecReg"](g=spec["g"])

    def fit(self, y, fh):
        import numpy as np
        k = max(fh)
        n = len(y)
        held = [ref(m) for m in self.spec["ms"]]
        for m in held:
            m.fit(y.iloc[:n - k], fh)
        X = np.column_stack([m.predict().values for m in held])
        ymeta = np.array([float(y.iloc[n - k - 1 + h]) for h in fh])
        self.reg.fit(X, ymeta)
        self.ms = [ref(m) for m in self.spec["ms"]]
        for m in self.ms:
            m.fit(y, fh)
        self.fh = list(fh)
        self.cut = int(y.index[-1])

    def update(self, y, up):
        for m in self.ms:
            m.update(y, up)
        if len(y):
            self.cut = int(y.index[-1])

    def predict(self, fh=None):
        # the horizon of a stacking forecaster is the one of its fit (generated: fh None or equal)
        import numpy as np
        import pandas as pd
        X = np.column_stack([m.predict().values for m in self.ms])
        return pd.Series(self.reg.predict(X), index=[self.cut + h for h in self.fh])


def ref(spec):
    return {"rec": _RefLeaf, "naive": _RefLeaf, "ens": _RefEns, "pipe": _RefPipe, "mux": _RefMux,
            "stack": _RefStack}[spec["t"]](spec)


# ------------------------------------------------------------------------------------------------
# running a case


def _series(t0, vals):
    import pandas as pd
    return pd.Series([float(v) for v in vals], index=pd.RangeIndex(t0, t0 + len(vals)))


def _history(obj, case, is_ref):
    """fit+predict, then update+predict per batch; returns the list of steps.  `case` is any dict
    with t0 / y / fh / ups (the case itself, or its "pre" phase)"""
    steps = []
    y = _series(case["t0"], case["y"])
    fh = None if case["fh"] is None else list(case["fh"])
    pf = case.get("pfh") or [None] * (1 + len(case["ups"]))

    def snap(p):
        tr = list(_LOG)
        del _LOG[:]
        return {"pred": _ser(p), "trace": tr}

    del _LOG[:]
    if is_ref:
        obj.fit(y, fh)
        steps.append(snap(obj.predict(pf[0])))
    else:
        obj.fit(y, fh=fh)
        steps.append(snap(obj.predict(pf[0])))
        steps[-1]["cutoff"] = int(obj.cutoff)
    for i, (t0, vals, up) in enumerate(case["ups"]):
        b = _series(t0, vals)
        if is_ref:
            obj.update(b, bool(up))
        else:
            obj.update(b, update_params=bool(up))
        steps.append(snap(obj.predict(pf[i + 1])))
        if not is_ref:
            steps[-1]["cutoff"] = int(obj.cutoff)
    return steps


_ERRS = (ValueError, TypeError, NotImplementedError, KeyError, IndexError, AttributeError,
         ZeroDivisionError)

_LEAF_PARAMS = {"rec": [("g", "g"), ("a", "a"), ("k", "k")],
                "naive": [("g", "g"), ("strategy", "strategy"), ("wl", "window_length")]}


def _tkey(x):
    return (x["t"], bool(x.get("skip")), bool(x.get("upd")))


def _diff(s0, s1, prefix, acc):
    """the set_params assignments (nested `name__param=value` where the part keeps its class,
    `name=new estimator` otherwise) that turn a composite configured as s0 into s1; False when the
    part itself has to be replaced"""
    t = s1["t"]
    if s0["t"] != t:
        return False
    if t in _LEAF_PARAMS:
        for k, p in _LEAF_PARAMS[t]:
            if s0[k] != s1[k]:
                acc[prefix + p] = s1[k]
        return True
    if t == "pipe":
        if len(s0["ts"]) != len(s1["ts"]):
            return False
        for i, (x0, x1) in enumerate(zip(s0["ts"], s1["ts"])):
            if x0 == x1:
                continue
            if _tkey(x0) == _tkey(x1) and x1["t"] == "aff":
                for k, v0, v1 in (("g", x0["g"], x1["g"]), ("an", x0["a"][0], x1["a"][0]),
                                  ("ad", x0["a"][1], x1["a"][1]), ("b", x0["b"], x1["b"]),
                                  ("tg", x0["tg"], x1["tg"])):
                    if v0 != v1:
                        acc["%st%d__%s" % (prefix, i, k)] = v1
            else:
                acc["%st%d" % (prefix, i)] = build_transformer(x1)
        kids = [("f", s0["f"], s1["f"])]
    else:
        if len(s0["ms"]) != len(s1["ms"]):
            return False
        if t == "ens" and s0["agg"] != s1["agg"]:
            acc[prefix + "aggfunc"] = s1["agg"]
        if t == "mux" and s0["sel"] != s1["sel"]:
            acc[prefix + "selected_forecaster"] = "m%d" % s1["sel"]
        if t == "stack" and s0["g"] != s1["g"]:
            acc[prefix + "final_regressor__g"] = s1["g"]
        kids = [("m%d" % i, a, b) for i, (a, b) in enumerate(zip(s0["ms"], s1["ms"]))]
    for name, c0, c1 in kids:
        if c0 == c1:
            continue
        sub = {}
        if _diff(c0, c1, prefix + name + "__", sub):
            acc.update(sub)
        else:
            acc[prefix + name] = build(c1)
    return True


def reconfigure(obj, s0, s1, mode):
    """bring the SAME composite object from configuration s0 to s1 through the public parameter
    interface: `nested` = minimal nested set_params, `replace` = every changed direct component
    replaced by a new estimator (set_params(<name>=new)), `assign` = the component list attribute
    reassigned"""
    t = s1["t"]
    acc = {}
    if mode == "nested" and _diff(s0, s1, "", acc):
        if acc:
            obj.set_params(**acc)
        return
    if mode == "replace" and s0["t"] == t and t != "pipe" and len(s0["ms"]) == len(s1["ms"]):
        top = {}
        _diff(dict(s0, ms=s1["ms"]), s1, "", top)          # the composite's own parameters
        for i, (c0, c1) in enumerate(zip(s0["ms"], s1["ms"])):
            if c0 != c1:
                top["m%d" % i] = build(c1)
        if top:
            obj.set_params(**top)
        return
    if mode == "replace" and s0["t"] == t == "pipe" and len(s0["ts"]) == len(s1["ts"]):
        top = {}
        for i, (x0, x1) in enumerate(zip(s0["ts"], s1["ts"])):
            if x0 != x1:
                top["t%d" % i] = build_transformer(x1)
        if s0["f"] != s1["f"]:
            top["f"] = build(s1["f"])
        if top:
            obj.set_params(**top)
        return
    # assign: a freshly built list of components put on the same object
    new = build(s1)
    if type(new) is not type(obj):
        raise AssertionError("reconfiguration keeps the composite's class")
    for k, v in new.get_params(deep=False).items():
        setattr(obj, k, v)


def run_impl(case):
    import warnings
    warnings.simplefilter("ignore")
    out = {}
    pre = case.get("pre")
    try:
        if pre:
            obj = build(pre["spec"])
            out["pre_impl"] = _history(obj, pre, False)
            reconfigure(obj, pre["spec"], case["spec"], pre["mode"])
        else:
            obj = build(case["spec"])
        out["impl"] = _history(obj, case, False)
    except _ERRS as e:
        out.pop("impl", None)
        out["impl_err"] = "%s: %s" % (type(e).__name__, str(e)[:200])
    try:
        if pre:
            out["pre_ref"] = _history(ref(pre["spec"]), pre, True)
        out["ref"] = _history(ref(case["spec"]), case, True)
    except _ERRS as e:
        out.pop("ref", None)
        out["ref_err"] = "%s: %s" % (type(e).__name__, str(e)[:200])
    del _LOG[:]
    return out


# ------------------------------------------------------------------------------------------------
# oracle


def _fr(x):
    from fractions import Fraction
    if x is None:
        return None
    if isinstance(x, str):
        return x
    return Fraction(x[0], x[1])


def _close(a, b):
    a, b = _fr(a), _fr(b)
    if a is None or b is None or isinstance(a, str) or isinstance(b, str):
        return a == b
    return abs(a - b) <= (1 + abs(a)) / 10 ** 9


def _ser_close(a, b):
    return len(a) == len(b) and all(x[0] == y[0] and _close(x[1], y[1]) for x, y in zip(a, b))


def _mat_close(a, b):
    return len(a) == len(b) and all(
        len(r) == len(s) and all(_close(x, y) for x, y in zip(r, s)) for r, s in zip(a, b))


def _ev_close(a, b):
    if a[0] != b[0] or a[1] != b[1]:
        return False
    k = a[0]
    if k in ("fit", "refit", "tfit", "transform", "inverse"):
        return _ser_close(a[2], b[2])
    if k in ("update", "tupdate"):
        return _ser_close(a[2], b[2]) and a[3] == b[3]
    if k == "predict":
        return a[2] == b[2] and a[3] == b[3]
    if k == "rfit":
        return _mat_close(a[2], b[2]) and _mat_close([a[3]], [b[3]])
    if k == "rpredict":
        return _mat_close(a[2], b[2])
    return False


def _roles(spec, role, acc):
    """tag -> role of the estimator carrying it (who its direct parent composite is)"""
    t = spec["t"]
    if t in ("rec", "naive"):
        acc[spec["g"]] = role
    elif t == "pipe":
        for x in spec["ts"]:
            acc[x["g"]] = "pipeline-transformer"
        _roles(spec["f"], "pipeline-final", acc)
    elif t == "ens":
        for m in spec["ms"]:
            _roles(m, "ensemble-member", acc)
    elif t == "mux":
        for m in spec["ms"]:
            _roles(m, "multiplexer-member", acc)
    elif t == "stack":
        acc[spec["g"]] = "stack-meta"
        for m in spec["ms"]:
            _roles(m, "stack-member", acc)
    return acc


_EVENT_CLAUSE = {
    ("pipeline-final", "fit"): "pipeline-final-fitted-on-other-than-fully-transformed-series",
    ("pipeline-final", "update"): "pipeline-final-updated-with-other-than-transformed-data",
    ("pipeline-final", "refit"): "pipeline-final-updated-with-other-than-transformed-data",
    ("pipeline-transformer", "tfit"): "pipeline-transformer-not-fitted-on-running-transform",
    ("pipeline-transformer", "transform"): "pipeline-transformer-not-given-running-transform",
    ("pipeline-transformer", "tupdate"): "pipeline-transformer-not-updated-with-running-transform",
    ("pipeline-transformer", "inverse"): "pipeline-inverse-transforms-not-reverse-order-skipping",
    ("stack-meta", "rfit"): "stack-meta-not-trained-on-holdout-forecasts",
    ("stack-meta", "rpredict"): "stack-meta-not-given-member-forecasts",
    ("stack-member", "fit"): "stack-members-not-fitted-before-holdout-then-on-all-data",
    ("multiplexer-member", "fit"): "multiplexer-not-selected-member",
    ("multiplexer-member", "update"): "multiplexer-not-selected-member",
    ("ensemble-member", "fit"): "ensemble-member-not-fitted-independently-on-same-data",
    ("ensemble-member", "update"): "ensemble-member-not-updated-with-same-data",
}
_FORECAST_CLAUSE = {
    "ens": "ensemble-forecast-not-aggregate-of-members",
    "pipe": "pipeline-forecast-not-inverse-chain-of-final-forecast",
    "mux": "multiplexer-forecast-not-selected-member",
    "stack": "stack-forecast-not-meta-of-member-forecasts",
}


def _paths(spec, path, acc):
    """tag -> tuple of composite kinds from the top composite down to the direct parent"""
    t = spec["t"]
    here = path + (t,)
    if t in ("rec", "naive"):
        acc[spec["g"]] = path
    elif t == "pipe":
        for x in spec["ts"]:
            acc[x["g"]] = here
        _paths(spec["f"], here, acc)
    else:
        if t == "stack":
            acc[spec["g"]] = here
        for i, m in enumerate(spec["ms"]):
            _paths(m, here + (i,), acc)
    return acc


_STRUCT_CLAUSE = {
    "ens": "ensemble-members-not-each-run-once-in-order-on-their-own",
    "pipe": "pipeline-steps-not-called-in-chain-order",
    "mux": "multiplexer-not-selected-member",
    "stack": "stack-members-and-meta-not-called-as-holdout-fit-then-refit",
}


def _blame(case, ea, eb):
    roles = _roles(case["spec"], "top", {})
    if ea is not None and eb is not None and (ea[0], ea[1]) == (eb[0], eb[1]):
        # same call, different payload: blame the composite that handed the data over
        return _EVENT_CLAUSE.get((roles.get(ea[1], "?"), ea[0]), "inner-estimator-call-differs")
    # different calls: blame the innermost composite containing both estimators
    paths = _paths(case["spec"], (), {})
    pa = paths.get(ea[1], ()) if ea is not None else None
    pb = paths.get(eb[1], ()) if eb is not None else None
    if pa is None or pb is None:
        common = pa if pb is None else pb
    else:
        common = ()
        for x, y in zip(pa, pb):
            if x != y:
                break
            common += (x,)
    kinds = [k for k in common if isinstance(k, str)]
    return _STRUCT_CLAUSE.get(kinds[-1] if kinds else case["spec"]["t"],
                              "inner-estimator-call-differs")


def oracle(case, out):
    if "impl_err" in out:
        if "ref_err" in out:
            return None          # the parts themselves refuse this input
        return "composite-raised-where-parts-compose: %s" % out["impl_err"]
    if "ref_err" in out:
        return "composite-accepted-where-parts-raise: %s" % out["ref_err"]
    if case.get("pre"):
        r = _compare(case["pre"], out["pre_impl"], out["pre_ref"], "")
        if r:
            return r
        return _compare(case, out["impl"], out["ref"],
                        "same object reconfigured (%s) and fitted again, " % case["pre"]["mode"])
    return _compare(case, out["impl"], out["ref"], "")


def _compare(case, impl, refsteps, pfx):
    for i, (a, b) in enumerate(zip(impl, refsteps)):
        what = pfx + ("after fit" if i == 0 else "after update %d" % i)
        ta, tb = a["trace"], b["trace"]
        for j in range(max(len(ta), len(tb))):
            ea = ta[j] if j < len(ta) else None
            eb = tb[j] if j < len(tb) else None
            if ea is None or eb is None or not _ev_close(ea, eb):
                return "%s: %s, event %d: composite sent %s, composition of parts sends %s" % (
                    _blame(case, ea, eb), what, j, _show(ea), _show(eb))
        if not _ser_close(a["pred"], b["pred"]):
            return "%s: %s: composite %s, parts %s" % (
                _FORECAST_CLAUSE[case["spec"]["t"]], what, _show_ser(a["pred"]),
                _show_ser(b["pred"]))
    return None


def _show_ser(s):
    return [[t, (float(_fr(v)) if v is not None else None)] for t, v in s]


def _show(e):
    if e is None:
        return "nothing"
    r = [e[0], e[1]]
    for x in e[2:]:
        if isinstance(x, list) and x and isinstance(x[0], list) and len(x[0]) == 2 \
                and isinstance(x[0][0], int) and isinstance(x[0][1], (list, type(None))):
            r.append(_show_ser(x))
        else:
            r.append(x)
    return str(r)[:300]


def nontrivial(case, out):
    if "impl" not in out:
        return False
    return all(s["trace"] for s in out["impl"]) and any(
        v is not None and v[0] != 0 for s in out["impl"] for _, v in s["pred"])


# ------------------------------------------------------------------------------------------------
# generators


class _Tags:
    def __init__(self):
        self.n = 0

    def new(self):
        self.n += 1
        return self.n


def _gen_leaf(rng, tags, n):
    if rng.random() < 0.7:
        return {"t": "rec", "g": tags.new(), "a": rng.choice([0, 1, 1, 2, -1]),
                "k": rng.choice([0, 1, 1, 2, -1])}
    if rng.random() < 0.5:
        return {"t": "naive", "g": tags.new(), "strategy": "last", "wl": None}
    return {"t": "naive", "g": tags.new(), "strategy": "mean",
            "wl": rng.choice([None, 1, 2, 2, 3])}


def _gen_aff(rng, tags):
    return {"t": "aff", "g": tags.new(), "a": rng.choice([[1, 1], [2, 1], [4, 1], [-2, 1], [1, 2]]),
            "b": rng.choice([0, 1, 3, -2]), "tg": rng.choice([0, 0, 1]),
            "skip": rng.random() < 0.25, "upd": rng.random() < 0.8}


def _gen_spec(rng, tags, depth, n, kind=None, allow_stack=True):
    kinds = ["ens", "pipe", "mux"] + (["stack"] if allow_stack else [])
    kind = kind or rng.choice(kinds)

    def child():
        if depth > 1 and rng.random() < 0.45:
            return _gen_spec(rng, tags, depth - 1, n, allow_stack=allow_stack)
        return _gen_leaf(rng, tags, n)

    if kind == "ens":
        return {"t": "ens", "agg": rng.choice(AGGS),
                "ms": [child() for _ in range(rng.choice([1, 2, 2, 3, 3, 4]))]}
    if kind == "pipe":
        return {"t": "pipe", "ts": [_gen_aff(rng, tags) for _ in range(rng.choice([0, 1, 2, 2, 3]))],
                "f": child()}
    if kind == "mux":
        ms = [child() for _ in range(rng.choice([1, 2, 3, 3]))]
        return {"t": "mux", "sel": rng.randrange(len(ms)), "ms": ms}
    ms = [child() for _ in range(rng.choice([1, 2, 2, 3]))]
    return {"t": "stack", "g": tags.new(), "ms": ms}


def _has(spec, t):
    if spec["t"] == t:
        return True
    if spec["t"] == "pipe":
        return _has(spec["f"], t)
    return any(_has(m, t) for m in spec.get("ms", []))


def _gen_values(rng, n):
    if rng.random() < 0.2:
        return [rng.randint(0, 18) / 2.0 for _ in range(n)]
    return [rng.randint(0, 9) for _ in range(n)]


def _gen_ups(rng, end, allow_overlap=True):
    ups = []
    for _ in range(rng.choice([0, 1, 1, 2, 2, 3])):
        ln = rng.choice([1, 1, 2, 3])
        r = rng.random()
        if allow_overlap and r < 0.3:
            o = rng.choice([1, 2])
            start = end + 1 - o                         # overlaps the remembered data
            ln = max(ln, o)                             # ... but still ends at or after its end
        else:
            start = end + 1
        ups.append([start, _gen_values(rng, ln), rng.random() < 0.65])
        end = max(end, start + ln - 1)
    return ups


def _mut_leaf(rng, tags, leaf, n):
    r = rng.random()
    if r < 0.2:                                            # another kind of leaf altogether
        new = _gen_leaf(rng, tags, n)
        if rng.random() < 0.5:
            new["g"] = leaf["g"]
        return new
    new = dict(leaf)
    if leaf["t"] == "rec":
        while (new["a"], new["k"]) == (leaf["a"], leaf["k"]):
            new["a"] = rng.choice([0, 1, 2, -1, 3])
            new["k"] = rng.choice([0, 1, 2, -1])
    elif leaf["strategy"] == "last":
        new.update(strategy="mean", wl=rng.choice([None, 1, 2, 3]))
    elif rng.random() < 0.5:
        new.update(strategy="last", wl=None)
    else:
        new["wl"] = rng.choice([w for w in [None, 1, 2, 3] if w != leaf["wl"]])
    return new


def _mutate(rng, tags, spec, n):
    """the same composition with one part configured differently (a parameter of a leaf or of a
    transformer, an own parameter of a composite, or a part exchanged), at any depth"""
    import copy
    s = copy.deepcopy(spec)
    t = s["t"]
    if t in ("rec", "naive"):
        return _mut_leaf(rng, tags, s, n)
    if t == "pipe":
        if s["ts"] and rng.random() < 0.5:
            i = rng.randrange(len(s["ts"]))
            x = s["ts"][i]
            r = rng.random()
            if r < 0.3:
                x["b"] = rng.choice([v for v in [0, 1, 3, -2, 5] if v != x["b"]])
            elif r < 0.6:
                x["a"] = rng.choice([v for v in [[1, 1], [2, 1], [4, 1], [-2, 1], [1, 2]]
                                     if v != x["a"]])
            elif r < 0.75:
                x["tg"] = 1 - x["tg"]
            elif r < 0.9:
                x["skip"] = not x["skip"]
            else:
                s["ts"][i] = _gen_aff(rng, tags)
        else:
            s["f"] = _mutate(rng, tags, s["f"], n)
        return s
    r = rng.random()
    if t == "ens" and r < 0.2:
        s["agg"] = rng.choice([a for a in AGGS if a != s["agg"]])
        return s
    if t == "stack" and r < 0.1:
        s["g"] = tags.new()
        return s
    if t == "mux":
        i = s["sel"] if r < 0.8 or len(s["ms"]) == 1 else rng.choice(
            [j for j in range(len(s["ms"])) if j != s["sel"]])
        if r >= 0.8 and rng.random() < 0.5:
            s["sel"] = i                                   # ... and the selection moves to it
    else:
        i = rng.randrange(len(s["ms"]))
    s["ms"][i] = _mutate(rng, tags, s["ms"][i], n)
    return s


def _gen_pfh(rng, spec, fh, nups):
    """horizons handed over at predict: (fit horizon or None, per step None = predict() or a
    relative horizon).  A stacking forecaster anywhere keeps the horizon of its fit."""
    pool = [None, None, fh] if _has(spec, "stack") else [None, [1], [2], [3], [1, 2], [2, 3],
                                                         [1, 3], [1, 2, 3], [1, 2, 3, 4], fh]
    pfh = [rng.choice(pool) for _ in range(1 + nups)]
    fit_fh = fh
    if not _has(spec, "stack") and rng.random() < 0.3:
        fit_fh = None
        if pfh[0] is None:
            pfh[0] = fh
    return fit_fh, pfh


def _gen_reconf(rng, i, tier):
    """ONE composite object: fitted (and possibly updated) as configured first, then a part of it
    is reconfigured in place through the parameter interface, then it is fitted again and updated;
    the case's own spec / data are those of the second phase"""
    tags = _Tags()
    n = rng.randint(5, 9)
    kind = ["mux", "ens", "pipe", "mux", "stack"][i % 5]
    depth = 1 if i % 2 == 0 else 2
    spec0 = _gen_spec(rng, tags, depth, n, kind=kind)
    spec = _mutate(rng, tags, spec0, n)
    fh = sorted(rng.sample([1, 2, 3], rng.choice([1, 2, 2, 3])))
    fh0 = fh if rng.random() < 0.5 else sorted(rng.sample([1, 2, 3], rng.choice([1, 2])))
    if _has(spec, "stack") or _has(spec0, "stack"):
        # a forecaster that REQUIRES fh at fit refuses a second fit with another horizon (base class
        # rule of _RequiredForecastingHorizonMixin, not a matter of composition): same horizon
        fh0 = fh
        n = max(n, 2 * fh[-1] + 3)
    t0 = rng.choice([0, 0, 5, -3])
    y = _gen_values(rng, n)
    same = rng.random() < 0.5
    pre = {"spec": spec0, "mode": rng.choice(["nested", "nested", "replace", "assign"]),
           "t0": t0 if same else rng.choice([0, 5, 10]), "y": list(y) if same else
           _gen_values(rng, n), "fh": fh0}
    pre["ups"] = _gen_ups(rng, pre["t0"] + n - 1)[:rng.choice([0, 0, 1, 2])]
    c = {"kind": "reconf-" + kind, "depth": depth, "spec": spec, "t0": t0, "y": y, "fh": fh,
         "ups": _gen_ups(rng, t0 + n - 1)[:2], "pre": pre}
    if rng.random() < 0.3:
        pre["fh"], pre["pfh"] = _gen_pfh(rng, spec0, pre["fh"], len(pre["ups"]))
    if rng.random() < 0.3:
        c["fh"], c["pfh"] = _gen_pfh(rng, spec, fh, len(c["ups"]))
    return c


def gen_cases(rng, tier):
    cases = []
    total = 330 if tier == "quick" else 3000
    for i in range(total):
        tags = _Tags()
        n = rng.randint(5, 10)
        kind = ["ens", "pipe", "mux", "stack"][i % 4]
        depth = 1 if i % 3 == 0 else 2
        spec = _gen_spec(rng, tags, depth, n, kind=kind)
        fh = sorted(rng.sample([1, 2, 3], rng.choice([1, 2, 2, 3])))
        # a nested stack is fitted on n - max(fh) points and holds out another max(fh)
        if _has(spec, "stack"):
            n = max(n, 2 * fh[-1] + 3)
        t0 = rng.choice([0, 0, 5, 10, -3])
        cases.append({"kind": kind, "depth": depth, "spec": spec, "t0": t0,
                      "y": _gen_values(rng, n), "fh": fh,
                      "ups": _gen_ups(rng, t0 + n - 1)})
        if i % 10 in (3, 4, 8):
            # horizon handed over at predict (differs from the one at fit / from predict to predict)
            c = cases[-1]
            c["fh"], c["pfh"] = _gen_pfh(rng, spec, fh, len(c["ups"]))
    # refit of the same object after a part of it was reconfigured in place
    for i in range(100 if tier == "quick" else 900):
        cases.append(_gen_reconf(rng, i, tier))
    # pipelines over real transformers (oracle only)
    for i in range(36 if tier == "quick" else 300):
        tags = _Tags()
        n = rng.randint(8, 12)
        ts = []
        for _ in range(rng.choice([1, 1, 2])):
            r = rng.random()
            if r < 0.4:
                ts.append({"t": "detrend", "g": tags.new()})
            elif r < 0.7:
                ts.append({"t": "deseason", "g": tags.new(), "sp": rng.choice([2, 3])})
            else:
                ts.append(_gen_aff(rng, tags))
        f = _gen_leaf(rng, tags, n) if rng.random() < 0.7 else _gen_spec(
            rng, tags, 1, n, kind="ens")
        spec = {"t": "pipe", "ts": ts, "f": f}
        if rng.random() < 0.3:
            spec = {"t": "ens", "agg": rng.choice(AGGS), "ms": [spec, _gen_leaf(rng, tags, n)]}
        t0 = rng.choice([0, 5])
        cases.append({"kind": "real-" + spec["t"], "depth": 2, "spec": spec, "t0": t0,
                      "y": [v + 1 for v in _gen_values(rng, n)],
                      "fh": sorted(rng.sample([1, 2, 3], rng.choice([1, 2]))),
                      "ups": _gen_ups(rng, t0 + n - 1, allow_overlap=False)})
        if i % 3 == 0:
            c = cases[-1]
            c["fh"], c["pfh"] = _gen_pfh(rng, spec, c["fh"], len(c["ups"]))
    return cases


def _drop_up(c, i):
    d = dict(c)
    d["ups"] = c["ups"][:i] + c["ups"][i + 1:]
    if c.get("pfh"):
        d["pfh"] = c["pfh"][:i + 1] + c["pfh"][i + 2:]
    return d


def shrink(case):
    c = dict(case)
    if c.get("pre"):
        # only the histories are shortened: the two configurations belong together
        pre = c["pre"]
        for i in range(len(pre["ups"])):
            d = dict(c)
            d["pre"] = _drop_up(pre, i)
            yield d
        for i in range(len(c["ups"])):
            yield _drop_up(c, i)
        if pre["mode"] != "nested":
            d = dict(c)
            d["pre"] = dict(pre, mode="nested")
            yield d
        return
    ups = c["ups"]
    for i in range(len(ups)):
        yield _drop_up(c, i)
    if c.get("pfh") and c["fh"] is not None:
        d = dict(c)
        del d["pfh"]
        yield d
    spec = c["spec"]
    # replace the composite by one of its composite children
    for ch in (spec.get("ms") or []) + ([spec["f"]] if "f" in spec else []):
        if ch["t"] not in ("rec", "naive"):
            d = dict(c)
            d["spec"] = ch
            d["kind"] = ch["t"]
            yield d
    if spec.get("ms") and len(spec["ms"]) > 1:
        for i in range(len(spec["ms"])):
            if spec["t"] == "mux" and i == spec["sel"]:
                continue
            d = dict(c)
            s = dict(spec)
            s["ms"] = spec["ms"][:i] + spec["ms"][i + 1:]
            if spec["t"] == "mux" and i < spec["sel"]:
                s["sel"] = spec["sel"] - 1
            d["spec"] = s
            yield d
    if spec.get("ts"):
        for i in range(len(spec["ts"])):
            d = dict(c)
            s = dict(spec)
            s["ts"] = spec["ts"][:i] + spec["ts"][i + 1:]
            d["spec"] = s
            yield d
    if c["fh"] is not None and len(c["fh"]) > 1 and not c.get("pfh"):
        for i in range(len(c["fh"])):
            d = dict(c)
            d["fh"] = c["fh"][:i] + c["fh"][i + 1:]
            yield d
    if len(c["y"]) > 5 and not c["ups"]:
        d = dict(c)
        d["y"] = c["y"][:-1]
        yield d


# ------------------------------------------------------------------------------------------------
# model side

CASES_HEADER = """From Coq Require Import ZArith QArith List Bool.
Require Import SkV.Lib.Base SkV.C09.Model SkV.C09.Cases.
Import ListNotations.
Open Scope Z_scope.
"""


def _modelled(spec):
    t = spec["t"]
    if t in ("rec", "naive"):
        return True
    if t == "pipe":
        return all(x["t"] == "aff" for x in spec["ts"]) and _modelled(spec["f"])
    return all(_modelled(m) for m in spec["ms"])


def _cqi(v):
    return cq(v)


def _cser(s):
    return clist(["(%s, %s)" % (cz(t), cq(v)) for t, v in s])


def _cmat(m):
    return clist([clist([cq(v) for v in r]) for r in m])


def _cspec(spec):
    t = spec["t"]
    if t == "rec":
        return "(Leaf _ _ _ %s (LRec %s %s))" % (cz(spec["g"]), _cqi(spec["a"]), _cqi(spec["k"]))
    if t == "naive":
        if spec["strategy"] == "last":
            return "(Leaf _ _ _ %s LNaiveLast)" % cz(spec["g"])
        return "(Leaf _ _ _ %s (LNaiveMean %s))" % (
            cz(spec["g"]), "None" if spec["wl"] is None else "(Some %s)" % cz(spec["wl"]))
    if t == "ens":
        return "(Ens _ _ _ %s %s)" % ({"mean": "AMean", "median": "AMedian", "min": "AMin",
                                      "max": "AMax"}[spec["agg"]],
                                     clist([_cspec(m) for m in spec["ms"]]))
    if t == "pipe":
        ts = clist(["(%s, TAff %s %s %s %s %s)" % (cz(x["g"]), cq(x["a"]), _cqi(x["b"]),
                                                  _cqi(x["tg"]), cbool(x["skip"]), cbool(x["upd"]))
                    for x in spec["ts"]])
        return "(Pipe _ _ _ %s %s)" % (ts, _cspec(spec["f"]))
    if t == "mux":
        return "(Mux _ _ _ %d%%nat %s)" % (spec["sel"], clist([_cspec(m) for m in spec["ms"]]))
    if t == "stack":
        return "(Stack _ _ _ %s RWsum %s)" % (cz(spec["g"]), clist([_cspec(m) for m in spec["ms"]]))
    raise AssertionError(spec)


def _cev(e):
    k, g = e[0], cz(e[1])
    if k == "fit":
        return "EFit %s %s" % (g, _cser(e[2]))
    if k == "refit":
        return "ERefit %s %s" % (g, _cser(e[2]))
    if k == "update":
        return "EUpdate %s %s %s" % (g, _cser(e[2]), cbool(e[3]))
    if k == "predict":
        return "EPredict %s %s %s" % (g, cz(e[2]), czlist(e[3]))
    if k == "tfit":
        return "ETFit %s %s" % (g, _cser(e[2]))
    if k == "transform":
        return "ETransform %s %s" % (g, _cser(e[2]))
    if k == "tupdate":
        return "ETUpdate %s %s %s" % (g, _cser(e[2]), cbool(e[3]))
    if k == "inverse":
        return "EInverse %s %s" % (g, _cser(e[2]))
    if k == "rfit":
        return "ERFit %s %s %s" % (g, _cmat(e[2]), clist([cq(v) for v in e[3]]))
    if k == "rpredict":
        return "ERPredict %s %s" % (g, _cmat(e[2]))
    raise AssertionError(e)


def _cinputs(case):
    y = clist(["(%s, %s)" % (cz(case["t0"] + i), cq(float(v))) for i, v in enumerate(case["y"])])
    ups = clist(["(%s, %s)" % (
        clist(["(%s, %s)" % (cz(t0 + i), cq(float(v))) for i, v in enumerate(vals)]), cbool(up))
        for t0, vals, up in case["ups"]])
    if case.get("pfh"):
        return "%s %s %s %s" % (_cspec(case["spec"]), y, ups,
                                clist([czlist(h) for h in _eff_fh(case)]))
    return "%s %s %s %s" % (_cspec(case["spec"]), y, czlist(case["fh"]), ups)


def _eff_fh(case):
    """the horizon in force at each predict: the one handed over, else the last one handed over
    before (at fit or at an earlier predict)"""
    cur, eff = case["fh"], []
    for h in case["pfh"]:
        cur = h if h is not None else cur
        eff.append(cur)
    return eff


def _has_nan(out):
    for s in out["impl"]:
        if any(v is None or isinstance(v, str) for _, v in s["pred"]):
            return True
    return False


def coq_case(case, out):
    if "impl" not in out or not _modelled(case["spec"]) or _has_nan(out):
        return None
    steps = clist(["(%s, %s)" % (_cser(s["pred"]), clist([_cev(e) for e in s["trace"]]))
                   for s in out["impl"]])
    return "%s %s %s" % ("CRunH" if case.get("pfh") else "CRun", _cinputs(case), steps)


def coq_model_term(case):
    if not _modelled(case["spec"]):
        return "tt"
    return "%s %s" % ("c_run_h" if case.get("pfh") else "c_run", _cinputs(case))


def distribution(cases, results):
    import collections
    d = collections.Counter()
    for c, r in zip(cases, results):
        o = r.get("out") or {}
        d["%s:depth%d:%s" % (c["kind"], c.get("depth", 0),
                             "ran" if "impl" in o else "raised")] += 1
        d["updates=%d" % len(c["ups"])] += 1
        if any(u[0] <= c["t0"] + len(c["y"]) - 1 for u in c["ups"][:1]):
            d["first-update-overlaps"] += 1
        d["in-coq" if ("impl" in o and _modelled(c["spec"])) else "oracle-only"] += 1
        if c.get("pre"):
            d["reconfigured-by-" + c["pre"]["mode"]] += 1
        if c.get("pfh"):
            d["horizon-at-predict" + (":none-at-fit" if c["fh"] is None else "")] += 1
    return dict(d)
