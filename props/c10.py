"""C10 - updating with new data is equivalent to having observed it, for every history.

Histories over {fit, update(update_params), predict, update_predict_single, update_predict} are run
on real forecasters: the recording leaf doubles and recording NaiveForecaster leaves of props/c09.py
(these are also run inside Coq through coq/C10/Model.v and compared call by call: returned
forecasts, cutoff, remembered data `_y`, stored horizon, ValueError), composites of them (run inside
Coq through coq/C10/Comp.v over the C09 model: returned forecasts, own cutoff / data / horizon),
PolynomialTrendForecaster, ExponentialSmoothing, ThetaForecaster (oracle only).  Next to every call the
driver records, on deep copies / fresh instances of the REAL classes, the facts the oracle needs:
the forecast of a fresh forecaster fitted on the union, the fitted parameters before/after, the
forecasts of the corresponding sequence of single update+predict calls.
"""
from harness.core import cbool, clist, cq, cz, czlist, float_ratio
from props import c09

ID = "C10"
MODEL_TARGETS = ["C10/Cases.vo"]
PROOF_TARGETS = ["C10/Proofs.vo", "C10/Regress.vo", "C10/Site.vo", "C10/Bridge.vo"]
OBLIGATION_FILES = ["C10/Regress.v", "C10/Bridge.v"]
PROPS_FILE = "C10/Props.v"
SHARD = 80
PER_CASE_TIMEOUT = 120
RULE = ("random call histories of 1-6 calls after an initial fit, over {update(update_params T/F), "
        "predict(fh or None), update_predict_single, update_predict(cv = sliding / expanding window "
        "splitter with random window, step, start_with_window, or None), fit}; the data are random "
        "time-ordered batchings of a series on consecutive integer times: consecutive batches, "
        "batches overlapping the remembered data with different values and (7% of the updates) empty "
        "batches; plus histories with ABSOLUTE horizons (fixed time points) given at fit / predict / "
        "update_predict_single and reused across updates [oracle only]; horizon given at fit in most "
        "histories, in some only at the first predict, in some never before the first refitting "
        "update (known finding); forecasters: leaf double, NaiveForecaster(last/mean) [in Coq], "
        "ensemble / multiplexer / pipeline / stacking composites of these [in Coq when the horizon is "
        "given at fit], pipelines over the real Detrender, PolynomialTrendForecaster, "
        "ExponentialSmoothing (flat, additive trend, trend + seasonal), AutoETS(trend), "
        "ThetaForecaster [oracle only]. non-trivial = at least two calls succeeded "
        "and at least one carried data; distinct = distinct canonical JSON case")
TRUSTED = [
    "the translators translator/sktimebase_c10.py + translator/fcskel.py (fail closed) and the "
    "instantiation of the abstract forecaster object of Site.v in coq/C10/Bridge.v: fields of fstate / "
    "own data of a C09 state; what a concrete class provides: a leaf's fit = fit_state, its _predict = "
    "the abstract kernel; a composite's update / _predict = C09's update / predict after handing the "
    "horizon to its members",
    "the recording doubles of props/c09.py and the fact-collection code in props/c10.py run_impl "
    "(deep copies and fresh instances of the real classes)",
    "for update_predict the oracle takes the windows from the real splitter (property C01)",
]
MODELLED = [
    "REGENERATED on every run from base/_sktime.py over an abstract forecaster object and proved equal "
    "to coq/C10/Model.v (leaf object) and coq/C10/Comp.v (composite objects of the C09 model) for all "
    "arguments (C10/Bridge.v): _set_cutoff, _set_y_X, _update_y_X, the optional-horizon _set_fh, "
    "update, predict, update_predict_single, _update_predict_single (base class and window-forecaster "
    "override), _predict_moving_cutoff with _detached_cutoff inlined at the `with`, update_predict (base "
    "class and window-forecaster override, incl. the defaults of SlidingWindowSplitter read from "
    "_split.py); exogenous X specialised to None, return_pred_int to False",
    "also regenerated (translator/smadapter_c10.py, vocabulary coq/C10/SmLib.v): "
    "_StatsModelsAdapter._predict over an abstract wrapped statsmodels results object (its value at "
    "every zero-based position of its training index); ExponentialSmoothing (flat / trend / trend + "
    "seasonal) and AutoETS(trend) histories are run by the oracle only, which compares predict with the "
    "results object's own predict(start, end) positioned by the cutoff",
    "also regenerated (translator/transupdate_c10.py): Detrender.update over an abstract nested trend "
    "forecaster and (Conditional)Deseasonalizer.update over an abstract fitted state; pipelines over the "
    "real Detrender / Deseasonalizer are run by the oracle only (nested trend coefficients and "
    "seasonal component compared before / after an update with update_params=False)",
    "the forecasting kernel of a leaf is abstract in the theorems (lfit/lpred); the Coq correspondence "
    "covers the leaf double, NaiveForecaster(last/mean, sp=1) and (through coq/C10/Comp.v over the C09 "
    "model) the ensemble / pipeline / multiplexer / stacking composites of them when the horizon is "
    "given at fit and the history has no re-fit; PolynomialTrendForecaster, ExponentialSmoothing, "
    "ThetaForecaster and the other composite histories are checked by the oracle only",
    "ThetaForecaster overrides update (does not refit): only its memory / cutoff / update_predict "
    "clauses are checked; pipelines and stacking do not refit their transformers / meta-regressor "
    "on update, so the refit-equals-fresh-fit clause is not applied to them",
    "the layout of what update_predict returns (concatenated Series for single-step horizons, "
    "DataFrame with one column per cutoff, or that column alone) is modelled as the cutoff-labelled "
    "list of forecasts (canonicalised by the driver); the formatting code is followed wherever it "
    "lives (helper or inline); a concatenated single-step result, which carries no labels in pandas, "
    "is labelled by the list appended in lock step with the forecasts in the same loop",
    "_update_X (`if X is len(X) > 0`, dead unless reached from the Prophet adapter, which is not "
    "importable here) and exogenous data X are out of scope (static note only)",
    "consecutive integer time index, relative horizons, no NaN; update_predict on data that overlap "
    "the remembered data is generated only with start_with_window=True (with an empty first window "
    "the code forecasts from the time stamp before the new data, which equals the cutoff only for "
    "consecutive data)",
]
NOT_RUNNABLE = ["fbprophet adapter (_update_X caller): fbprophet is not installed"]

# ------------------------------------------------------------------------------------------------


def translate(repo):
    """regenerate build/coq/C10/Site.v from sktime/forecasting/base/_sktime.py (fail closed)"""
    from translator import sktimebase_c10, smadapter_c10, transupdate_c10
    files = dict(sktimebase_c10.translate(repo))
    # + the update methods of the series transformers C10 anchors (Detrender, Deseasonalizer)
    files["C10/Site.v"] += transupdate_c10.translate(repo)
    # + _StatsModelsAdapter._predict (forecasts positioned by the cutoff)
    files["C10/Site.v"] += smadapter_c10.translate(repo)
    return files


def _build(spec):
    t = spec["t"]
    if t in ("rec", "naive", "ens", "pipe", "mux", "stack"):
        return c09.build(spec)
    if t == "poly":
        from sktime.forecasting.trend import PolynomialTrendForecaster
        return PolynomialTrendForecaster(degree=spec["degree"])
    if t == "ses":
        from sktime.forecasting.exp_smoothing import ExponentialSmoothing
        return ExponentialSmoothing()
    if t == "holt":        # statsmodels-backed, forecast NOT flat in the horizon (additive trend)
        from sktime.forecasting.exp_smoothing import ExponentialSmoothing
        return ExponentialSmoothing(trend="add")
    if t == "holts":       # ... trend and additive seasonality
        from sktime.forecasting.exp_smoothing import ExponentialSmoothing
        return ExponentialSmoothing(trend="add", seasonal="add", sp=spec["sp"])
    if t == "ets":
        from sktime.forecasting.ets import AutoETS
        return AutoETS(trend="add")
    if t == "theta":
        from sktime.forecasting.theta import ThetaForecaster
        return ThetaForecaster()
    raise AssertionError(spec)


def _refits(spec):
    """does update(update_params=True) amount to a refit on the remembered data?"""
    t = spec["t"]
    if t in ("rec", "naive", "poly", "ses", "holt", "holts", "ets"):
        return True
    if t in ("ens", "mux"):
        return all(_refits(m) for m in spec["ms"])
    return False


def _in_coq(spec):
    return spec["t"] in ("rec", "naive")


def _cv(c):
    from sktime.forecasting.model_selection import ExpandingWindowSplitter, SlidingWindowSplitter
    if c is None:
        return None
    if c["kind"] == "sliding":
        return SlidingWindowSplitter(fh=c["fh"], window_length=c["wl"], step_length=c["step"],
                                     start_with_window=c["sww"])
    return ExpandingWindowSplitter(fh=c["fh"], initial_window=c["wl"], step_length=c["step"],
                                   start_with_window=c["sww"])


def _ser(s):
    return [[int(t), float_ratio(v)] for t, v in s.items()]


def _params(f):
    """fitted parameters, as a JSON-able value (None when the class exposes none); for composites
    the parameters of every part"""
    if getattr(f, "forecasters_", None) is not None:            # ensemble, stacking
        r = ["parts", [_params(m) for m in f.forecasters_]]
        if getattr(f, "final_regressor_", None) is not None:
            r.append(["bias", float_ratio(getattr(f.final_regressor_, "bias_", 0.0))])
        return r
    if getattr(f, "_forecaster", None) is not None and hasattr(f, "selected_forecaster"):
        return ["selected", _params(f._forecaster)]
    if getattr(f, "steps_", None) is not None:                   # pipeline
        return ["steps", [_params(e) for _, e in f.steps_]]
    if getattr(f, "forecaster_", None) is not None:              # Detrender: its fitted trend model
        return ["nested", _params(f.forecaster_)]
    if getattr(f, "seasonal_", None) is not None:                # Deseasonalizer: seasonal component
        return ["seasonal", [float_ratio(v) for v in f.seasonal_]]
    for a in ("p_", "window_length_", "c_"):
        if hasattr(f, a):
            return [a, float_ratio(getattr(f, a))]
    if hasattr(f, "regressor_"):
        try:
            lr = f.regressor_.steps[-1][1]
            return ["coef", [float_ratio(v) for v in list(lr.coef_.ravel()) + [lr.intercept_]]]
        except Exception:
            return None
    try:
        d = f.get_fitted_params()
        return ["fitted", sorted((k, float_ratio(v)) for k, v in d.items()
                                 if isinstance(v, (int, float)) or hasattr(v, "dtype") and
                                 getattr(v, "shape", None) == ())]
    except Exception:
        return None


def _fh_of(f):
    """stored horizon: a list = relative steps, {"abs": [...]} = absolute time points"""
    if f._fh is None:
        return None
    vals = [int(h) for h in f._fh.to_pandas()]
    return vals if f._fh.is_relative else {"abs": vals}


def _mkfh(x):
    """horizon argument of a call: None, a list of relative steps, or {"abs": absolute times}"""
    if isinstance(x, dict):
        from sktime.forecasting.base import ForecastingHorizon
        return ForecastingHorizon(list(x["abs"]), is_relative=False)
    return x


def _fh_times(H, cut):
    """the time points a horizon asks for, seen from the cutoff `cut`"""
    return list(H["abs"]) if isinstance(H, dict) else [cut + h for h in H]


def _preds(r, fhcv):
    """canonical form of what update_predict returns: [[cutoff, [[t, v], ...]], ...]"""
    import pandas as pd
    if isinstance(r, pd.DataFrame):
        out = []
        for j in range(r.shape[1]):          # positional: cutoff labels may repeat
            out.append([int(r.columns[j]), _ser(r.iloc[:, j].dropna())])
        return out
    # a Series: single-step horizon (one forecast per cutoff) or a single cutoff
    if len(fhcv) == 1:
        return [[int(t) - fhcv[0], [[int(t), float_ratio(v)]]] for t, v in r.items()]
    return [[int(r.index[0]) - fhcv[0], _ser(r)]]


_ERRS = (ValueError, KeyError, IndexError, TypeError, NotImplementedError)
PROBE_FH = [1, 2]


_SM = ("ses", "holt", "holts", "ets")


def _sm_ref(f):
    """what the wrapped statsmodels results object itself says for PROBE_FH steps after the
    forecaster's CUTOFF: predict(start, end) in its own zero-based positions (independent of
    _StatsModelsAdapter._predict)"""
    try:
        i0, c = int(f._y.index[0]), int(f.cutoff)
        r = f._fitted_forecaster.predict(c + PROBE_FH[0] - i0, c + PROBE_FH[-1] - i0)
        vals = list(getattr(r, "values", r))
        return [[c + h, float_ratio(float(vals[h - PROBE_FH[0]]))] for h in PROBE_FH]
    except Exception as e:
        return "sm-ref-failed: %s" % type(e).__name__


def _probe(f):
    import copy
    try:
        return _ser(copy.deepcopy(f).predict(PROBE_FH))
    except Exception as e:  # probing must never break the history
        return "probe-failed: %s" % type(e).__name__


def _state_facts(f, horizons):
    """for each horizon H: what the PUBLIC predict(H) returns now, and the forecast of the object's
    current state (cutoff, remembered data, parameters) for H obtained through the forecasting
    kernel `_predict` directly - both on deep copies, the history is not disturbed.  A forecast
    remembered across a state change (memo, stale cutoff label) makes the two differ."""
    import copy
    out = []
    for H in horizons:
        if not H:
            continue
        H = H if isinstance(H, dict) else list(H)
        try:
            pub = _ser(copy.deepcopy(f).predict(_mkfh(H)))
        except Exception as e:
            pub = "public-predict-failed: %s" % type(e).__name__
        try:
            g = copy.deepcopy(f)
            g._set_fh(_mkfh(H))
            ker = _ser(g._predict(g.fh))
        except Exception as e:
            ker = "kernel-failed: %s" % type(e).__name__
        out.append([H, pub, ker])
    return out


def _stored_pred(f):
    """predict() without a horizon: the horizon stored earlier is used"""
    import copy
    if f._fh is None:
        return None
    try:
        return _ser(copy.deepcopy(f).predict())
    except Exception as e:
        return "stored-predict-failed: %s" % type(e).__name__


def _op_horizon(o, f_before_fh):
    k = o[0]
    if k == "predict":
        return o[1]
    if k == "ups":
        return o[3]
    if k == "updpred":
        return o[3]["fh"] if o[3] is not None else f_before_fh
    return None


def run_impl(case):
    import copy
    import warnings
    warnings.simplefilter("ignore")
    spec = case["spec"]
    f = _build(spec)
    y0 = c09._series(case["t0"], case["y0"])
    f.fit(y0, fh=_mkfh(case["fh0"]))
    steps = [{"ret": "ok", "cut": int(f.cutoff), "mem": _ser(f._y), "fh": _fh_of(f)}]
    for o in case["ops"]:
        k = o[0]
        st = {}
        before = copy.deepcopy(f)
        if spec["t"] in _SM and case["fh0"] is not None:
            st["sm_probe_before"] = _probe(before)
        st["cut_before"] = int(f.cutoff)
        st["par_before"] = _params(f)
        try:
            if k == "fit":
                f.fit(c09._series(o[1], o[2]), fh=_mkfh(o[3]))
                st["ret"] = "ok"
            elif k == "update":
                f.update(c09._series(o[1], o[2]), update_params=bool(o[3]))
                st["ret"] = "ok"
            elif k == "predict":
                st["ret"] = {"pred": _ser(f.predict(_mkfh(o[1])))}
            elif k == "ups":
                st["ret"] = {"pred": _ser(f.update_predict_single(
                    c09._series(o[1], o[2]), fh=_mkfh(o[3]), update_params=bool(o[4])))}
            elif k == "updpred":
                y = c09._series(o[1], o[2])
                cv = _cv(o[3])
                fhcv = o[3]["fh"] if o[3] is not None else _fh_of(f)
                r = f.update_predict(y, cv, update_params=bool(o[4]))
                st["ret"] = {"preds": _preds(r, fhcv)}
            else:
                raise AssertionError(o)
        except _ERRS as e:
            st["ret"] = "err"
            st["err"] = "%s: %s" % (type(e).__name__, str(e)[:120])
        st["cut"] = int(f.cutoff)
        st["mem"] = _ser(f._y)
        st["fh"] = _fh_of(f)
        st["par"] = _params(f)
        # ---- facts for the oracle, from the real classes ----
        if st["ret"] != "err":
            hs = []
            for H in (PROBE_FH, st["fh"], _op_horizon(o, _fh_of(before))):
                H = H if isinstance(H, dict) or H is None else list(H)
                if H and H not in hs:
                    hs.append(H)
            st["state_facts"] = _state_facts(f, hs)
            st["stored_pred"] = _stored_pred(f)
            if k == "updpred":
                st["probe_before"] = _probe(before)
                st["probe_after"] = _probe(f)
        if st["ret"] != "err" and spec["t"] in _SM:
            st["sm_probe"] = _probe(f)
            st["sm_ref"] = _sm_ref(f)
        if st["ret"] != "err":
            if k in ("update", "ups") and o[-1]:
                # a fresh forecaster fitted on everything remembered so far ("y1 followed by y2")
                st["probe"] = _probe(f)
                try:
                    g = _build(spec)
                    g.fit(_union_series(case, len(steps)), fh=PROBE_FH)
                    st["fresh"] = _ser(g.predict())
                except Exception as e:
                    st["fresh"] = "fresh-failed: %s" % type(e).__name__
            if k in ("update", "ups") and not o[-1]:
                st["probe"] = _probe(f)
            if k == "updpred":
                # the corresponding sequence of single updates and predicts, on a copy
                y = c09._series(o[1], o[2])
                cv = _cv(o[3]) or _default_cv(before)
                fhcv = o[3]["fh"] if o[3] is not None else _fh_of(before)
                singles = []
                try:
                    # the moving-cutoff loop starts from the time point just before the new data
                    before._set_cutoff(int(y.index[0]) - 1)
                    for w, _ in cv.split(y):
                        before.update(y.iloc[w], update_params=bool(o[4]))
                        p1 = before.predict(fhcv)
                        # same canonical label as _preds: a single-step result carries no labels
                        singles.append([int(p1.index[0]) - fhcv[0] if len(fhcv) == 1
                                        else int(before.cutoff), _ser(p1)])
                    st["singles"] = singles
                    st["windows"] = [[int(i) for i in w] for w, _ in cv.split(y)]
                except Exception as e:
                    st["singles"] = "singles-failed: %s: %s" % (type(e).__name__, str(e)[:80])
        steps.append(st)
        if st["ret"] == "err":
            break
    del c09._LOG[:]
    return {"steps": steps}


def _default_cv(f):
    from sktime.forecasting.model_selection import SlidingWindowSplitter
    wl = getattr(f, "window_length_", None)
    if wl is not None and hasattr(f, "_predict_last_window"):
        return SlidingWindowSplitter(fh=f.fh.to_relative(f.cutoff), window_length=wl,
                                     start_with_window=False)
    return SlidingWindowSplitter(fh=f.fh, start_with_window=False)


# ------------------------------------------------------------------------------------------------
# expected memory, computed from the history alone


def _windows(c, n):
    """training windows (positions) of the splitters, restated (cf. property C01)"""
    fm = max(c["fh"])
    wl, st = c["wl"], c["step"]
    start = wl if c["sww"] else 0
    out = []
    p = start
    while p < n - fm + 1:
        lo = max(p - wl, 0) if c["kind"] == "sliding" else 0
        out.append(list(range(lo, p)))
        p += st
    return out


def _expected_memory(case, upto, windows_by_step=None):
    """dict time -> value after the first `upto` ops (newer wins)"""
    mem = {case["t0"] + i: float(v) for i, v in enumerate(case["y0"])}
    for j, o in enumerate(case["ops"][:upto]):
        k = o[0]
        if k == "fit":
            mem = {o[1] + i: float(v) for i, v in enumerate(o[2])}
        elif k in ("update", "ups"):
            for i, v in enumerate(o[2]):
                mem[o[1] + i] = float(v)
        elif k == "updpred":
            ws = (windows_by_step or {}).get(j + 1)
            if ws is None:
                ws = _windows(o[3], len(o[2])) if o[3] is not None else []
            for w in ws:
                for i in w:
                    mem[o[1] + i] = float(o[2][i])
    return mem


def _union_series(case, nsteps_done):
    import pandas as pd
    mem = _expected_memory(case, nsteps_done)
    ks = sorted(mem)
    return pd.Series([mem[k] for k in ks], index=pd.Index(ks, dtype="int64"))


def _last_data_end(o):
    return o[1] + len(o[2]) - 1


def _given_horizon(case, j):
    """the horizon handed over most recently by the first j calls (None: not determined by the
    history alone, e.g. after update_predict, which may store the splitter's horizon)"""
    given = case["fh0"]
    for o in case["ops"][:j]:
        if o[0] == "predict" and o[1] is not None:
            given = o[1]
        elif o[0] == "ups" and o[3] is not None:
            given = o[3]
        elif o[0] == "fit" and o[3] is not None:
            given = o[3]
        elif o[0] == "updpred":
            given = None
    return given


def oracle(case, out):
    steps = out["steps"]
    spec = case["spec"]
    wins = {j: s["windows"] for j, s in enumerate(steps) if isinstance(s, dict) and "windows" in s}
    for j in range(1, len(steps)):
        s, o = steps[j], case["ops"][j - 1]
        k = o[0]
        what = "call %d (%s)" % (j, k)
        if s["ret"] == "err":
            # which errors are legitimate: predict / update_predict_single / update_predict(cv=None)
            # with no horizon anywhere; infeasible windows
            no_fh = steps[j - 1]["fh"] is None
            if k == "predict" and o[1] is None and no_fh:
                return None
            if k == "ups" and o[3] is None and no_fh:
                return None
            if k == "updpred" and o[3] is None and no_fh:
                return None
            if k == "fit" and o[3] is None and no_fh:
                return None      # re-fit without horizon: optional-horizon mixin asks for one
            if k in ("update", "ups", "updpred") and o[-1] and no_fh and (k != "ups" or True):
                return ("update-with-refit-raised-without-horizon: %s raised %s although the data "
                        "arrive in time order; fit(y1); update(y2) must behave like a fit on y1 "
                        "followed by y2" % (what, s["err"]))
            return "call-raised: %s raised %s" % (what, s["err"])
        # -- memory is the union of all observations given, newer wins
        exp = _expected_memory(case, j, wins)
        got = {t: v for t, v in s["mem"]}
        if sorted(got) != sorted(exp):
            return "memory-not-union-of-observations: %s: remembered times %s, given %s" % (
                what, sorted(got), sorted(exp))
        if [t for t, _ in s["mem"]] != sorted(got):
            return "memory-not-time-ordered: %s" % what
        for t in exp:
            if not c09._close(got[t], float_ratio(exp[t])):
                return ("memory-newer-value-does-not-win: %s: at time %d remembered %s, latest "
                        "given %s" % (what, t, c09._fr(got[t]), exp[t]))
        # -- cutoff
        if k in ("update", "ups") and o[2]:
            if s["cut"] != _last_data_end(o):
                return "cutoff-not-at-end-of-new-data: %s: cutoff %d, data end %d" % (
                    what, s["cut"], _last_data_end(o))
        if k == "predict" and s["cut"] != s["cut_before"]:
            return "predict-moved-cutoff: %s" % what
        if k == "updpred" and s["cut"] != s["cut_before"]:
            return "update-predict-did-not-restore-cutoff: %s: before %d after %d" % (
                what, s["cut_before"], s["cut"])
        # -- the horizon given last (at fit, predict or update_predict_single) is the one predict()
        #    answers later on: an ABSOLUTE horizon names fixed time points, whatever was observed since
        given = _given_horizon(case, j)
        if isinstance(given, dict) and spec["t"] not in ("ens", "pipe", "mux", "stack") \
                and isinstance(s.get("stored_pred"), list):
            if [t for t, _ in s["stored_pred"]] != list(given["abs"]):
                return ("absolute-horizon-not-kept: %s: the absolute horizon %s was given, predict() now "
                        "forecasts the time points %s (own cutoff %d)" % (
                            what, given["abs"], [t for t, _ in s["stored_pred"]], s["cut"]))
        # -- whatever was called before, predict(H) now is the forecast of the CURRENT state: own
        #    cutoff (restored after update_predict), remembered data and parameters as they are now
        for H, pub, ker in s.get("state_facts", ()):
            if isinstance(pub, str) or isinstance(ker, str):
                continue          # this horizon cannot be asked for here (e.g. stacking: horizon fixed)
            if any(v is None for _, v in pub) or any(v is None for _, v in ker):
                continue
            if not c09._ser_close(pub, ker):
                name = ("predict-after-update-predict-not-from-own-cutoff" if k == "updpred"
                        else "predict-not-the-forecast-of-the-current-state")
                return ("%s: %s: own cutoff %d, predict(%s) returns %s, the forecast of the current "
                        "state for this horizon is %s" % (name, what, s["cut"], H, c09._show_ser(pub),
                                                          c09._show_ser(ker)))
            if spec["t"] not in ("ens", "pipe", "mux", "stack") \
                    and [t for t, _ in pub] != _fh_times(H, s["cut"]):
                return ("predict-not-indexed-from-own-cutoff: %s: own cutoff %d, predict(%s) is indexed "
                        "%s" % (what, s["cut"], H, [t for t, _ in pub]))
        # -- update_predict without parameter updating over data after the cutoff: cutoff, parameters
        #    and everything remembered up to the cutoff are what they were: predict() is what it was
        #    (not ThetaForecaster: its drift term uses len(self._y), the number of REMEMBERED
        #    observations, which update_predict increases - the remembered data are not rolled back)
        if k == "updpred" and not o[-1] and spec["t"] not in ("ens", "pipe", "mux", "stack", "theta") \
                and o[1] > s["cut_before"] and not isinstance(s.get("probe_before"), (str, type(None))) \
                and not isinstance(s.get("probe_after"), (str, type(None))):
            if not c09._ser_close(s["probe_after"], s["probe_before"]):
                return ("predict-after-update-predict-differs: %s (update_params=False): before %s, "
                        "after %s" % (what, c09._show_ser(s["probe_before"]),
                                      c09._show_ser(s["probe_after"])))
        # -- statsmodels-backed forecasters: forecasts are those of the fitted model extrapolated
        #    from the forecaster's CUTOFF (not from the end of the data it was last fitted on)
        if "sm_probe" in s:
            if isinstance(s["sm_probe"], str) or isinstance(s["sm_ref"], str):
                return "statsmodels-probe-failed: %s: %s / %s" % (what, s["sm_probe"], s["sm_ref"])
            if not c09._ser_close(s["sm_probe"], s["sm_ref"]):
                return ("forecast-not-positioned-by-cutoff: %s: cutoff %d, forecaster predicts %s, its "
                        "fitted model extrapolated from the cutoff gives %s" % (
                            what, s["cut"], c09._show_ser(s["sm_probe"]), c09._show_ser(s["sm_ref"])))
            # update_predict without parameter updating: cutoff and parameters are what they were,
            # so predict() afterwards is predict() before
            if k == "updpred" and not o[-1] and not isinstance(s.get("sm_probe_before"), (str, type(None))):
                if not c09._ser_close(s["sm_probe"], s["sm_probe_before"]):
                    return ("predict-after-update-predict-differs: %s (update_params=False): before %s, "
                            "after %s" % (what, c09._show_ser(s["sm_probe_before"]),
                                          c09._show_ser(s["sm_probe"])))
        # -- refit on update == fresh fit on the union
        if k in ("update", "ups") and o[-1] and _refits(spec):
            if isinstance(s.get("probe"), str) or isinstance(s.get("fresh"), str):
                return "refit-probe-failed: %s: %s / %s" % (what, s.get("probe"), s.get("fresh"))
            if not c09._ser_close(s["probe"], s["fresh"]):
                return ("refit-on-update-differs-from-fresh-fit-on-union: %s: updated forecaster "
                        "%s, fresh one fitted on all observations %s" % (
                            what, c09._show_ser(s["probe"]), c09._show_ser(s["fresh"])))
        # -- update_params=False keeps the parameters, forecasts are made from the new cutoff
        if k in ("update", "ups") and not o[-1]:
            if s["par"] != s["par_before"]:
                return "no-param-update-changed-parameters: %s: %s -> %s" % (
                    what, s["par_before"], s["par"])
            if not isinstance(s.get("probe"), str) and o[2]:
                want = [_last_data_end(o) + h for h in PROBE_FH]
                if [t for t, _ in s["probe"]] != want:
                    return "forecast-not-from-new-cutoff: %s: forecast times %s, expected %s" % (
                        what, [t for t, _ in s["probe"]], want)
        if k == "ups":
            fh = o[3] if o[3] is not None else steps[j - 1]["fh"]
            want = _fh_times(fh, s["cut"])
            if [t for t, _ in s["ret"]["pred"]] != want:
                return "forecast-not-from-new-cutoff: %s: forecast times %s, expected %s" % (
                    what, [t for t, _ in s["ret"]["pred"]], want)
        # -- update_predict == the corresponding single updates and predicts, labelled by cutoffs
        if k == "updpred":
            if isinstance(s.get("singles"), str):
                return "update-predict-singles-failed: %s: %s" % (what, s["singles"])
            got_p, want_p = s["ret"]["preds"], s["singles"]
            if [c for c, _ in got_p] != [c for c, _ in want_p]:
                return "update-predict-cutoff-labels: %s: labelled %s, single updates end at %s" % (
                    what, [c for c, _ in got_p], [c for c, _ in want_p])
            for (c, a), (_, b) in zip(got_p, want_p):
                if not c09._ser_close(a, b):
                    return ("update-predict-differs-from-single-updates-and-predicts: %s: at "
                            "cutoff %d returned %s, single update+predict gives %s" % (
                                what, c, c09._show_ser(a), c09._show_ser(b)))
    return None


def nontrivial(case, out):
    ok = [s for s in out["steps"][1:] if s["ret"] != "err"]
    return len(ok) >= 2 and any(o[0] in ("update", "ups", "updpred") for o in case["ops"][:len(ok)])


# ------------------------------------------------------------------------------------------------
# generators


def _gen_fh(rng):
    return sorted(rng.sample([1, 2, 3], rng.choice([1, 1, 2, 2, 3])))


def _gen_cv(rng, n, sww=None, contiguous=False):
    fh = _gen_fh(rng)
    fm = fh[-1]
    wl = rng.randint(1, max(1, min(4, n - fm)))
    kind = rng.choice(["sliding", "sliding", "expanding"])
    step = rng.choice([1, 1, 2, 3])
    if contiguous and kind == "sliding":
        step = min(step, wl)      # step > window_length leaves gaps in the remembered data
    return {"kind": kind, "fh": fh, "wl": wl, "step": step,
            "sww": (rng.random() < 0.5) if sww is None else sww}


def _gen_leaf(rng, n0):
    r = rng.random()
    if r < 0.5:
        return {"t": "rec", "g": 1, "a": rng.choice([0, 1, 1, 2, -1]), "k": rng.choice([0, 1, 2, -1])}
    if r < 0.7:
        return {"t": "naive", "g": 1, "strategy": "last", "wl": None}
    return {"t": "naive", "g": 1, "strategy": "mean", "wl": rng.choice([None, None, 1, 2, 3])}


def _gen_history(rng, spec, tier, fh_mode=None, max_ops=6, allow_fit=True, allow_default_cv=True):
    n0 = rng.randint(5, 8)
    t0 = rng.choice([0, 0, 5, 10, -3])
    if fh_mode is None:
        fh_mode = rng.choices(["fit", "predict-first", "never"], [0.72, 0.18, 0.10])[0]
    fh0 = _gen_fh(rng) if fh_mode == "fit" else None
    end = t0 + n0 - 1
    ops = []
    have_fh = fh0 is not None
    nops = rng.randint(1, max_ops)
    stack = c09._has(spec, "stack")
    for i in range(nops):
        r = rng.random()
        if fh_mode == "predict-first" and i == 0:
            r = 0.5  # a predict(fh) first
        # predict(fh); <state-changing call>; predict(fh) with the same (stored) horizon: a forecast
        # remembered across the call would show
        if have_fh and ops and ops[-1][0] in ("update", "ups", "updpred") and rng.random() < 0.3 \
                and len(ops) < max_ops + 2:
            ops.append(["predict", None])
        if have_fh and r < 0.95 and (r < 0.40 or r >= 0.60) and rng.random() < 0.25 \
                and (not ops or ops[-1][0] != "predict") and len(ops) < max_ops + 2:
            ops.append(["predict", None])
        if r < 0.40:
            ln = rng.choice([1, 1, 2, 3])
            if rng.random() < 0.3:
                o = rng.choice([1, 2])
                start, ln = end + 1 - o, max(ln, o)
            else:
                start = end + 1
            up = rng.random() < 0.6
            if rng.random() < 0.07:
                # an empty batch: nothing is observed (memory and cutoff stay), but a refitting
                # update still refits on everything remembered
                start, ln = end + 1, 0
            ops.append(["update", start, c09._gen_values(rng, ln), up])
            end = max(end, start + ln - 1)
            if up and not have_fh:
                break
        elif r < 0.60:
            fh = None if (have_fh and rng.random() < 0.6) else _gen_fh(rng)
            if fh_mode == "never" and rng.random() < 0.5:
                fh = None
            if stack:
                fh = None
            ops.append(["predict", fh])
            if fh is None and not have_fh:
                break
            have_fh = True
        elif r < 0.72:
            ln = rng.choice([1, 2, 3])
            start = end + 1 if rng.random() < 0.75 else end
            fh = None if (have_fh and rng.random() < 0.5) else _gen_fh(rng)
            if stack:
                fh = None
            up = rng.random() < 0.6
            ops.append(["ups", start, c09._gen_values(rng, ln), fh, up])
            end = max(end, start + ln - 1)
            if fh is None and not have_fh:
                break
            have_fh = True
        elif r < 0.95 or not allow_fit:
            use_default = allow_default_cv and have_fh and rng.random() < 0.12 and not stack
            if use_default:
                cv = None
                start = end + 1
                if spec["t"] == "naive":
                    # default window = window_length_ (1, wl, or the number of points at last fit)
                    ln = (end - t0 + 1) + 3 + rng.randint(1, 3)
                else:
                    ln = rng.randint(13, 15)
            else:
                ln = rng.randint(4, 9)
                # overlapping update_predict feeds windows that end before the remembered data do
                # (not time-ordered for the parts of a composite): leaves only
                overlap = rng.random() < 0.2 and spec["t"] in ("rec", "naive")
                cv = _gen_cv(rng, ln, sww=True if overlap else None,
                             contiguous=spec["t"] not in ("rec", "naive"))
                if stack:
                    cv["fh"] = list(fh0)
                    cv["wl"] = max(1, min(cv["wl"], ln - max(fh0)))
                start = end + 1 - (rng.choice([1, 2]) if overlap else 0)
            up = rng.random() < 0.55
            ops.append(["updpred", start, c09._gen_values(rng, ln), cv, up])
            if (up and not have_fh) or cv is None:
                break
            if spec["t"] != "naive":
                have_fh = True
            end = _prev_end(t0, n0, ops)
        else:
            n1 = rng.randint(4, 7)
            start = end + 1 if rng.random() < 0.5 else t0
            fh = _gen_fh(rng) if (not have_fh or rng.random() < 0.5) else None
            ops.append(["fit", start, c09._gen_values(rng, n1), fh])
            end = start + n1 - 1
            have_fh = have_fh or fh is not None
    c = {"spec": spec, "t0": t0, "y0": c09._gen_values(rng, n0), "fh0": fh0, "ops": ops,
         "fh_mode": fh_mode}
    c["first_refit_before_fh"] = _first_refit_before_fh(c)
    return c


def _first_refit_before_fh(case):
    """does the history reach an update that refits before the refitting forecaster has been given
    any horizon?  (exact replay of which calls store a horizon where; this is the matcher key of
    finding F-C10-1).  A composite hands its horizon to its parts only when it predicts, so
    update_predict_single(y, fh) on a composite updates parts that have none yet."""
    have = case["fh0"] is not None          # the forecaster's own stored horizon
    parts = have                            # ... and that of the parts of a composite
    window_fc = case["spec"]["t"] == "naive"
    composite = case["spec"]["t"] in ("ens", "pipe", "mux", "stack")
    for o in case["ops"]:
        k = o[0]
        if k == "predict":
            if o[1] is None and not have:
                return False
            have = parts = True
        elif k == "ups":
            if o[3] is None and not have:
                return False
            have = True
            if o[4] and composite and not parts:
                return True
            parts = True
        elif k == "update":
            if o[3] and not (parts if composite else have):
                return True
        elif k == "updpred":
            if o[3] is None and not have:
                return False
            if o[4] and not (parts if composite else have):
                return True
            if not window_fc:
                have = parts = True
        elif k == "fit":
            if o[3] is None and not have:
                return False
            have = have or o[3] is not None
            parts = have
    return False


def _merged_end(o):
    """last time stamp merged by an update_predict op with an explicit splitter"""
    ws = [w for w in _windows(o[3], len(o[2])) if w]
    if not ws:
        return None
    return o[1] + max(max(w) for w in ws)


def _prev_end(t0, n0, ops):
    end = t0 + n0 - 1
    for o in ops:
        if o[0] == "fit":
            end = o[1] + len(o[2]) - 1
        elif o[0] in ("update", "ups"):
            end = max(end, o[1] + len(o[2]) - 1)
        elif o[0] == "updpred" and o[3] is not None:
            e = _merged_end(o)
            if e is not None:
                end = max(end, e)
    return end


def _gen_abs_history(rng, spec):
    """fit (absolute horizon, or none yet), then 2-4 of: update(T/F) with a consecutive or overlapping
    batch, predict() with the stored horizon, predict(absolute horizon), update_predict_single(batch,
    stored or new absolute horizon).  All absolute time points lie after the end of all the data."""
    n0 = rng.randint(6, 8)
    t0 = rng.choice([0, 0, 5, -3])
    end = t0 + n0 - 1
    ops = []
    for _ in range(rng.randint(2, 4)):
        r = rng.random()
        if r < 0.45 or not ops:
            ln = rng.choice([1, 2, 3])
            start = end + 1 if rng.random() < 0.75 else end
            ops.append(["update", start, [v + 1 for v in c09._gen_values(rng, ln)], rng.random() < 0.6])
            end = max(end, start + ln - 1)
        elif r < 0.75:
            ops.append(["predict", None if rng.random() < 0.6 else "new"])
        else:
            ln = rng.choice([1, 2])
            ops.append(["ups", end + 1, [v + 1 for v in c09._gen_values(rng, ln)],
                        None if rng.random() < 0.5 else "new", rng.random() < 0.6])
            end += ln
    if ops[-1][0] != "predict":
        ops.append(["predict", None])

    def new_abs():
        return {"abs": [end + h for h in _gen_fh(rng)]}
    fh0 = new_abs() if rng.random() < 0.75 else None
    have = fh0 is not None
    for o in ops:
        i = 1 if o[0] == "predict" else 3
        if o[0] in ("predict", "ups"):
            if o[i] == "new" or not have:
                o[i] = new_abs()
                have = True
    c = {"spec": spec, "t0": t0, "y0": [v + 1 for v in c09._gen_values(rng, n0)], "fh0": fh0,
         "ops": ops, "fh_mode": "abs", "kind": "abs-fh"}
    c["first_refit_before_fh"] = _first_refit_before_fh(c)
    return c


def gen_cases(rng, tier):
    cases = []
    nleaf = 300 if tier == "quick" else 4000
    for i in range(nleaf):
        spec = _gen_leaf(rng, 6)
        c = _gen_history(rng, spec, tier, max_ops=6 if tier == "quick" else 12)
        c["kind"] = "leaf"
        cases.append(c)
    # fit(y1); update(y2); predict - the sentence of the property, on every forecaster
    others = [{"t": "poly", "degree": 1}, {"t": "poly", "degree": 2}, {"t": "ses"}, {"t": "theta"},
              {"t": "holt"}, {"t": "holts", "sp": 2}, {"t": "ets"}]
    for i in range(84 if tier == "quick" else 840):
        spec = others[i % len(others)]
        c = _gen_history(rng, spec, tier, fh_mode="fit", max_ops=4, allow_fit=False,
                         allow_default_cv=False)
        c["kind"] = "real-leaf"
        c["y0"] = [v + 1 for v in c["y0"]]          # theta / multiplicative parts need positive data
        for o in c["ops"]:
            if o[0] != "predict":
                o[2] = [v + 1 for v in o[2]]
        if spec["t"] in ("holt", "holts", "ets"):
            # trend / seasonal components need a longer first series
            extra = [v + 1 for v in c09._gen_values(rng, 6)]
            c["y0"] = c["y0"] + extra
            for o in c["ops"]:
                if o[0] != "predict":
                    o[1] += len(extra)
        cases.append(c)
    for i in range(90 if tier == "quick" else 900):
        tags = c09._Tags()
        kind = ["ens", "pipe", "mux", "stack"][i % 4]
        spec = c09._gen_spec(rng, tags, 1 if i % 2 else 2, 8, kind=kind, allow_stack=(kind == "stack"))
        c = _gen_history(rng, spec, tier, fh_mode="fit" if kind == "stack" or i % 5 else None,
                         max_ops=4, allow_fit=False, allow_default_cv=False)
        if kind == "stack" or c09._has(spec, "stack"):
            c["y0"] = c["y0"] + c09._gen_values(rng, 6)
            shift = 6
            for o in c["ops"]:
                if o[0] != "predict":
                    o[1] += shift
        c["kind"] = "composite"
        cases.append(c)
    # ABSOLUTE horizons (fixed time points, ForecastingHorizon(.., is_relative=False)) given at fit,
    # predict or update_predict_single and reused across updates (oracle only)
    abs_specs = [{"t": "rec", "g": 1, "a": 1, "k": 1}, {"t": "naive", "g": 1, "strategy": "last", "wl": None},
                 {"t": "naive", "g": 1, "strategy": "mean", "wl": 2}, {"t": "poly", "degree": 1}, {"t": "ses"}]
    for i in range(40 if tier == "quick" else 400):
        cases.append(_gen_abs_history(rng, abs_specs[i % len(abs_specs)]))
    # pipelines over the REAL Detrender / Deseasonalizer (Detrender.update hands update_params to a
    # nested trend forecaster, Deseasonalizer.update changes nothing):
    # update_params=False must leave the nested trend model's coefficients alone (oracle only)
    for i in range(36 if tier == "quick" else 360):
        tags = c09._Tags()
        ts = [{"t": "detrend", "g": tags.new()}]
        if i % 3 == 1:
            ts.append(c09._gen_aff(rng, tags))
        elif i % 3 == 2:
            ts.insert(0, c09._gen_aff(rng, tags))
        if i % 4 == 3:          # Deseasonalizer -> Detrender chain (its update changes nothing)
            ts.insert(0, {"t": "deseason", "g": tags.new(), "sp": 2})
        spec = {"t": "pipe", "ts": ts, "f": c09._gen_leaf(rng, tags, 8)}
        c = _gen_history(rng, spec, tier, fh_mode="fit", max_ops=4, allow_fit=False,
                         allow_default_cv=False)
        c["kind"] = "real-pipe"
        cases.append(c)
    return cases


def shrink(case):
    for d in _shrink(case):
        d["first_refit_before_fh"] = _first_refit_before_fh(d)
        yield d


def _shrink(case):
    c = dict(case)
    ops = c["ops"]
    if len(ops) > 1:
        d = dict(c)
        d["ops"] = ops[:-1]
        yield d
        for i in range(len(ops) - 1):
            if ops[i][0] == "predict":
                d = dict(c)
                d["ops"] = ops[:i] + ops[i + 1:]
                yield d
    spec = c["spec"]
    for ch in (spec.get("ms") or []) + ([spec["f"]] if "f" in spec else []):
        d = dict(c)
        d["spec"] = ch
        yield d


# ------------------------------------------------------------------------------------------------
# model side

CASES_HEADER = """From Coq Require Import ZArith QArith List Bool.
Require Import SkV.Lib.Base SkV.C09.Model SkV.C10.Model SkV.C10.Comp SkV.C10.Cases.
Import ListNotations.
Open Scope Z_scope.
"""


def _cleaf(spec):
    if spec["t"] == "rec":
        return "(LRec %s %s)" % (cq(spec["a"]), cq(spec["k"]))
    if spec["strategy"] == "last":
        return "LNaiveLast"
    return "(LNaiveMean %s)" % ("None" if spec["wl"] is None else "(Some %s)" % cz(spec["wl"]))


def _cdata(t0, vals):
    return clist(["(%s, %s)" % (cz(t0 + i), cq(float(v))) for i, v in enumerate(vals)])


def _cfh(fh):
    return "None" if fh is None else "(Some %s)" % czlist(fh)


def _ccv(c):
    if c is None:
        return "None"
    return ("(Some {| cv_kind := SkV.C01.Model.%s; cv_fh := %s; cv_wl := %s; cv_step := %s; "
            "cv_sww := %s |})" % ("Sliding" if c["kind"] == "sliding" else "Expanding",
                                  czlist(c["fh"]), cz(c["wl"]), cz(c["step"]), cbool(c["sww"])))


def _cop(o):
    k = o[0]
    if k == "fit":
        return "OFit %s %s" % (_cdata(o[1], o[2]), _cfh(o[3]))
    if k == "update":
        return "OUpdate %s %s" % (_cdata(o[1], o[2]), cbool(o[3]))
    if k == "predict":
        return "OPredict %s" % _cfh(o[1])
    if k == "ups":
        return "OUps %s %s %s" % (_cdata(o[1], o[2]), _cfh(o[3]), cbool(o[4]))
    return "OUpdPred %s %s %s" % (_cdata(o[1], o[2]), _ccv(o[3]), cbool(o[4]))


def _cret(r):
    if r == "ok":
        return "BOk"
    if r == "err":
        return "BErr"
    if "pred" in r:
        return "(BPred %s)" % c09._cser(r["pred"])
    return "(BPreds %s)" % clist(["(%s, %s)" % (cz(c), c09._cser(p)) for c, p in r["preds"]])


def _cinputs(case):
    return "%s %s %s %s" % (_cleaf(case["spec"]), _cdata(case["t0"], case["y0"]), _cfh(case["fh0"]),
                            clist([_cop(o) for o in case["ops"]]))


def _nan(out):
    def bad(s):
        return any(v is None or isinstance(v, str) for _, v in s)
    for s in out["steps"]:
        r = s["ret"]
        if isinstance(r, dict):
            if "pred" in r and bad(r["pred"]):
                return True
            if "preds" in r and any(bad(p) for _, p in r["preds"]):
                return True
    return False


def _comp_in_coq(case):
    """composites of modelled parts, horizon given at fit, no re-fit in the history: run through
    coq/C10/Comp.v (the C09 model under the inherited methods)"""
    spec = case["spec"]
    return (spec["t"] in ("ens", "pipe", "mux", "stack") and c09._modelled(spec)
            and case["fh0"] is not None and all(o[0] != "fit" for o in case["ops"]))


def _ccomp_inputs(case):
    return "%s %s %s %s" % (c09._cspec(case["spec"]), _cdata(case["t0"], case["y0"]),
                            czlist(case["fh0"]), clist([_cop(o) for o in case["ops"]]))


def _has_abs(case):
    return isinstance(case["fh0"], dict) or any(
        (o[0] == "predict" and isinstance(o[1], dict)) or (o[0] in ("ups", "fit") and isinstance(o[3], dict))
        for o in case["ops"])


def coq_case(case, out):
    if _nan(out) or _has_abs(case):         # absolute horizons: oracle only (Model.v: relative steps)
        return None
    snaps = clist(["(%s, %s, %s, %s)" % (_cret(s["ret"]), cz(s["cut"]), c09._cser(s["mem"]),
                                         _cfh(s["fh"])) for s in out["steps"]])
    if _in_coq(case["spec"]):
        return "CHist %s %s" % (_cinputs(case), snaps)
    if _comp_in_coq(case) and all(s["ret"] != "err" for s in out["steps"]):
        return "CComp %s %s" % (_ccomp_inputs(case), snaps)
    return None


def coq_model_term(case):
    if _has_abs(case):
        return "tt"
    if _in_coq(case["spec"]):
        return "c_run %s" % _cinputs(case)
    if _comp_in_coq(case):
        return "kc_run %s" % _ccomp_inputs(case)
    return "tt"


def distribution(cases, results):
    import collections
    d = collections.Counter()
    for c, r in zip(cases, results):
        o = r.get("out") or {}
        st = o.get("steps", [])
        d["%s:%s" % (c["kind"], c["spec"]["t"])] += 1
        d["fh:%s" % c["fh_mode"]] += 1
        for op, s in zip(c["ops"], st[1:]):
            d["op:%s:%s" % (op[0], "err" if s["ret"] == "err" else "ok")] += 1
            if op[0] in ("update", "ups", "updpred") and op[1] <= s["cut_before"]:
                d["overlapping-batch"] += 1
        d["len=%d" % len(c["ops"])] += 1
    return dict(d)
