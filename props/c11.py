"""C11 - elementary forecasters compute the textbook forecast they document."""
from fractions import Fraction

from harness.core import cbool, clist, copt, cq, cz, czlist

ID = "C11"
MODEL_TARGETS = ["C11/Cases.vo"]
PROOF_TARGETS = ["C11/Proofs.vo", "C11/Gen.vo", "C11/Bridge.vo", "C11/OptsModel.vo", "C11/GenOpts.vo",
                 "C11/OptsBridge.vo", "C11/GenAdapter.vo", "C11/AdapterBridge.vo", "C11/Refuted.vo"]
OBLIGATION_FILES = ["C11/Bridge.v", "C11/OptsBridge.v", "C11/AdapterBridge.v", "C11/Refuted.v"]
PROPS_FILE = "C11/Props.v"
SHARD = 150
PER_CASE_TIMEOUT = 120
RULE = ("NaiveForecaster: all strategies x sp 1..4 x window_length None/1..n(+1) x n 1..12, series of "
        "small integers or dyadic rationals with 0-40% NaN, start offset random, RangeIndex or "
        "integer Index; horizons = sorted subsets of {-3..6} plus steps beyond one/two seasons "
        "(out-of-sample only 50%, in-sample only 20%, mixed 30%); window lengths that are not "
        "multiples of sp oversampled; a block of complete in-sample horizons -(n-1)..0 (every moving "
        "window cut by the start of the series); the configurations fit rejects (window shorter "
        "than a season, single-point drift window, window longer than the series, invalid sp / "
        "window_length) and their accepted neighbours. PolynomialTrendForecaster: degree 0..3, both intercept "
        "options, n up to 12 with #coefficients <= n (unique least-squares solution), in- and "
        "out-of-sample steps, NaN rejection. statsmodels adapters (ExponentialSmoothing, AutoETS "
        "fixed model, ThetaForecaster): contiguous and gapped, in- and out-of-sample horizons "
        "against a direct statsmodels call with the same options; AutoETS(auto=False) with every "
        "combination of error add/mul x trend None/add/mul x damped x seasonal None/add/mul (sp 4) "
        "and ExponentialSmoothing with every trend x damped x seasonal combination, on positive "
        "series (quick: every other multiplicative-error model + 6 random ETS + 6 random ES "
        "combinations; thorough: all of them on 4 series): forecasts AND the components of the "
        "wrapped model that was actually fitted against a direct statsmodels model with the "
        "requested options. Adapters whose CUTOFF differs from the end of the wrapped model's own "
        "data: fit(y1); update(y2, update_params=False) with 1..6 further observations; predict(fh) "
        "with in-sample, mixed and out-of-sample horizons relative to the new cutoff (ExponentialSmoothing "
        "ses/trend/HW and with options, AutoETS fixed model ann/HW and with options), against the "
        "statsmodels model fitted on y1 alone at the absolute positions cutoff+fh counted from the "
        "start of y1. non-trivial = forecast "
        "returned (or a documented rejection); distinct = distinct canonical JSON case")
TRUSTED = [
    "translator/naive_c11.py: the symbolic evaluator (static decision of `self.strategy == ...`, "
    "`x is None`, `None == k`, is_int(<int>); sp and window_length are integers or None)",
    "props/c11.py: case generators, canonicalisation of the forecaster output, and the direct "
    "statsmodels calls (ExponentialSmoothing / ETSModel / seasonal_decompose with the options the "
    "sktime class passes) used as the reference for the adapters",
    "modelled numpy/pandas facts: row-major reshape, nanmean over axis 0 ignoring NaN (NaN for an "
    "all-NaN column), np.tile, integer-array indexing, pandas .loc[start:cutoff] label slice on a "
    "contiguous integer index, CutoffSplitter(fh=1) windows cut at the start of the series, "
    "check_sp / check_window_length reject values < 1 with ValueError",
    "sklearn PolynomialFeatures + LinearRegression(fit_intercept=False) = ordinary least squares "
    "(unique solution when #coefficients <= n); float results compared in Q with relative "
    "tolerance 1e-9 after exact float -> rational conversion",
]
MODELLED = [
    "REGENERATED on every run by translator/naive_c11.py (fail closed) into build/coq/C11/Gen.v and "
    "proved equal to the hand model for all arguments in coq/C11/Bridge.v: NaiveForecaster.fit "
    "(gen_resolve_wl, gen_fit_sp) and NaiveForecaster._predict_last_window (gen_kernel) as whole "
    "function bodies per strategy; check_sp / check_window_length on integer arguments; "
    "ForecastingHorizon.to_indexer / to_absolute / to_relative / to_absolute_int as one-line "
    "expressions; _predict_nan; the in-sample cutoffs and fh=1 of _predict_in_sample; the label "
    "slice of _get_last_window; PolynomialTrendForecaster: LinearRegression(fit_intercept=False), "
    "PolynomialFeatures(degree, include_bias=with_intercept), np.arange(n_timepoints), "
    "to_absolute_int(index[0], cutoff), the prediction index. Pinned by shape only (not "
    "regenerated): the in-/out-of-sample dispatch of _BaseWindowForecaster._predict, "
    "_predict_moving_cutoff / CutoffSplitter (moving windows: tied by the correspondence run), "
    "_get_duration, _shift",
    "REGENERATED by translator/adapters_c11.py into C11/GenOpts.v: the option-forwarding tables of "
    "AutoETS._fit_forecaster (user-specified branch and automatic search) and of "
    "ExponentialSmoothing._fit_forecaster (inherited by ThetaForecaster): (statsmodels keyword, "
    "source) for the constructor and the fit call, keywords written out or collected in dicts and "
    "splatted, plus the __init__ parameters and whether they are stored verbatim; OptsBridge.v "
    "compares them with the pinned tables and proves on the generated tables that every option is "
    "forwarded under the matching keyword. AutoETS(auto=True) itself is not run (only its "
    "forwarding table is tied)",
    "the numpy primitives of the generated code (np_* / sq_* in Model.v: hstack, full, tile, "
    "repeat, reshape(-1, c), nanmean, isnan/all/any, integer-array indexing, int(ceil(a / b)) for "
    "b > 0, float arithmetic with NaN as None) are modelled, checked only through the "
    "correspondence run",
    "polynomial fit: model solves and CHECKS the normal equations in Q; theorem = whatever it "
    "returns minimises the squared error (all degrees); that elimination always succeeds for "
    "#coefficients <= n is only observed, not proved (poly_is_lsq_partial)",
    "REGENERATED by translator/adapters_c11.py into C11/GenAdapter.v (fail closed, canonical tree of "
    "_StatsModelsAdapter._predict): start / end handed to the wrapped results = first / last entry of "
    "fh.to_absolute_int(self._y.index[0], self.cutoff), labels = fh.to_absolute(self.cutoff); "
    "AdapterBridge.v proves them equal to the model's adapter_predict_at for all arguments (positions "
    "counted from the start of the training series, placed by the cutoff). Modelled: the wrapped "
    "results label position p by index[0] + p",
    "statsmodels forecasts are oracle values from a direct statsmodels call; only the adapter's "
    "delegation and step selection is modelled. ThetaForecaster is not run through "
    "update(update_params=False) (its drift term is sktime's own and mixes fit-time and update-time "
    "state; the text does not say what it should be). ThetaForecaster's drift/re-seasonalisation is "
    "restated in the Python oracle (SES + trend/2*(h+(1-(1-a)^n)/a), times the seasonal factor of "
    "the step's phase), not proved",
    "AutoETS(auto=True) model search, prediction intervals, exogenous X, datetime/period indices: "
    "not covered",
]
NOT_RUNNABLE = []


def translate(repo):
    """Regenerated on every run (build/coq/C11/Gen.v), fail closed: NaiveForecaster.fit and
    _predict_last_window as whole function bodies, the validators / ForecastingHorizon one-liners /
    window and in-sample-cutoff expressions they rely on, the design matrix and time axes of
    PolynomialTrendForecaster."""
    from translator import adapters_c11, naive_c11
    files = dict(naive_c11.translate(repo))
    files.update(adapters_c11.translate(repo))     # C11/GenOpts.v: option forwarding of the adapters
    return files


# ------------------------------------------------------------------------------------------------
# generators


def _series(rng, n, nan_rate):
    den = rng.choice([1, 1, 2, 4])
    y = [rng.randint(-8 * den, 20 * den) for _ in range(n)]
    y = [None if rng.random() < nan_rate else v for v in y]
    return y, den


def _fh(rng, n, sp, mode):
    lo = -min(3, n - 1)
    ins = list(range(lo, 1))
    oos = list(range(1, 7))
    far = sorted(set([sp + 1, 2 * sp, 2 * sp + 1, 3 * sp + 2, 11]))
    if mode == "oos":
        pool = oos + far
    elif mode == "ins":
        pool = ins
    else:
        pool = ins + oos + far
    pool = sorted(set(h for h in pool if h >= -(n - 1)))   # never before the start of the series
    if not pool:
        pool = [1]
    k = rng.choice([1, 2, 3, 4, 6])
    fh = sorted(rng.sample(pool, min(k, len(pool))))
    return fh


def _naive_case(rng, strategy=None, n=None, sp=None, wl="rand", mode=None, nan_rate=None):
    strategy = strategy or rng.choice(["last", "last", "mean", "mean", "mean", "drift"])
    n = n or rng.choice([1, 2, 3, 4, 5, 6, 7, 8, 9, 10, 11, 12])
    sp = sp or rng.choice([1, 2, 3, 4] if strategy != "drift" else [1, 1, 1, 2])
    if wl == "rand":
        r = rng.random()
        if r < 0.2:
            wl = None
        elif r < 0.9:
            wl = rng.randint(1, n)
        else:
            wl = rng.choice([n + 1, max(1, sp - 1), 1])
    if nan_rate is None:
        nan_rate = rng.choice([0, 0, 0, 0.15, 0.4]) if strategy != "drift" else rng.choice(
            [0, 0, 0, 0, 0.15])
    y, den = _series(rng, n, nan_rate)
    mode = mode or rng.choice(["oos"] * 5 + ["ins"] * 2 + ["mix"] * 3)
    return {"kind": "naive", "strategy": strategy, "sp": sp, "wl": wl, "y": y, "den": den,
            "t0": rng.choice([0, 0, 1, 5, 17, -4]), "idx": rng.choice(["range", "int"]),
            "fh": _fh(rng, n, sp, mode)}


def _poly_case(rng):
    degree = rng.choice([0, 1, 1, 1, 2, 2, 3])
    ic = rng.random() < 0.6
    m = degree + 1 if ic else degree
    n = rng.randint(max(m, 1) if ic else max(m + 1, 2), 12)
    nan_rate = 0.2 if rng.random() < 0.06 else 0
    y, den = _series(rng, n, nan_rate)
    fh = _fh(rng, n, 1, rng.choice(["oos", "ins", "mix", "mix"]))
    return {"kind": "poly", "degree": degree, "intercept": ic, "y": y, "den": den,
            "t0": rng.choice([0, 0, 3, 11, -2]), "idx": rng.choice(["range", "int"]), "fh": fh}


ADAPTERS = ["es", "es_trend", "es_hw", "ets", "ets_hw", "theta", "theta_sp"]
# adapters with NON-DEFAULT options ("fitted with the same options"): every component combination
ETS_OPTS = [dict(error=e, trend=t, damped_trend=d, seasonal=s_, sp=4 if s_ else 1)
            for e in ("add", "mul") for t in (None, "add", "mul") for d in (False, True)
            for s_ in (None, "add", "mul") if not (t is None and d)]
ES_OPTS = [dict(trend=t, damped_trend=d, seasonal=s_, sp=4 if s_ else None)
           for t in (None, "add", "mul") for d in (False, True) for s_ in (None, "add", "mul")
           if not (t is None and d)]


UPD_ADAPTERS = ["es", "es_trend", "es_hw", "ets", "ets_hw"]     # not theta: see MODELLED


def _adapter_case(rng, model=None, upd=False):
    model = model or rng.choice(ADAPTERS)
    n = rng.randint(12, 20)
    base = rng.randint(20, 60)
    slope = rng.choice([0, 1, 2])
    seas = [0, 3, -2, 4]
    y = [4 * (base + slope * i + seas[i % 4]) + rng.randint(-6, 6) for i in range(n)]
    pool = list(range(-3, 9))
    fh = sorted(rng.sample(pool, rng.choice([1, 2, 3, 4])))
    if rng.random() < 0.3:
        fh = list(range(1, rng.randint(2, 7)))
    c = {"kind": "adapter", "model": model, "y": y, "den": 4,
         "t0": rng.choice([0, 0, 5, 30]), "idx": rng.choice(["range", "int"]), "fh": fh}
    if model == "ets_opt":
        c["opts"] = dict(rng.choice(ETS_OPTS))
    elif model == "es_opt":
        c["opts"] = dict(rng.choice(ES_OPTS))
    if upd:
        # further observations of the same process, handed to update(update_params=False): the cutoff
        # moves on, the wrapped model stays the one fitted on y
        k = rng.choice([1, 1, 2, 3, 4, 5, 6])
        c["upd"] = [4 * (base + slope * i + seas[i % 4]) + rng.randint(-6, 6) for i in range(n, n + k)]
    return c


def gen_cases(rng, tier):
    cases = []
    quick = tier == "quick"
    for _ in range(330 if quick else 6000):
        cases.append(_naive_case(rng))
    # seasonal mean / last with every window length relation to sp, horizons beyond a season
    for _ in range(110 if quick else 2000):
        sp = rng.choice([2, 3, 4])
        n = rng.randint(sp, 12)
        strategy = rng.choice(["mean", "mean", "last"])
        wl = rng.randint(sp, n) if rng.random() < 0.85 else None
        cases.append(_naive_case(rng, strategy=strategy, n=n, sp=sp, wl=wl,
                                 mode=rng.choice(["oos", "oos", "mix", "ins"])))
    # in-sample steps whose moving window is complete (small windows, long series)
    for _ in range(60 if quick else 1000):
        strategy = rng.choice(["last", "mean", "drift"])
        sp = rng.choice([1, 2, 3]) if strategy != "drift" else 1
        n = rng.randint(8, 12)
        wl = rng.randint(max(sp, 2), 4)
        cases.append(_naive_case(rng, strategy=strategy, n=n, sp=sp, wl=wl,
                                 mode=rng.choice(["ins", "mix"]), nan_rate=rng.choice([0, 0, 0.15])))
    # every in-sample step from the first observation on: all moving windows cut by the start of
    # the series (formerly F-C11-1..3), incl. the first step (empty window) and missing values
    for _ in range(50 if quick else 800):
        strategy = rng.choice(["last", "mean", "mean", "drift"])
        sp = rng.choice([1, 2, 3, 4]) if strategy != "drift" else 1
        n = rng.randint(max(sp, 2), 9)
        wl = rng.choice([None, None, rng.randint(max(sp, 2), n)])
        c = _naive_case(rng, strategy=strategy, n=n, sp=sp, wl=wl, mode="ins",
                        nan_rate=rng.choice([0, 0, 0.2]))
        c["fh"] = list(range(-(n - 1), 1)) + rng.choice([[], [1, sp + 1]])
        cases.append(c)
    # the documented rejections at fit and their accepted neighbours
    for _ in range(24 if quick else 300):
        kind = rng.choice(["drift1", "drift2", "mean<sp", "mean=sp", "wl<sp", "wl=1", "wl>n",
                           "bad-sp", "bad-wl", "ignored"])
        sp = rng.choice([2, 3, 4])
        if kind == "drift1":
            c = _naive_case(rng, strategy="drift", n=1, sp=1, wl=None, mode="oos")
        elif kind == "drift2":
            c = _naive_case(rng, strategy="drift", n=2, sp=1, wl=rng.choice([None, 2]))
        elif kind == "mean<sp":
            c = _naive_case(rng, strategy="mean", n=rng.randint(1, sp - 1), sp=sp, wl=None, mode="oos")
        elif kind == "mean=sp":
            c = _naive_case(rng, strategy="mean", n=sp, sp=sp, wl=rng.choice([None, sp]))
        elif kind == "wl<sp":
            c = _naive_case(rng, strategy="mean", n=rng.randint(sp, 8), sp=sp, wl=sp - 1, mode="oos")
        elif kind == "wl=1":
            c = _naive_case(rng, strategy="drift", n=rng.randint(1, 6), sp=1, wl=1, mode="oos")
        elif kind == "wl>n":
            n = rng.randint(1, 6)
            c = _naive_case(rng, strategy=rng.choice(["mean", "drift", "last"]), n=n,
                            sp=rng.choice([1, n + 1]), wl=n + 1, mode="oos")
        elif kind == "bad-sp":
            c = _naive_case(rng, strategy=rng.choice(["last", "mean"]), n=rng.randint(2, 6), sp=1,
                            wl=rng.choice([None, 2]), mode="oos")
            c["sp"] = rng.choice([0, -1])
        elif kind == "bad-wl":
            c = _naive_case(rng, strategy=rng.choice(["mean", "drift"]), n=rng.randint(2, 6), sp=1,
                            wl=rng.choice([0, -2]), mode="oos")
        else:   # parameters the strategy ignores may be anything
            if rng.random() < 0.5:
                c = _naive_case(rng, strategy="last", n=rng.randint(3, 6), sp=rng.choice([1, 2]),
                                wl=rng.choice([0, -3, 99]), mode="oos")
            else:
                c = _naive_case(rng, strategy="drift", n=rng.randint(3, 6), sp=1, wl=None, mode="oos")
                c["sp"] = rng.choice([0, -2, 7])
        cases.append(c)
    for _ in range(110 if quick else 1500):
        cases.append(_poly_case(rng))
    for i in range(42 if quick else 300):
        cases.append(_adapter_case(rng, ADAPTERS[i % len(ADAPTERS)]))
    # the adapters with non-default options, on positive series: quick = a random half of the
    # component combinations, thorough = every combination on several series
    for k in range(1 if quick else 4):
        ets = list(ETS_OPTS)
        es_ = list(ES_OPTS)
        if quick:
            rng.shuffle(ets)
            rng.shuffle(es_)
            # every multiplicative-error model with a trend or a season is always included
            keep = [o for o in ETS_OPTS if o["error"] == "mul" and (o["trend"] or o["seasonal"])]
            ets = keep[::2] + [o for o in ets if o not in keep][:6]
            es_ = es_[:6]
        for o in ets:
            c = _adapter_case(rng, "ets_opt")
            c["opts"] = dict(o)
            cases.append(c)
        for o in es_:
            c = _adapter_case(rng, "es_opt")
            c["opts"] = dict(o)
            cases.append(c)
    # cutoff != end of the wrapped model's data: fit(y1); update(y2, update_params=False); predict
    for i in range(30 if quick else 200):
        cases.append(_adapter_case(rng, UPD_ADAPTERS[i % len(UPD_ADAPTERS)], upd=True))
    for i in range(6 if quick else 40):
        m = ("ets_opt", "es_opt")[i % 2]
        cases.append(_adapter_case(rng, m, upd=True))
    if not quick:
        cases += exhaustive_cases()
    return cases


def exhaustive_cases():
    """n <= 12, sp <= 4, wl <= n, every strategy, fixed integer data: three horizons per
    configuration (all out-of-sample steps 1..6 + beyond a season, all in-sample steps -3..0, and a
    gapped mix) - every single step h in {-3..6} is covered for every (n, sp, wl)."""
    out = []
    for n in range(1, 13):
        y = [(7 * i * i + 3 * i) % 23 - 5 for i in range(n)]
        for strategy in ("last", "mean", "drift"):
            for sp in ((1, 2, 3, 4) if strategy != "drift" else (1,)):
                for wl in [None] + list(range(1, n + 1)):
                    lo = -min(3, n - 1)
                    for fh in ([1, 2, 3, 4, 5, 6, 2 * sp + 1, 3 * sp + 2],
                               list(range(lo, 1)), [lo, 0, 2, 5]):
                        out.append({"kind": "naive", "strategy": strategy, "sp": sp, "wl": wl,
                                    "y": y, "den": 1, "t0": 0, "idx": "range",
                                    "fh": sorted(set(fh))})
    return out


# ------------------------------------------------------------------------------------------------
# implementation side (driver subprocess)


def _mk_y(case):
    import numpy as np
    import pandas as pd
    vals = [np.nan if v is None else v / case["den"] for v in case["y"]]
    n, t0 = len(vals), case["t0"]
    if case.get("idx") == "int":
        index = pd.Index(np.arange(t0, t0 + n))
    else:
        index = pd.RangeIndex(t0, t0 + n)
    return pd.Series(np.array(vals, dtype=float), index=index)


def _canon(p):
    from harness.core import float_ratio
    return {"index": [int(i) for i in p.index], "vals": [float_ratio(v) for v in p.values]}


def _direct_statsmodels(case, y0):
    """Reference for the adapters: the wrapped statsmodels model called directly, zero-based
    RangeIndex, with the options the sktime class documents to pass; dense forecast for the
    positions first..last requested."""
    import numpy as np
    import pandas as pd
    from statsmodels.tsa.holtwinters import ExponentialSmoothing as SM_ES
    from statsmodels.tsa.exponential_smoothing.ets import ETSModel
    n = len(y0)
    fh = case["fh"]
    # positions counted from the start of y0 (the data the model is fitted on); the cutoff is the
    # last observation SEEN, i.e. len(upd) positions after the end of y0 when the forecaster was
    # updated without refitting
    cut = n - 1 + len(case.get("upd") or [])
    start, end = cut + fh[0], cut + fh[-1]
    m = case["model"]
    y0 = pd.Series(np.asarray(y0, dtype=float))
    if m == "ets_opt":
        o = case["opts"]
        model = ETSModel(y0, error=o["error"], trend=o["trend"], damped_trend=o["damped_trend"],
                         seasonal=o["seasonal"], seasonal_periods=o["sp"],
                         initialization_method="estimated", initial_level=None, initial_trend=None,
                         initial_seasonal=None, bounds=None, dates=None, freq=None, missing="none")
        fit = model.fit(start_params=None, maxiter=1000, full_output=True, disp=False, callback=None,
                        return_params=False)
        return [float(v) for v in fit.predict(start, end).values]
    if m == "es_opt":
        o = case["opts"]
        fit = SM_ES(y0, trend=o["trend"], damped_trend=o["damped_trend"], seasonal=o["seasonal"],
                    seasonal_periods=o["sp"], use_boxcox=None, initial_level=None, initial_trend=None,
                    initial_seasonal=None, initialization_method="estimated").fit()
        return [float(v) for v in fit.predict(start, end).values]
    if m in ("es", "es_trend", "es_hw"):
        kw = {"es": dict(trend=None, seasonal=None, seasonal_periods=None),
              "es_trend": dict(trend="add", seasonal=None, seasonal_periods=None),
              "es_hw": dict(trend="add", seasonal="add", seasonal_periods=4)}[m]
        fit = SM_ES(y0, damped_trend=False, use_boxcox=None, initial_level=None,
                    initial_trend=None, initial_seasonal=None,
                    initialization_method="estimated", **kw).fit()
        return [float(v) for v in fit.predict(start, end).values]
    if m in ("ets", "ets_hw"):
        kw = {"ets": dict(error="add", trend=None, seasonal=None, seasonal_periods=1),
              "ets_hw": dict(error="add", trend="add", seasonal="add", seasonal_periods=4)}[m]
        fit = ETSModel(y0, damped_trend=False, initialization_method="estimated",
                       initial_level=None, initial_trend=None, initial_seasonal=None, bounds=None,
                       dates=None, freq=None, missing="none", **kw).fit(
            start_params=None, maxiter=1000, full_output=True, disp=False, callback=None,
            return_params=False)
        return [float(v) for v in fit.predict(start, end).values]
    # theta: SES on the (multiplicatively de-seasonalised) series + drift, re-seasonalised
    sp = 4 if m == "theta_sp" else 1
    seas = np.ones(1)
    yd = y0
    if True:  # the Deseasonalizer is applied for sp = 1 too (factors are all 1)
        from statsmodels.tsa.seasonal import seasonal_decompose
        seas = seasonal_decompose(y0, model="multiplicative", period=sp, filt=None, two_sided=True,
                                  extrapolate_trend=0).seasonal.iloc[:sp].values
        yd = y0 / np.resize(seas, n)
    fit = SM_ES(yd, trend=None, damped_trend=False, seasonal=None, seasonal_periods=sp,
                use_boxcox=None, initial_level=None, initial_trend=None, initial_seasonal=None,
                initialization_method="estimated").fit()
    a = fit.params["smoothing_level"]
    slope = np.polyfit(np.arange(n), yd.values, 1)[0]
    ses = fit.predict(start, end).values
    out = []
    for k, pos in enumerate(range(start, end + 1)):
        h = pos - (n - 1)
        drift = slope / 2 * h if np.isclose(a, 0.0) else slope / 2 * (h + (1 - (1 - a) ** n) / a)
        out.append(float((ses[k] + drift) * seas[pos % sp]))
    return out


def run_impl(case):
    import warnings
    warnings.simplefilter("ignore")
    from harness.core import float_ratio
    k = case["kind"]
    y = _mk_y(case)
    stage = "fit"
    try:
        if k == "naive":
            from sktime.forecasting.naive import NaiveForecaster
            f = NaiveForecaster(strategy=case["strategy"], window_length=case["wl"], sp=case["sp"])
            f.fit(y)
            stage = "predict"
            out = _canon(f.predict(fh=list(case["fh"])))
            out["wl_"] = int(f.window_length_)
            return out
        if k == "poly":
            from sktime.forecasting.trend import PolynomialTrendForecaster
            f = PolynomialTrendForecaster(degree=case["degree"], with_intercept=case["intercept"])
            f.fit(y)
            stage = "predict"
            return _canon(f.predict(fh=list(case["fh"])))
        if k == "adapter":
            m = case["model"]
            if m in ("ets_opt", "es_opt"):
                o = case["opts"]
                if m == "ets_opt":
                    from sktime.forecasting.ets import AutoETS
                    f = AutoETS(auto=False, **o)
                else:
                    from sktime.forecasting.exp_smoothing import ExponentialSmoothing
                    f = ExponentialSmoothing(**o)
            elif m.startswith("es"):
                from sktime.forecasting.exp_smoothing import ExponentialSmoothing
                kw = {"es": {}, "es_trend": dict(trend="add"),
                      "es_hw": dict(trend="add", seasonal="add", sp=4)}[m]
                f = ExponentialSmoothing(**kw)
            elif m.startswith("ets"):
                from sktime.forecasting.ets import AutoETS
                kw = {"ets": {}, "ets_hw": dict(trend="add", seasonal="add", sp=4)}[m]
                f = AutoETS(**kw)
            else:
                from sktime.forecasting.theta import ThetaForecaster
                f = ThetaForecaster(sp=4 if m == "theta_sp" else 1)
            vals0 = [v / case["den"] for v in case["y"]]
            f.fit(y)
            if case.get("upd"):
                stage = "update"
                import numpy as np
                import pandas as pd
                t1 = case["t0"] + len(case["y"])
                u = np.array([v / case["den"] for v in case["upd"]], dtype=float)
                ix = (pd.Index(np.arange(t1, t1 + len(u))) if case.get("idx") == "int"
                      else pd.RangeIndex(t1, t1 + len(u)))
                f.update(pd.Series(u, index=ix), update_params=False)
            stage = "predict"
            out = _canon(f.predict(fh=list(case["fh"])))
            out["dense"] = [float_ratio(v) for v in _direct_statsmodels(case, vals0)]
            if "opts" in case:
                # the components of the WRAPPED statsmodels model that was actually fitted
                w = f._forecaster
                out["wrapped"] = {"error": getattr(w, "error", None), "trend": w.trend,
                                  "damped_trend": bool(w.damped_trend), "seasonal": w.seasonal,
                                  "sp": None if w.seasonal_periods is None else int(w.seasonal_periods)}
            return out
        raise AssertionError(k)
    except (ValueError, IndexError, KeyError) as e:
        return {"err": type(e).__name__, "stage": stage, "msg": str(e)[:160]}


# ------------------------------------------------------------------------------------------------
# oracle: the textbook definitions, written independently of the implementation's reshape/tile
# trick, in exact rational arithmetic on (time, value) pairs


def _fr(v):
    if v is None:
        return None
    if isinstance(v, str):
        return v
    return Fraction(v[0], v[1])


def _close(a, b):
    if a is None or b is None:
        return a is None and b is None
    if isinstance(a, str) or isinstance(b, str):
        return False
    return abs(a - b) <= Fraction(1, 10 ** 9) * max(1, abs(a), abs(b))


def _nanmean(vs):
    vs = [v for v in vs if v is not None]
    return sum(vs) / len(vs) if vs else None


def _reject_reason(case):
    """Why fit is documented to reject this configuration (None = it must be accepted).  The
    window is the given window_length or, by default, the whole training series; "last" never
    reads window_length, "drift" never reads sp."""
    s, sp, wl, n = case["strategy"], case["sp"], case["wl"], len(case["y"])
    if s == "last":
        if sp < 1:
            return "sp < 1"
        w = sp
    else:
        if wl is not None and wl < 1:
            return "window_length < 1"
        w = n if wl is None else wl
        if s == "mean":
            if sp < 1:
                return "sp < 1"
            if sp != 1 and w < sp:
                return "seasonal mean over a window of %d < sp = %d (less than one season)" % (w, sp)
        elif w == 1:
            return "drift through a window of a single point"
    if w > n:
        return "window of %d longer than the training series (%d)" % (w, n)
    return None


def _resolve(case):
    """Documented window-length resolution; 'reject' for the documented rejections."""
    if _reject_reason(case) is not None:
        return "reject"
    s, sp, wl, n = case["strategy"], case["sp"], case["wl"], len(case["y"])
    if s == "last":
        return sp
    return n if wl is None else wl


UNDEF = "undefined"


def textbook_naive(case, wl_):
    """Per requested step: (expected value | None | UNDEF, short_window flag)."""
    s, sp = case["strategy"], case["sp"]
    y = [None if v is None else Fraction(v, case["den"]) for v in case["y"]]
    n = len(y)
    res = []
    for r in case["fh"]:
        target = n - 1 + r                      # position to forecast
        cut = n - 1 if r > 0 else target - 1     # cutoff the forecast is made from
        lo = cut - wl_ + 1
        short = lo < 0
        obs = [(p, y[p]) for p in range(max(lo, 0), cut + 1)]   # the last window
        h = target - cut
        if not obs or all(v is None for _, v in obs):
            res.append((None, short))
        elif s == "last":
            same = [v for p, v in obs if (p - target) % sp == 0]
            res.append((same[-1] if same else None, short))
        elif s == "mean":
            res.append((_nanmean([v for p, v in obs if (p - target) % sp == 0]), short))
        else:
            if len(obs) < 2:
                res.append((None, short))
            elif obs[0][1] is None or obs[-1][1] is None:
                res.append((UNDEF, short))
            else:
                a, b = obs[0][1], obs[-1][1]
                res.append((b + h * (b - a) / (len(obs) - 1), short))
    return res


def _solve_exact(A, b):
    m = len(A)
    M = [list(r) + [x] for r, x in zip(A, b)]
    for c in range(m):
        piv = next((r for r in range(c, m) if M[r][c] != 0), None)
        if piv is None:
            return None
        M[c], M[piv] = M[piv], M[c]
        M[c] = [x / M[c][c] for x in M[c]]
        for r in range(m):
            if r != c and M[r][c] != 0:
                M[r] = [x - M[r][c] * z for x, z in zip(M[r], M[c])]
    return [M[r][m] for r in range(m)]


def textbook_poly(case):
    """Least-squares polynomial in the zero-based time, exact; values at positions n-1+r."""
    y = [Fraction(v, case["den"]) for v in case["y"]]
    n = len(y)
    pw = list(range(0 if case["intercept"] else 1, case["degree"] + 1))
    A = [[sum(Fraction(t) ** (i + j) for t in range(n)) for j in pw] for i in pw]
    b = [sum(Fraction(t) ** i * y[t] for t in range(n)) for i in pw]
    coef = _solve_exact(A, b)
    if coef is None:
        return None
    return [sum(c * Fraction(n - 1 + r) ** p for c, p in zip(coef, pw)) for r in case["fh"]]


def _labels(case, out):
    n, t0 = len(case["y"]) + len(case.get("upd") or []), case["t0"]
    want = [t0 + n - 1 + r for r in case["fh"]]
    if out["index"] != want:
        return "labels: index %s expected cutoff+fh %s" % (out["index"], want)
    return None


def oracle(case, out):
    k = case["kind"]
    if out.get("err") in ("IndexError", "KeyError"):
        return "raised-for-defined-forecast: %s at %s: %s" % (out["err"], out.get("stage"), out.get("msg"))
    if k == "naive":
        wl_ = _resolve(case)
        if wl_ == "reject":
            if out.get("err") == "ValueError" and out["stage"] == "fit":
                return None
            if "err" in out:
                return "raised-for-defined-forecast: %s at %s: %s" % (
                    out["err"], out.get("stage"), out.get("msg"))
            return "accepted-invalid-configuration: %s (wl=%s sp=%s n=%d): no textbook forecast, got %s" % (
                _reject_reason(case), case["wl"], case["sp"], len(case["y"]),
                [float(_fr(v)) if isinstance(v, (list, tuple)) else v for v in out["vals"]])
        if "err" in out and out["stage"] == "fit":
            return "rejected-valid-configuration: %s" % out.get("msg")
        exp = textbook_naive(case, wl_)
        ins_short = [i for i, (r, (v, short)) in enumerate(zip(case["fh"], exp)) if short and r <= 0]
        if "err" in out:
            if any(v == UNDEF for v, _ in exp):
                return None       # drift through a missing end point: undefined, error accepted
            if case["strategy"] == "mean" and case["sp"] > 1 and ins_short:
                return ("insample-short-window-seasonal-mean-raises: %s for in-sample steps %s "
                        "whose window is cut by the start of the series" % (
                            out.get("msg"), [case["fh"][i] for i in ins_short]))
            return "raised-for-defined-forecast: %s" % out.get("msg")
        if out.get("wl_") != wl_:
            return "window-length-resolution: window_length_=%s expected %s" % (out.get("wl_"), wl_)
        f = _labels(case, out)
        if f:
            return f
        got = [_fr(v) for v in out["vals"]]
        if len(got) != len(exp):
            return "one-value-per-step: %d values for %d steps" % (len(got), len(exp))
        bad = [i for i, ((v, _), g) in enumerate(zip(exp, got))
               if not (_close(v, g) or (v == UNDEF and g is None))]
        if not bad:
            return None
        i = bad[0]
        what = "step %d: got %s expected %s" % (
            case["fh"][i], None if got[i] is None else float(got[i]),
            exp[i][0] if exp[i][0] in (None, UNDEF) else float(exp[i][0]))
        if all(i in ins_short for i in bad):
            tag = {"last": "seasonal-last", "mean": "mean", "drift": "drift"}[case["strategy"]]
            return "insample-short-window-%s: %s" % (tag, what)
        names = {"last": "last-value" if case["sp"] == 1 else "seasonal-last-not-aligned",
                 "mean": "window-mean" if case["sp"] == 1 else "seasonal-mean-not-aligned",
                 "drift": "drift-line"}
        return "%s: %s" % (names[case["strategy"]], what)
    if k == "poly":
        has_nan = any(v is None for v in case["y"])
        m = case["degree"] + (1 if case["intercept"] else 0)
        if has_nan or m == 0:
            return None if "err" in out else "accepted-invalid-input"
        if "err" in out:
            return "raised-for-defined-forecast: %s" % out.get("msg")
        f = _labels(case, out)
        if f:
            return f
        exp = textbook_poly(case)
        got = [_fr(v) for v in out["vals"]]
        if exp is None:
            return None
        for r, e, g in zip(case["fh"], exp, got):
            if not _close(e, g):
                return "not-least-squares-polynomial: step %d got %s expected %s" % (
                    r, None if g is None else float(g), float(e))
        if len(got) != len(exp):
            return "one-value-per-step: %d values for %d steps" % (len(got), len(exp))
        return None
    if k == "adapter":
        if "err" in out:
            return "raised-for-defined-forecast: %s" % out.get("msg")
        f = _labels(case, out)
        if f:
            return f
        if "opts" in case:
            # "fitted with the same options": the wrapped model has the requested components
            for k_, want in sorted(case["opts"].items()):
                have = out["wrapped"].get(k_)
                if k_ == "sp" and case["opts"].get("seasonal") is None:
                    continue                      # statsmodels ignores the period of a non-seasonal model
                if have != want:
                    return ("adapter-option-not-forwarded: %s=%r was requested, the wrapped statsmodels "
                            "model was built with %s=%r (options %s)" % (k_, want, k_, have, case["opts"]))
        dense = [_fr(v) for v in out["dense"]]
        got = [_fr(v) for v in out["vals"]]
        fh = case["fh"]
        if len(got) != len(fh):
            return "one-value-per-step: %d values for %d steps" % (len(got), len(fh))
        bad = [r for r, g in zip(fh, got) if not _close(dense[r - fh[0]], g)]
        if not bad:
            return None
        r = bad[0]
        what = "step %d got %s direct statsmodels %s" % (
            r, float(got[fh.index(r)]), float(dense[r - fh[0]]))
        contiguous = fh == list(range(fh[0], fh[-1] + 1))
        if case["model"] == "theta_sp" and not contiguous:
            return "theta-gapped-horizon-seasonal-factors: %s" % what
        if case.get("upd"):
            n0, k_ = len(case["y"]), len(case["upd"])
            return ("adapter-after-update-not-the-wrapped-models-forecast-at-cutoff+fh: fitted on %d "
                    "observations, cutoff moved on by %d without refit: %s for position %d counted from "
                    "the start of the training series" % (n0, k_, what, n0 + k_ - 1 + r))
        return "adapter-differs-from-direct-statsmodels: %s" % what
    return "unknown-kind"


def nontrivial(case, out):
    if case["kind"] == "naive":
        return "err" not in out or _resolve(case) == "reject"
    return "err" not in out


def shrink(case):
    c = dict(case)
    fh = c["fh"]
    if len(fh) > 1:
        for i in range(len(fh)):
            d = dict(c)
            d["fh"] = fh[:i] + fh[i + 1:]
            yield d
    if c["kind"] == "adapter":
        if c.get("upd") and len(c["upd"]) > 1:
            yield dict(c, upd=c["upd"][:-1])
        return
    y = c["y"]
    if len(y) > 1:
        for d in (dict(c, y=y[1:]), dict(c, y=y[:-1])):
            if d["kind"] == "naive" and d.get("wl") is not None and d["wl"] > len(d["y"]):
                continue
            if any(r < -(len(d["y"]) - 1) for r in d["fh"]):
                continue
            yield d
    if c.get("t0"):
        yield dict(c, t0=0)
    if c.get("idx") == "int":
        yield dict(c, idx="range")
    if c.get("den", 1) != 1:
        yield dict(c, den=1)
    for i, v in enumerate(y):
        if v not in (None, 0, 1):
            yield dict(c, y=y[:i] + [v // 2] + y[i + 1:])
    for i, r in enumerate(fh):
        if r > 1 and r - 1 not in fh:
            yield dict(c, fh=fh[:i] + [r - 1] + fh[i + 1:])


# ------------------------------------------------------------------------------------------------
# model side


CASES_HEADER = """From Coq Require Import ZArith QArith List Bool.
Require Import SkV.Lib.Base SkV.Lib.ZRange SkV.C11.Model SkV.C11.Cases.
Import ListNotations.
Open Scope Z_scope.
"""


def _coq(v):
    """float_ratio value -> Coq oq term (None for NaN / infinities)."""
    if v is None or isinstance(v, str):
        return "None"
    return "(Some %s)" % cq(v)


def _cys(case):
    return clist(["None" if v is None else "(Some %s)" % cq([v, case["den"]]) for v in case["y"]])


def _cout(out):
    if "err" in out:
        return "None"
    return "(Some %s)" % clist([_coq(v) for v in out["vals"]])


_STRAT = {"last": "SLast", "mean": "SMean", "drift": "SDrift"}


def coq_case(case, out):
    k = case["kind"]
    if k == "naive":
        return "CNaive %s %s %s %s %s %s" % (_STRAT[case["strategy"]], cz(case["sp"]),
                                            copt(case["wl"], cz), _cys(case), czlist(case["fh"]),
                                            _cout(out))
    if k == "poly":
        return "CPoly %s %s %s %s %s" % (cz(case["degree"]), cbool(case["intercept"]), _cys(case),
                                        czlist(case["fh"]), _cout(out))
    if k == "adapter":
        if "err" in out:
            return None
        if case.get("upd"):
            return "CAdapterUpd %s %s %s %s %s" % (cz(len(case["y"])), cz(len(case["upd"])),
                                                  clist([_coq(v) for v in out["dense"]]),
                                                  czlist(case["fh"]), _cout(out))
        return "CAdapter %s %s %s %s" % (cz(len(case["y"])), clist([_coq(v) for v in out["dense"]]),
                                        czlist(case["fh"]), _cout(out))
    return None


def coq_model_term(case):
    k = case["kind"]
    if k == "naive":
        return "naive_predict %s %s %s %s %s" % (_STRAT[case["strategy"]], cz(case["sp"]),
                                                copt(case["wl"], cz), _cys(case),
                                                czlist(case["fh"]))
    if k == "poly":
        return "poly_predict %s %s %s %s" % (cz(case["degree"]), cbool(case["intercept"]),
                                            _cys(case), czlist(case["fh"]))
    return "tt"


def distribution(cases, results):
    import collections
    d = collections.Counter()
    for c, r in zip(cases, results):
        o = r.get("out") or {}
        if c["kind"] == "naive":
            key = "naive:%s:sp%s" % (c["strategy"], "=1" if c["sp"] == 1 else ">1")
            d[key] += 1
            wl_ = _resolve(c)
            if wl_ != "reject" and c["sp"] > 1 and wl_ % c["sp"] != 0 and c["strategy"] == "mean":
                d["naive:mean:window-not-multiple-of-sp"] += 1
            if any(r_ <= 0 for r_ in c["fh"]):
                d["naive:has-in-sample-step"] += 1
            if wl_ != "reject" and any(r_ <= 0 and len(c["y"]) - 1 + r_ - wl_ < 0 for r_ in c["fh"]):
                d["naive:in-sample-window-cut-by-series-start"] += 1
            if wl_ == "reject":
                d["naive:documented-rejection:%s" % _reject_reason(c).split(" (")[0].split(" of ")[0]] += 1
            if any(r_ > c["sp"] for r_ in c["fh"]):
                d["naive:step-beyond-one-season"] += 1
            if any(v is None for v in c["y"]):
                d["naive:with-NaN"] += 1
            if "err" in o:
                d["naive:raised-at-%s" % o.get("stage")] += 1
        elif c["kind"] == "poly":
            d["poly:degree%d:%s" % (c["degree"], "intercept" if c["intercept"] else "origin")] += 1
        else:
            d["adapter:%s%s" % (c["model"], ":cutoff-moved-without-refit" if c.get("upd") else "")] += 1
    return dict(d)


def extra_coverage(cases, results, tier):
    return {"exhaustive": False,
            "exhaustive_scope": ("n<=12, sp<=4, wl in {None,1..n}, every strategy, every step of "
                                 "{-3..6} (+ beyond one/two seasons): %d cases" %
                                 len(exhaustive_cases())) if tier == "thorough" else "thorough only"}
