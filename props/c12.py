"""C12 - applying an estimator is pure, reproducible and independent of scheduling (PARTIAL).

What is proved (coq/C12): an ownership model of apply-type methods (copy-first programs preserve
every pre-existing buffer, are repeatable and interleavable; in-place variants refuted), a
small-step pool semantics (ordered collection is schedule-free for pure tasks; shared RNG refuted;
seeds drawn before dispatch restore it) and a seeded-RNG model of `_get_intervals`.
What is regenerated: the `Parallel(...)` call-site facts of the anchored files (translator/
sites_c12.py, fail closed) and proved to satisfy the contract's preconditions (Bridge.v).
What is only sampled: real thread interleavings, pickle, BLAS - by the scenario run below, whose
verdict is the oracle (the Coq side of an estimator case is the ownership model's prediction
"caller buffers unchanged").
"""
import hashlib
import struct

from harness.core import cbool, clist, cz, czlist

ID = "C12"
MODEL_TARGETS = ["C12/Cases.vo"]
PROOF_TARGETS = ["C12/Sites.vo", "C12/Bridge.vo", "C12/Proofs.vo", "C12/Refuted.vo"]
OBLIGATION_FILES = ["C12/Bridge.v", "C12/Refuted.v"]
PROPS_FILE = "C12/Props.v"
SHARD = 60
PER_CASE_TIMEOUT = 150
