"""C12 - applying an estimator is pure, reproducible and independent of scheduling (PARTIAL).

What is proved (coq/C12): an ownership model of methods as programs over local variables that
refer to buffers (programs the aliasing analysis accepts preserve every pre-existing buffer and
the estimator, return a result that is a function of the contents of state and data only, hence
are repeatable and interleavable; in-place / own-parameter variants refuted), a small-step pool
semantics (ordered collection is schedule-free for pure tasks; shared RNG refuted; seeds drawn
before dispatch restore it) and a seeded-RNG model of `_get_intervals`.
What is regenerated on every run, fail closed: (a) the ownership PROGRAMS of HampelFilter.transform,
Imputer.transform, Detrender / Deseasonalizer fit+transform+inverse_transform+update, BoxCox / Log
transform, BaseTransformer.fit (translator/own_c12.py -> C12/Own.v; helpers inlined), proved
accepted for all branch conditions / loop counts / contents in Bridge.v - an in-place write on the
caller's object or a write to the estimator in transform breaks a proof obligation; (b) the
`Parallel(...)` call-site facts of the anchored files (translator/sites_c12.py), proved to satisfy
the contract's preconditions (Bridge.v).
(c) the cutoff discipline of `predict` of 13 forecasters (translator/cutoff_c12.py -> C12/Cutoff.v:
the code reachable from predict by virtual dispatch through the package, reduced to assignments of
the cutoff, `with self._detached_cutoff()` regions, control flow), proved guarded in BridgeCutoff.v:
predict leaves the cutoff where it was on every path.
What is only sampled: real thread interleavings, pickle, BLAS - by the scenario run below, whose
verdict is the oracle (the Coq side of an estimator case is the regenerated program's prediction:
caller buffers unchanged, result a new object, parameters unchanged).
"""
import hashlib
import struct

from harness.core import cbool, clist, cstr, cz, czlist

ID = "C12"
MODEL_TARGETS = ["C12/Cases.vo"]
PROOF_TARGETS = ["C12/Own.vo", "C12/Cutoff.vo", "C12/Seeds.vo", "C12/Proofs.vo", "C12/BridgeOwn.vo",
                 "C12/BridgeCutoff.vo", "C12/BridgeSeeds.vo", "C12/Sites.vo", "C12/Bridge.vo",
                 "C12/Refuted.vo"]
OBLIGATION_FILES = ["C12/BridgeOwn.v", "C12/BridgeCutoff.v", "C12/BridgeSeeds.v", "C12/Bridge.v",
                    "C12/Refuted.v"]
PROPS_FILE = "C12/Props.v"
SHARD = 60
PER_CASE_TIMEOUT = 150
RULE = ("catalogue of every estimator that runs under the compat layer (series transformers incl. every "
        "Imputer method and HampelFilter, panel transformers, forecasters incl. EnsembleForecaster / "
        "StackingForecaster / grid search / AutoETS(auto) with n_jobs, BOSS-family classifiers) x 3 "
        "inputs (clean, planted outliers, missing values) x containers (Series, DataFrame, nested "
        "DataFrame, 3-D array) x index kinds; per case: deep comparison of every argument before/after "
        "fit and each apply-type call, each call repeated and interleaved in reversed order, fit twice, "
        "equal-parameter refit on equal data under a different global RNG state, n_jobs in {None,1,2} "
        "(threading backend; 4 in thorough), pickle round trip; plus EnsembleForecaster with recording "
        "members (observed completion schedule fed to the pool model), _get_intervals over a recorded "
        "RNG stream, n_jobs=None acceptance. non-trivial = fit succeeded and at least one apply call "
        "returned a value (pool: observed schedule is not the identity; intervals: >=1 interval); "
        "distinct = distinct canonical JSON case")
TRUSTED = [
    "translator/sites_c12.py (Python ast -> Parallel call-site facts, fail closed): syntactic facts "
    "only (generator form, keywords, how the result list is bound, whether an RNG object is shared "
    "with the tasks, whether enclosing draws precede dispatch); joblib's own guarantee that "
    "Parallel returns results in task order is the modelled contract, sampled by the n_jobs runs",
    "translator/own_c12.py (Python ast -> ownership programs, fail closed) and its reading of "
    "pandas / numpy, which is exactly its tables: PURE_METHODS (copy/fillna/replace/apply/"
    "interpolate/...) return new objects and leave the receiver alone unless `inplace=` is given; "
    "`Z[col]`, `.iloc`, `.values`, check_series(Z), np.asarray(Z) are (views of) the same object; "
    "`x[..] = ..`, `x.attr = ..`, `x += ..`, fit/update/set_params and generator draws write through "
    "x; calls of functions outside the module (other estimators' fit/predict, numpy) do not write "
    "through their arguments (for estimators that is this property, sampled on them separately); "
    "`raise` is modelled as carrying on (the model may only do more than the code)",
    "translator/cutoff_c12.py (Python ast -> cutoff skeleton of predict, fail closed): follows "
    "methods and properties of self by virtual dispatch over the C3 linearisation computed from the "
    "package's sources; trusted: methods of self found nowhere in the package (sklearn's get_params "
    "...) and functions in SELF_ARG_OK do not assign the cutoff; other objects' cutoffs are their own "
    "entries; break / continue ignored, a local function's body is counted where it is defined",
    "translator/seedflow_c12.py (Python ast -> per seeded estimator: the random_state parameter "
    "reaches check_random_state / RandomState / np.random.seed unchanged; fail closed): callees "
    "outside the package take the seed as it is; isinstance type tests count as seed-preserving",
    "digest comparison of results (sha1 of a canonical bit-exact snapshot, NaN canonicalised)",
]
MODELLED = [
    "real thread interleavings, pickle and BLAS behaviour are NOT modelled: they are sampled by the "
    "correspondence run (threading backend, n_jobs in {None,1,2[,4]}, pickle round trip); the proof "
    "level covers the modelled logic only",
    "estimator cases: the Coq side is the ownership program's prediction (caller buffers unchanged "
    "after every call, result not the argument object, parameters unchanged): the REGENERATED "
    "program of the function that ran where there is one (series transformers of the anchored "
    "files), the generic copy-first / fit shape for every other estimator; the verdict on "
    "repeat/interleave/refit/n_jobs/pickle equality is the Python oracle",
    "ownership programs exist for the series transformers of TARGETS in translator/own_c12.py only; "
    "panel transformers, forecasters and classifiers are covered by the generic shape + sampling",
    "forecasters remember the last horizon passed to predict (C20's _set_fh, by design): every "
    "predict call here passes its horizon explicitly",
    "apply-type methods that write scratch attributes on self without changing any later result "
    "(PlateauFinder._starts/_lengths, IndividualBOSS.transformer.words) are reported in the "
    "distribution (`scratch-attrs:*`) but not failed; constructor parameters and RNG state must not "
    "change.  Exception: the apply-type methods with a regenerated ownership program (proved free of "
    "writes to the estimator) must not change ANY attribute (clause apply-changed-estimator-state)",
    "reproducibility clauses are demanded for integer seeds (0, np.int64(0), 1, 2**32-1, numpy "
    "integers included); for random_state=None and for a RandomState instance (advanced by fit and "
    "by drawing apply calls) only the purity clauses are checked (caller data unchanged, no crash); "
    "equal fitted state of equal-parameter twins is compared for the seeded estimators only (other "
    "estimators keep timings etc. in fitted attributes)",
]
NOT_RUNNABLE = [
    "TimeSeriesForestClassifier / RandomIntervalSpectralForest / SupervisedTimeSeriesForest / "
    "ComposableTimeSeriesForestClassifier (sklearn 1.7: ForestClassifier has no base_estimator): "
    "covered statically by the site facts of both _tsf.py files and by running _get_intervals",
    "TemporalDictionaryEnsemble, WEASEL (sklearn parameter validation rejects np.float64 max_depth)",
    "BoxCoxTransformer, LogTransformer (boxcox.py imports a private scipy name that no longer exists)",
    "MiniRocket, MiniRocketMultivariate (numpy 2: truth value of an array), MeanTransformer "
    "(TypeError in the base-class output check), MatrixProfileTransformer / Catch22 / TSFresh* / "
    "ARIMA / BATS / TBATS / Prophet / HCrystalBall (soft dependencies absent)",
    "distance-based and shapelet-based classifiers (sklearn private import / missing mrseql extension)",
    "reduction strategies direct / recursive / dirrec with stock regressors (numpy 2 refuses the "
    "length-1 array assignment); multioutput runs",
]


_OWN = {}


def _own_meta(repo=None):
    """metadata of the regenerated ownership programs (names, branch conditions)"""
    if "ms" not in _OWN:
        from harness import core
        from translator import own_c12
        try:
            _OWN["ms"] = own_c12.extract(repo or core.REPO)
        except Exception:  # noqa - the translator failed closed: `translate` has reported the
            _OWN["ms"] = []    # broken tie; the cases fall back to the generic shapes
    return _OWN["ms"]


def _generated_apply_names():
    return {m["name"] for m in _own_meta() if not m["self_ok"]}


def translate(repo):
    from translator import own_c12, sites_c12
    out = dict(sites_c12.translate(repo))
    _OWN.pop("ms", None)
    out.update(own_c12.translate(repo))      # raises Unsupported on any shape it does not know
    from translator import cutoff_c12, seedflow_c12
    out.update(cutoff_c12.translate(repo))
    out.update(seedflow_c12.translate(repo))
    _own_meta(repo)
    return out


# ------------------------------------------------------------------------------------------------
# catalogue (static part: usable without sktime)

IMPUTER_METHODS = ["drift", "linear", "nearest", "constant", "mean", "median", "bfill", "ffill",
                   "random", "forecaster"]

CAT = {}


def _reg(name, kind, **kw):
    d = {"kind": kind, "nan": False, "frame": False, "n_jobs": False, "inverse": False, "slow": False,
         "thorough_only": False, "rand": False}
    d.update(kw)
    CAT[name] = d


_reg("Hampel-5", "series", nan=True, frame=True)
_reg("Hampel-bool", "series", nan=True, frame=True)
for _m in IMPUTER_METHODS:
    _reg("Imputer-" + _m, "series", nan=True, frame=True)
_reg("Imputer-sentinel", "series", nan=True, frame=True)
_reg("Detrender", "series", inverse=True)
_reg("Deseasonalizer-add", "series", inverse=True)
_reg("Deseasonalizer-mul", "series", inverse=True)
_reg("ConditionalDeseasonalizer", "series", inverse=True)
_reg("ACF", "series")
_reg("PACF", "series")
_reg("Cosine", "series")
_reg("Adaptor-MinMax", "series", inverse=True)
_reg("Adaptor-Standard", "series", inverse=True)
_reg("Passthrough-off", "series", inverse=True)
_reg("Passthrough-on", "series", inverse=True)

for _n in ["ColumnConcatenator", "DWT", "HOG1D", "TSInterpolator", "MatrixProfile", "Padding",
           "PCA", "Tabularizer", "IntervalSegmenter", "RandomIntervalSegmenter",
           "SlidingWindowSegmenter", "Slope", "Truncation", "PAA", "SAX", "Rocket",
           "PlateauFinder", "DerivativeSlope", "RandomIntervalFeatureExtractor"]:
    _reg(_n, "panel")
_reg("SFA", "panel", n_jobs=True)
_reg("Shapelet", "panel", slow=True)

for _n in ["Naive-last", "Naive-mean-sp", "Naive-drift", "Poly", "Theta", "AutoETS",
           "TransformedTarget", "Reduce-multioutput"]:
    _reg(_n, "forecaster", exog=True)     # accept (and ignore or use) exogenous data
for _n in ["Multiplex", "OnlineEnsemble"]:
    _reg(_n, "forecaster")
_reg("ExpSmoothing", "forecaster", slow=True)
_reg("Ensemble-mean", "forecaster", n_jobs=True)
_reg("Ensemble-median", "forecaster", n_jobs=True)
_reg("Stacking", "forecaster", n_jobs=True)
_reg("GridSearch", "forecaster", n_jobs=True, exog=True)
_reg("AutoETS-auto", "forecaster", n_jobs=True, slow=True, thorough_only=True)

_reg("BOSSEnsemble", "classifier", n_jobs=True, slow=True)
_reg("IndividualBOSS", "classifier", n_jobs=True)
_reg("ContractableBOSS", "classifier", n_jobs=True, slow=True)
_reg("MUSE", "classifier", slow=True)



# estimators that take a `random_state`: the KIND of seed is a generated dimension for them
RAND = ["Imputer-random", "RandomIntervalSegmenter", "Rocket", "RandomIntervalFeatureExtractor",
        "Shapelet", "BOSSEnsemble", "IndividualBOSS", "ContractableBOSS", "MUSE"]
for _n in RAND:
    CAT[_n]["rand"] = True

# kinds of `random_state`.  Integer kinds: everything must be reproducible (zero and a numpy
# integer zero included: a falsy seed is still a seed).  "none" (the global generator) and "rs" (a
# RandomState instance that fit / apply advance) are legitimately not repeatable: purity clauses
# only.
SEED_KINDS = ["zero", "npzero", "int", "one", "large", "npint", "none", "rs"]
INT_KINDS = ("zero", "npzero", "int", "one", "large", "npint")


def seed_obj(case):
    """the random_state object of a case (a NEW object on every call: twins do not share it)"""
    import numpy as np
    k = case.get("seed_kind", "int")
    v = case["seed"]
    if k == "zero":
        return 0
    if k == "npzero":
        return np.int64(0)
    if k == "one":
        return 1
    if k == "large":
        return 2 ** 32 - 1
    if k == "npint":
        return np.int32(v % 2 ** 31)
    if k == "none":
        return None
    if k == "rs":
        return np.random.RandomState(v % 2 ** 32)
    return v


def make(name, seed, n_jobs="default"):
    """Build the catalogue estimator `name` (driver side)."""
    from sklearn.linear_model import LinearRegression
    from sklearn.preprocessing import MinMaxScaler, StandardScaler
    kw = {} if n_jobs == "default" else {"n_jobs": n_jobs}
    if name.startswith("Hampel") or name.startswith("Imputer"):
        from sktime.forecasting.naive import NaiveForecaster
        from sktime.transformations.series.impute import Imputer
        from sktime.transformations.series.outlier_detection import HampelFilter
        if name == "Hampel-5":
            return HampelFilter(window_length=5)
        if name == "Hampel-bool":
            return HampelFilter(window_length=4, n_sigma=2, return_bool=True)
        m = name.split("-", 1)[1]
        if m == "constant":
            return Imputer(method="constant", value=7.5)
        if m == "random":
            return Imputer(method="random", random_state=seed)
        if m == "forecaster":
            return Imputer(method="forecaster", forecaster=NaiveForecaster(strategy="drift"))
        if m == "sentinel":
            return Imputer(method="mean", missing_values=-999.0)
        return Imputer(method=m)
    if name in ("Detrender", "Deseasonalizer-add", "Deseasonalizer-mul",
                "ConditionalDeseasonalizer", "Passthrough-off", "Passthrough-on"):
        from sktime.forecasting.trend import PolynomialTrendForecaster
        from sktime.transformations.series.compose import OptionalPassthrough
        from sktime.transformations.series.detrend import (ConditionalDeseasonalizer,
                                                            Deseasonalizer, Detrender)
        return {"Detrender": lambda: Detrender(PolynomialTrendForecaster(degree=1)),
                "Deseasonalizer-add": lambda: Deseasonalizer(sp=4),
                "Deseasonalizer-mul": lambda: Deseasonalizer(sp=4, model="multiplicative"),
                "ConditionalDeseasonalizer": lambda: ConditionalDeseasonalizer(sp=4),
                "Passthrough-off": lambda: OptionalPassthrough(Deseasonalizer(sp=4)),
                "Passthrough-on": lambda: OptionalPassthrough(Deseasonalizer(sp=4),
                                                              passthrough=True)}[name]()
    if name in ("ACF", "PACF"):
        from sktime.transformations.series.acf import (AutoCorrelationTransformer,
                                                        PartialAutoCorrelationTransformer)
        return (AutoCorrelationTransformer(n_lags=4) if name == "ACF"
                else PartialAutoCorrelationTransformer(n_lags=4))
    if name == "Cosine":
        from sktime.transformations.series.cos import CosineTransformer
        return CosineTransformer()
    if name.startswith("Adaptor"):
        from sktime.transformations.series.adapt import TabularToSeriesAdaptor
        return TabularToSeriesAdaptor(MinMaxScaler() if name.endswith("MinMax") else StandardScaler())
    if CAT[name]["kind"] == "panel":
        import importlib
        P = "sktime.transformations.panel."
        table = {
            "ColumnConcatenator": ("compose", "ColumnConcatenator", {}),
            "DWT": ("dwt", "DWTTransformer", {}),
            "HOG1D": ("hog1d", "HOG1DTransformer", {}),
            "TSInterpolator": ("interpolate", "TSInterpolator", {"length": 10}),
            "MatrixProfile": ("matrix_profile", "MatrixProfile", {"m": 5}),
            "Padding": ("padder", "PaddingTransformer", {}),
            "PCA": ("pca", "PCATransformer", {"n_components": 2}),
            "Tabularizer": ("reduce", "Tabularizer", {}),
            "IntervalSegmenter": ("segment", "IntervalSegmenter", {"intervals": 3}),
            "RandomIntervalSegmenter": ("segment", "RandomIntervalSegmenter",
                                        {"n_intervals": 3, "random_state": seed}),
            "SlidingWindowSegmenter": ("segment", "SlidingWindowSegmenter", {"window_length": 5}),
            "Slope": ("slope", "SlopeTransformer", {}),
            "Truncation": ("truncation", "TruncationTransformer", {"lower": 3, "upper": 11}),
            "PAA": ("dictionary_based", "PAA", {}),
            "SAX": ("dictionary_based", "SAX", {}),
            "SFA": ("dictionary_based", "SFA", dict(kw)),
            "Rocket": ("rocket", "Rocket", {"num_kernels": 20, "random_state": seed}),
            "PlateauFinder": ("summarize", "PlateauFinder", {}),
            "DerivativeSlope": ("summarize", "DerivativeSlopeTransformer", {}),
            "RandomIntervalFeatureExtractor": ("summarize", "RandomIntervalFeatureExtractor",
                                               {"n_intervals": 3, "random_state": seed}),
            "Shapelet": ("shapelets", "ShapeletTransform",
                         {"min_shapelet_length": 3, "max_shapelet_length": 6,
                          "max_shapelets_to_store_per_class": 3, "random_state": seed,
                          "verbose": 0}),
        }
        mod, cls, args = table[name]
        return getattr(importlib.import_module(P + mod), cls)(**args)
    if CAT[name]["kind"] == "forecaster":
        from sktime.forecasting.compose import (EnsembleForecaster, MultiplexForecaster,
                                                StackingForecaster, TransformedTargetForecaster,
                                                make_reduction)
        from sktime.forecasting.ets import AutoETS
        from sktime.forecasting.exp_smoothing import ExponentialSmoothing
        from sktime.forecasting.model_selection import (ForecastingGridSearchCV,
                                                         SlidingWindowSplitter)
        from sktime.forecasting.naive import NaiveForecaster
        from sktime.forecasting.online_learning import OnlineEnsembleForecaster
        from sktime.forecasting.theta import ThetaForecaster
        from sktime.forecasting.trend import PolynomialTrendForecaster
        from sktime.transformations.series.detrend import Deseasonalizer, Detrender

        def members():
            return [("last", NaiveForecaster()), ("poly", PolynomialTrendForecaster(degree=1)),
                    ("mean", NaiveForecaster("mean", sp=4)), ("drift", NaiveForecaster("drift")),
                    ("theta", ThetaForecaster(sp=4))]
        table = {
            "Naive-last": lambda: NaiveForecaster(),
            "Naive-mean-sp": lambda: NaiveForecaster("mean", sp=4),
            "Naive-drift": lambda: NaiveForecaster("drift"),
            "Poly": lambda: PolynomialTrendForecaster(degree=2),
            "Theta": lambda: ThetaForecaster(sp=4),
            "ExpSmoothing": lambda: ExponentialSmoothing(trend="add", sp=4),
            "AutoETS": lambda: AutoETS(),
            "AutoETS-auto": lambda: AutoETS(auto=True, sp=4, **kw),
            "TransformedTarget": lambda: TransformedTargetForecaster(
                [("des", Deseasonalizer(sp=4)), ("det", Detrender()), ("f", NaiveForecaster())]),
            "Multiplex": lambda: MultiplexForecaster(
                [("a", NaiveForecaster()), ("b", PolynomialTrendForecaster())],
                selected_forecaster="b"),
            "Reduce-multioutput": lambda: make_reduction(LinearRegression(), strategy="multioutput",
                                                         window_length=4),
            "OnlineEnsemble": lambda: OnlineEnsembleForecaster(
                [("a", NaiveForecaster()), ("b", PolynomialTrendForecaster())]),
            "Ensemble-mean": lambda: EnsembleForecaster(members(), **kw),
            "Ensemble-median": lambda: EnsembleForecaster(members(), aggfunc="median", **kw),
            "Stacking": lambda: StackingForecaster(members()[:3], final_regressor=LinearRegression(),
                                                   **kw),
            "GridSearch": lambda: ForecastingGridSearchCV(
                NaiveForecaster(), SlidingWindowSplitter(fh=[1, 2, 3], window_length=10),
                {"strategy": ["last", "mean", "drift"]}, **kw),
        }
        return table[name]()
    if CAT[name]["kind"] == "classifier":
        from sktime.classification.dictionary_based import (MUSE, BOSSEnsemble, ContractableBOSS,
                                                            IndividualBOSS)
        table = {
            "BOSSEnsemble": lambda: BOSSEnsemble(random_state=seed, max_ensemble_size=4, **kw),
            "IndividualBOSS": lambda: IndividualBOSS(random_state=seed, window_size=8,
                                                     word_length=4, **kw),
            "ContractableBOSS": lambda: ContractableBOSS(random_state=seed, n_parameter_samples=8,
                                                         max_ensemble_size=3, **kw),
            "MUSE": lambda: MUSE(random_state=seed),
        }
        return table[name]()
    raise KeyError(name)


# ------------------------------------------------------------------------------------------------
# input builders (pure functions of the case description; driver side)


def series_data(n, variant, index, seed, start=0):
    import numpy as np
    import pandas as pd
    r = np.random.RandomState(seed)
    t = np.arange(start, start + n, dtype=float)
    v = 20.0 + 0.5 * t + 3.0 * np.sin(t * 2 * np.pi / 4.0) + r.normal(0, 0.4, n)
    v = np.round(v, 3)
    if variant == "outliers":          # spikes near both ends and in the middle
        for p in (1, n // 2, n - 2):
            v[p] = v[p] + 60.0
    if variant == "missing":           # NaN incl. first and last observation
        for p in (0, 3, n // 2, n - 1):
            v[p] = np.nan
    if variant == "sentinel":
        for p in (2, n // 2):
            v[p] = -999.0
    if variant == "steps":             # level shift and a flat stretch (ties)
        v[n // 2:] += 15.0
        v[3:7] = v[3]
    if index == "range":
        idx = pd.RangeIndex(start, start + n)
    elif index == "int":
        idx = pd.Index(np.arange(5 + start, 5 + start + n))
    elif index == "datetime":
        idx = pd.date_range("2001-01-31", periods=start + n, freq="M")[start:]
    else:
        idx = pd.period_range("2001-01", periods=start + n, freq="M")[start:]
    return pd.Series(v, index=idx, name="y")


def frame_data(n, variant, index, seed, start=0):
    import pandas as pd
    a = series_data(n, variant, index, seed, start)
    b = series_data(n, variant, index, seed + 1, start) * 2.0 + 1.0
    return pd.DataFrame({"a": a, "b": b})


def panel_data(ninst, m, variant, container, seed, ncol=1):
    import numpy as np
    import pandas as pd
    r = np.random.RandomState(seed)
    X = np.zeros((ninst, ncol, m))
    y = np.array([i % 2 for i in range(ninst)])
    t = np.arange(m, dtype=float)
    for i in range(ninst):
        for c in range(ncol):
            X[i, c] = np.round((1 + y[i]) * np.sin(t * 2 * np.pi / (6.0 + 3 * y[i]) + c)
                               + r.normal(0, 0.3, m) + 0.05 * t * y[i], 3)
    if variant == "outliers":
        X[0, 0, 1] += 25.0
        X[ninst - 1, 0, m - 1] -= 25.0
    if variant == "missing":
        X[1, 0, 2] = np.nan
        X[ninst - 1, 0, m - 1] = np.nan
    if variant == "steps":             # level shift, a constant series and duplicated instances
        X[:, :, m // 2:] += 4.0
        X[2, 0, :] = 1.5
        X[ninst - 1] = X[0]
    if container == "numpy3d":
        return X, y
    df = pd.DataFrame({"dim_%d" % c: [pd.Series(X[i, c].copy()) for i in range(ninst)]
                       for c in range(ncol)})
    if variant == "outliers":          # also: instance index not in sorted order
        df.index = pd.Index(list(range(ninst))[::-1])
    return df, y


# ------------------------------------------------------------------------------------------------
# deep snapshots (driver side)

_NAN = 0x7FF8000000000000


def _bits(x):
    """float -> int (IEEE-754 bit pattern; every NaN mapped to one code)"""
    x = float(x)
    if x != x:
        return _NAN
    return struct.unpack("<q", struct.pack("<d", x))[0]


def unbits(i):
    return struct.unpack("<d", struct.pack("<q", int(i)))[0]


def _vals(a):
    import numpy as np
    a = np.asarray(a)
    if a.dtype.kind in "fiub":
        return [_bits(x) for x in a.astype(float).ravel()]
    out = []
    for x in a.ravel():
        if isinstance(x, (float, np.floating, int, np.integer)) and not isinstance(x, bool):
            out.append(_bits(x))
        else:
            out.append(repr(x))
    return out


def _labels(idx):
    import pandas as pd
    if isinstance(idx, pd.DatetimeIndex):
        return [int(x) // 10 ** 9 for x in idx.asi8]
    if isinstance(idx, pd.PeriodIndex):
        return [int(x) for x in idx.asi8]
    out = []
    for x in idx:
        try:
            out.append(int(x) if float(x) == int(x) else repr(x))
        except (TypeError, ValueError, OverflowError):
            out.append(repr(x))
    return out


def snap(obj):
    """Canonical deep snapshot of an argument or a result: values (bit-exact), labels, dtype."""
    import numpy as np
    import pandas as pd
    if obj is None:
        return None
    if isinstance(obj, pd.Series):
        if obj.dtype == object and len(obj) and isinstance(obj.iloc[0], (pd.Series, np.ndarray)):
            return {"t": "nested-col", "cells": [snap(c) for c in obj], "index": _labels(obj.index)}
        return {"t": "series", "v": _vals(obj.values), "index": _labels(obj.index),
                "dtype": str(obj.dtype), "name": repr(obj.name),
                "freq": str(getattr(obj.index, "freqstr", None)),
                "ikind": _ikind(obj.index)}
    if isinstance(obj, pd.DataFrame):
        return {"t": "frame", "columns": [repr(c) for c in obj.columns],
                "cols": [snap(obj.iloc[:, j]) for j in range(obj.shape[1])],
                "index": _labels(obj.index), "ikind": _ikind(obj.index)}
    if isinstance(obj, np.ndarray):
        return {"t": "array", "shape": list(obj.shape), "dtype": str(obj.dtype), "v": _vals(obj)}
    if isinstance(obj, (list, tuple)):
        return {"t": "list", "items": [snap(x) for x in obj]}
    if isinstance(obj, dict):
        return {"t": "dict", "items": [[repr(k), snap(v)] for k, v in sorted(
            obj.items(), key=lambda kv: repr(kv[0]))]}
    if isinstance(obj, (bool, np.bool_)):
        return {"t": "bool", "v": [int(obj)]}
    if isinstance(obj, (int, float, np.integer, np.floating)):
        return {"t": "scalar", "v": [_bits(obj)]}
    if isinstance(obj, str):
        return {"t": "str", "v": obj}
    return {"t": "other", "repr": type(obj).__name__}


def _ikind(idx):
    """index kind; a plain integer Index and a RangeIndex with equal labels are the same kind
    (statsmodels adapters swap one for the other: labels and values unchanged, not a modification)"""
    import pandas as pd
    if isinstance(idx, pd.DatetimeIndex):
        return "datetime"
    if isinstance(idx, pd.PeriodIndex):
        return "period"
    if isinstance(idx, pd.RangeIndex) or idx.dtype.kind in "iu":
        return "integer"
    return str(idx.dtype)


def digest(s):
    import json
    return hashlib.sha1(json.dumps(s, sort_keys=True).encode()).hexdigest()[:16]


def diff(a, b, path=""):
    """First difference between two snapshots, as a short string; None when equal."""
    if a == b:
        return None
    if type(a) != type(b) or a is None or b is None:
        return "%s: %s -> %s" % (path or "object", str(a)[:40], str(b)[:40])
    if isinstance(a, dict):
        if a.get("t") != b.get("t"):
            return "%s: container %s -> %s" % (path, a.get("t"), b.get("t"))
        for k in a:
            if a[k] != b.get(k):
                if isinstance(a[k], list) and isinstance(b.get(k), list):
                    if len(a[k]) != len(b[k]):
                        return "%s.%s: length %d -> %d" % (path, k, len(a[k]), len(b[k]))
                    for i, (x, y) in enumerate(zip(a[k], b[k])):
                        if x != y:
                            if isinstance(x, (dict, list)):
                                return diff(x, y, "%s.%s[%d]" % (path, k, i))
                            if isinstance(x, int) and isinstance(y, int) and k == "v":
                                return "%s.%s[%d]: %r -> %r" % (path, k, i, unbits(x), unbits(y))
                            return "%s.%s[%d]: %r -> %r" % (path, k, i, x, y)
                return "%s.%s: %s -> %s" % (path, k, str(a[k])[:40], str(b.get(k))[:40])
    if isinstance(a, list):
        if len(a) != len(b):
            return "%s: length %d -> %d" % (path, len(a), len(b))
        for i, (x, y) in enumerate(zip(a, b)):
            if x != y:
                return diff(x, y, "%s[%d]" % (path, i)) if isinstance(x, (dict, list)) else \
                    "%s[%d]: %r -> %r" % (path, i, x, y)
    return "%s: differs" % path


def _cell(b):
    """buffer cell for the Coq side: small even code for milli-exact values, odd code otherwise"""
    if not isinstance(b, int):
        return 3
    if b == _NAN:
        return 1
    v = unbits(b)
    m = round(v * 1000)
    if abs(m) < 2 ** 40 and m / 1000.0 == v:
        return 2 * m
    return 2 * b + 1 if b != 0 else 0


def flat(s):
    """All cells of a snapshot (values, then index labels) as the `buffer` the Coq side sees."""
    if s is None:
        return []
    t = s.get("t")
    out = []
    if t in ("series", "array", "scalar", "bool"):
        out = [_cell(x) for x in s["v"]]
        out += [2 * x if isinstance(x, int) else 3 for x in s.get("index", [])]
    elif t == "nested-col":
        for c in s["cells"]:
            out += flat(c)
        out += [2 * x if isinstance(x, int) else 3 for x in s.get("index", [])]
    elif t == "frame":
        for c in s["cols"]:
            out += flat(c)
    elif t == "list":
        for c in s["items"]:
            out += flat(c)
    return out


# ------------------------------------------------------------------------------------------------
# estimator state digests (driver side)


def _enc_state(o, d, seen, rng_only):
    import numpy as np
    import pandas as pd
    if isinstance(o, np.random.RandomState):
        st = o.get_state()
        return "RS:" + hashlib.sha1(st[1].tobytes() + repr(st[2:]).encode()).hexdigest()[:12]
    if isinstance(o, np.random.Generator):
        return "G:" + hashlib.sha1(repr(o.bit_generator.state).encode()).hexdigest()[:12]
    if o is None or isinstance(o, (bool, int, str, bytes)):
        return "" if rng_only else repr(o)
    if isinstance(o, (float, np.floating)):
        return "" if rng_only else "f%d" % _bits(o)
    if isinstance(o, np.integer):
        return "" if rng_only else repr(int(o))
    if isinstance(o, np.ndarray):
        if o.dtype == object:
            return "AO[" + ",".join(_enc_state(x, d + 1, seen, rng_only) for x in o.ravel()[:500]) + "]"
        return "" if rng_only else "A%s%s:%s" % (
            o.dtype, o.shape, hashlib.sha1(np.ascontiguousarray(o).tobytes()).hexdigest()[:12])
    if isinstance(o, pd.Index):
        return "" if rng_only else "I:" + hashlib.sha1(repr(_labels(o)).encode()).hexdigest()[:12]
    if isinstance(o, (pd.Series, pd.DataFrame)):
        return "" if rng_only else "P:" + digest(snap(o))
    if d > 7:
        return "..."
    if isinstance(o, (list, tuple)):
        return "[" + ",".join(_enc_state(x, d + 1, seen, rng_only) for x in o[:2000]) + "]"
    if isinstance(o, dict):
        items = sorted(o.items(), key=lambda kv: repr(kv[0]))
        return "{" + ",".join("%s:%s" % (repr(k), _enc_state(v, d + 1, seen, rng_only))
                              for k, v in items[:2000]) + "}"
    if isinstance(o, (set, frozenset)):
        return "S{" + ",".join(sorted(_enc_state(x, d + 1, seen, rng_only) for x in o)) + "}"
    mod = type(o).__module__ or ""
    if (mod.startswith("sktime") or mod.startswith("sklearn") or mod.startswith("props")) \
            and hasattr(o, "__dict__"):
        if id(o) in seen:
            return "<cycle>"
        seen.add(id(o))
        return type(o).__name__ + "(" + ",".join(
            "%s=%s" % (k, _enc_state(v, d + 1, seen, rng_only))
            for k, v in sorted(vars(o).items()) if k != "_fh") + ")"
    return "<%s>" % type(o).__name__


def attr_digests(est):
    """per-attribute digest of the known-type part of the estimator's state (`_fh`, the
    remembered horizon, excluded: see MODELLED)"""
    return {k: hashlib.sha1(_enc_state(v, 0, set(), False).encode()).hexdigest()[:12]
            for k, v in sorted(vars(est).items()) if k != "_fh"}


def params_digest(est):
    try:
        p = est.get_params(deep=True)
    except Exception as e:  # noqa
        return "get_params-error:" + type(e).__name__
    return hashlib.sha1(_enc_state(p, 0, set(), False).encode()).hexdigest()[:12]


def _rng_tokens(o, d, seen, acc):
    import numpy as np
    import pandas as pd
    if isinstance(o, (np.random.RandomState, np.random.Generator)):
        acc.append(_enc_state(o, 0, set(), True))
        return
    if o is None or isinstance(o, (bool, int, str, bytes, float, np.number, pd.Index, pd.Series,
                                   pd.DataFrame)) or d > 7:
        return
    if isinstance(o, np.ndarray):
        if o.dtype == object:
            for x in o.ravel()[:500]:
                _rng_tokens(x, d + 1, seen, acc)
        return
    if isinstance(o, (list, tuple, set, frozenset)):
        for x in list(o)[:2000]:
            _rng_tokens(x, d + 1, seen, acc)
        return
    if isinstance(o, dict):
        for k, v in sorted(o.items(), key=lambda kv: repr(kv[0]))[:2000]:
            _rng_tokens(v, d + 1, seen, acc)
        return
    mod = type(o).__module__ or ""
    if (mod.startswith("sktime") or mod.startswith("sklearn") or mod.startswith("props")) \
            and hasattr(o, "__dict__") and id(o) not in seen:
        seen.add(id(o))
        for k, v in sorted(vars(o).items()):
            _rng_tokens(v, d + 1, seen, acc)


def rng_digest(est):
    """state of every RandomState reachable from the estimator, plus numpy's global RNG"""
    import numpy as np
    g = np.random.get_state()
    acc = []
    _rng_tokens(est, 0, set(), acc)
    return hashlib.sha1("|".join(acc).encode() + g[1].tobytes() + repr(g[2:]).encode()).hexdigest()[:12]


# ------------------------------------------------------------------------------------------------
# scenario runner (driver side)

FH_A = [1, 2, 3]
FH_B = [2, 5]
FH_C = [-2, -1, 0]


def _reraise_timeout(e):
    if type(e).__name__ == "_Timeout":
        raise e


def _build(case, shift=0):
    """Fresh argument objects for the case: (fit args, calls).  An argument is (name, object,
    passed-by-keyword).  `calls` = [label, method, args]; an argument object that is the string
    "@Zt" is replaced by (a copy of) the first transform result."""
    import numpy as np
    inp = case["input"]
    kind = CAT[case["est"]]["kind"]
    if kind == "series":
        mk = frame_data if inp["container"] == "frame" else series_data
        Z = mk(inp["n"], inp["variant"], inp["index"], inp["dseed"])
        # other data: shorter, starting 3 steps later (another seasonal phase, other positions)
        Z2 = mk(inp["n"] - 5, inp["variant"], inp["index"], inp["dseed"] + 7, 3)
        fit = [("Z", Z, False)]
        calls = [["transform", "transform", [("Z", Z, False)]],
                 ["transform-other", "transform", [("Z", Z2, False)]]]
        if CAT[case["est"]]["inverse"]:
            calls.append(["inverse_transform", "inverse_transform", [("Z", "@Zt", False)]])
        return fit, calls
    if kind in ("panel", "classifier"):
        X, y = panel_data(inp["ninst"], inp["m"], inp["variant"], inp["container"], inp["dseed"])
        X2, _ = panel_data(max(3, inp["ninst"] - 2), inp["m"], inp["variant"], inp["container"],
                           inp["dseed"] + 7)
        fit = [("X", X, False), ("y", y, False)]
        if kind == "panel":
            calls = [["transform", "transform", [("X", X, False)]],
                     ["transform-other", "transform", [("X", X2, False)]]]
        else:
            calls = [["predict", "predict", [("X", X2, False)]],
                     ["predict_proba", "predict_proba", [("X", X2, False)]],
                     ["predict-train", "predict", [("X", X, False)]]]
        return fit, calls
    y = series_data(inp["n"], inp["variant"], inp["index"], inp["dseed"])
    X = Xp = None
    if inp.get("exog"):
        import pandas as pd
        full = series_data(inp["n"] + 6, "clean", inp["index"], inp["dseed"] + 3)
        Xall = pd.DataFrame({"x1": full.values, "x2": np.arange(len(full), dtype=float)},
                            index=full.index)
        X, Xp = Xall.iloc[:inp["n"]], Xall.iloc[inp["n"]:]
    fit = [("y", y, False), ("X", X, True), ("fh", np.array(FH_A), True)]
    calls = [["predict", "predict", [("fh", np.array(FH_A), True), ("X", Xp, True)]],
             ["predict-other-fh", "predict", [("fh", np.array(FH_B), True), ("X", Xp, True)]],
             ["predict-in-sample", "predict", [("fh", np.array(FH_C), True)]]]
    return fit, calls


def _invoke(est, method, args):
    pos = [o for _, o, kw in args if not kw]
    kws = {n: o for n, o, kw in args if kw}
    try:
        r = getattr(est, method)(*pos, **kws)
        return r, snap(r)
    except Exception as e:  # errors are results too: they must be as repeatable as values
        _reraise_timeout(e)
        return None, {"t": "err", "v": type(e).__name__}


def _fit(est, fit_args):
    pos = [o for _, o, kw in fit_args if not kw]
    kws = {n: o for n, o, kw in fit_args if kw}
    try:
        est.fit(*pos, **kws)
        return None
    except Exception as e:
        _reraise_timeout(e)
        return "%s: %s" % (type(e).__name__, str(e)[:80])


def _cutoff_repr(est):
    """the forecaster's cutoff (None for estimators without one)"""
    try:
        return repr(getattr(est, "_cutoff", None))
    except Exception:  # noqa
        return "?"


def _qual(est, method):
    """which function runs for est.<method>: `Class.method` of the defining class"""
    f = getattr(type(est), method, None)
    return getattr(f, "__qualname__", "?")


def _plain_params(est):
    """constructor parameters as plain data (objects become the marker "<obj>")"""
    try:
        p = est.get_params(deep=False)
    except Exception:  # noqa
        return {}
    out = {}
    for k, v in p.items():
        if v is None or isinstance(v, (bool, int, float, str)):
            out[k] = v
        else:
            out[k] = "<obj>"
    return out


def _arg_snaps(args):
    return [snap(o) for _, o, _ in args]


def _arg_diff(args, before):
    for (n, o, _), b in zip(args, before):
        d = diff(b, snap(o), "")
        if d:
            return "argument %s%s" % (n, d)
    return None


def _resolve(calls, zt):
    for c in calls:
        c[2] = [(n, (zt.copy() if zt is not None else None) if isinstance(o, str) and o == "@Zt"
                 else o, kw) for n, o, kw in c[2]]
    return calls


def _run_est(case):
    import pickle
    import joblib
    import numpy as np
    name = case["est"]
    fit_args, calls = _build(case)
    out = {"fit": {}, "calls": [], "own": None, "pickle_err": None, "njobs_fit": {}}

    # ---- first instance: fit, first pass with before/after comparison of every argument
    np.random.seed(1234)
    e1 = make(name, seed_obj(case))
    out["params"] = _plain_params(e1)
    out["cls"] = type(e1).__name__
    fit_before = _arg_snaps(fit_args)
    err = _fit(e1, fit_args)
    out["fit"] = {"err": err, "mod": _arg_diff(fit_args, fit_before)}
    fitted1 = attr_digests(e1)
    own = [[[flat(x) for x in fit_before], [flat(snap(o)) for _, o, _ in fit_args]]]
    quals = [_qual(e1, "fit")]
    res_is_arg = [False]
    zt = None
    recs = []
    pristine = []
    for ci, c in enumerate(calls):
        if any(isinstance(o, str) for _, o, _ in c[2]):
            _resolve([c], zt)
        label, method, args = c
        before = _arg_snaps(args)
        pristine.append(before)
        p0, r0, a0 = params_digest(e1), rng_digest(e1), attr_digests(e1)
        c0 = _cutoff_repr(e1)
        res, s = _invoke(e1, method, args)
        c1 = _cutoff_repr(e1)
        quals.append(_qual(e1, method))
        res_is_arg.append(bool(args) and res is not None and res is args[0][1])
        if ci == 0 and res is not None and hasattr(res, "copy"):
            zt = res.copy()
        a1 = attr_digests(e1)
        rec = {"label": label, "ref": digest(s), "err": s["v"] if s.get("t") == "err" else None,
               "kind": s.get("t"), "mod": _arg_diff(args, before),
               "params_changed": params_digest(e1) != p0, "rng_consumed": rng_digest(e1) != r0,
               "scratch": sorted(k for k in set(a0) | set(a1) if a0.get(k) != a1.get(k)),
               "cutoff": None if c0 == c1 else "%s -> %s" % (c0, c1),
               "same": {}, "diffs": {}}
        rec["_snap"] = s
        recs.append(rec)
        own.append([[flat(x) for x in before], [flat(snap(o)) for _, o, _ in args]])
    out["own"] = own
    out["quals"] = quals
    out["res_is_arg"] = res_is_arg

    def compare(tag, est, call_list):
        for rec, c in zip(recs, call_list):
            res, s = _invoke(est, c[1], c[2])
            ok = digest(s) == rec["ref"]
            rec["same"][tag] = ok
            if not ok:
                rec["diffs"][tag] = diff(rec["_snap"], s, "") or "?"

    def compare_rev(tag, est, call_list):
        for rec, c in list(zip(recs, call_list))[::-1]:
            res, s = _invoke(est, c[1], c[2])
            ok = digest(s) == rec["ref"]
            rec["same"][tag] = ok
            if not ok:
                rec["diffs"][tag] = diff(rec["_snap"], s, "") or "?"

    def later_mods(tag, call_list):
        for rec, c, before in zip(recs, call_list, pristine):
            d = _arg_diff(c[2], before)
            if d and not rec["mod"]:
                rec["mod"] = "%s (during %s)" % (d, tag)

    # ---- repeat, then interleave in reversed order
    compare("repeat", e1, calls)
    later_mods("repeat", calls)
    compare_rev("interleaved", e1, calls)
    later_mods("interleaved", calls)

    # ---- pickle round trip of the fitted estimator
    try:
        ep = pickle.loads(pickle.dumps(e1))
        compare("pickle", ep, calls)
    except Exception as e:
        _reraise_timeout(e)
        out["pickle_err"] = "%s: %s" % (type(e).__name__, str(e)[:100])

    # ---- fit twice on the same instance
    fit_before2 = _arg_snaps(fit_args)
    err2 = _fit(e1, fit_args)
    if (err2 is None) != (err is None):
        out["fit"]["refit_err"] = err2
    if not out["fit"]["mod"]:
        d2 = _arg_diff(fit_args, fit_before2)
        out["fit"]["mod"] = d2 and d2 + " (during the second fit)"
    compare("fit-twice", e1, calls)

    # ---- equal parameters, equal data (fresh objects), different global RNG state
    def fresh_calls():
        f2, c2 = _build(case)
        return f2, _resolve(c2, zt)
    np.random.seed(98765)
    np.random.rand(17)
    f2, c2 = fresh_calls()
    e2 = make(name, seed_obj(case))
    _fit(e2, f2)
    fitted2 = attr_digests(e2)
    out["fitted_diff"] = sorted(k for k in set(fitted1) | set(fitted2)
                                if fitted1.get(k) != fitted2.get(k))
    compare_rev("equal-params", e2, c2)    # first calls of a fresh instance, in the other order

    # ---- n_jobs under the threading backend
    if CAT[name]["n_jobs"]:
        for nj in case.get("n_jobs", []):
            key = str(nj)
            with joblib.parallel_backend("threading"):
                f3, c3 = fresh_calls()
                ek = make(name, seed_obj(case), nj)
                out["njobs_fit"][key] = _fit(ek, f3)
                compare("n_jobs=" + key, ek, c3)
    for rec in recs:
        s = rec.pop("_snap")
        v = s.get("v") if isinstance(s.get("v"), list) else None
        rec["preview"] = [round(unbits(x), 6) if isinstance(x, int) else x for x in v[:4]] \
            if v and s.get("t") != "err" else None
    out["calls"] = recs
    return out


# ---- EnsembleForecaster with recording members: the observed schedule is fed to the pool model

_LOGS = {}
_REC = {}


def _rec_class():
    if "cls" in _REC:
        return _REC["cls"]
    import threading
    import time
    import pandas as pd
    from sktime.forecasting.base._sktime import (_OptionalForecastingHorizonMixin,
                                                  _SktimeForecaster)

    class RecordingForecaster(_OptionalForecastingHorizonMixin, _SktimeForecaster):
        """fit records start/finish (thread-safe list append), waits `delay` seconds, and learns
        a*tag+b: a pure function of the member's own inputs"""

        def __init__(self, tag=0, delay=0.0, a=10, b=3, log_key=0):
            self.tag = tag
            self.delay = delay
            self.a = a
            self.b = b
            self.log_key = log_key
            super(RecordingForecaster, self).__init__()

        def fit(self, y, X=None, fh=None):
            self._set_y_X(y, X)
            self._set_fh(fh)
            log = _LOGS.setdefault(self.log_key, [])
            log.append(("start", self.tag, threading.get_ident()))
            time.sleep(self.delay)
            self.value_ = self.a * self.tag + self.b
            log.append(("finish", self.tag, threading.get_ident()))
            self._is_fitted = True
            return self

        def _predict(self, fh, X=None, return_pred_int=False, alpha=0.05):
            idx = fh.to_absolute(self.cutoff).to_pandas()
            return pd.Series([float(self.value_)] * len(idx), index=idx)

    _REC["cls"] = RecordingForecaster
    return RecordingForecaster


def _run_pool(case):
    import joblib
    import numpy as np
    from sktime.forecasting.compose import EnsembleForecaster
    Rec = _rec_class()
    key = len(_LOGS) + 1
    _LOGS[key] = []
    tags, delays = case["tags"], case["delays"]
    members = [("m%d" % i, Rec(tag=t, delay=d / 1000.0, a=case["a"], b=case["b"], log_key=key))
               for i, (t, d) in enumerate(zip(tags, delays))]
    y = series_data(12, "clean", "range", 1)
    y0 = snap(y)
    ens = EnsembleForecaster(members, n_jobs=case["n_jobs"])
    with joblib.parallel_backend("threading"):
        ens.fit(y, fh=np.array([1, 2]))
    log = list(_LOGS.pop(key))
    collected = [int(f.value_) for f in ens.forecasters_]
    pred = ens.predict()
    pos = {t: i for i, t in enumerate(tags)}
    return {"collected": collected,
            "collected_tags": [int(f.tag) for f in ens.forecasters_],
            "finish_order": [pos[t] for ev, t, _ in log if ev == "finish"],
            "start_order": [pos[t] for ev, t, _ in log if ev == "start"],
            "threads": len(set(th for _, _, th in log)),
            "pred": [float(v) for v in pred.values],
            "members_untouched": all(not m.is_fitted for _, m in members),
            "y_mod": diff(y0, snap(y), "")}


# ---- _get_intervals over a recorded RNG stream


class _RecordingRNG:
    def __init__(self, rng):
        self.rng = rng
        self.log = []

    def randint(self, *a, **k):
        v = self.rng.randint(*a, **k)
        self.log.append([int(a[0]) if a else None, int(v)])
        return v

    def __getattr__(self, n):
        raise AttributeError("RNG method %s is not modelled" % n)


def _run_intervals(case):
    import numpy as np
    from sktime.series_as_features.base.estimators.interval_based._tsf import _get_intervals
    ni, mi, sl, seed = case["n_intervals"], case["min_interval"], case["series_length"], case["seed"]
    np.random.seed(4242)
    g0 = np.random.get_state()[1].tobytes()
    rec = _RecordingRNG(np.random.RandomState(seed))
    try:
        iv = _get_intervals(ni, mi, sl, rec)
    except ValueError as e:
        return {"err": "ValueError"}
    g1 = np.random.get_state()[1].tobytes()
    np.random.seed(777)
    np.random.rand(5)
    rs = np.random.RandomState(seed)
    iv2 = _get_intervals(ni, mi, sl, rs)
    # a stream positioned after the draws: the remaining stream is a function of the seed too
    rs2 = np.random.RandomState(seed)
    _get_intervals(ni, mi, sl, rs2)
    return {"intervals": [[int(a), int(b)] for a, b in iv], "draws": rec.log,
            "again": [[int(a), int(b)] for a, b in iv2], "global_untouched": g0 == g1,
            "next_equal": int(rs.randint(10 ** 6)) == int(rs2.randint(10 ** 6))}


def run_impl(case):
    k = case["kind"]
    if k == "est":
        return _run_est(case)
    if k == "pool":
        return _run_pool(case)
    if k == "intervals":
        return _run_intervals(case)
    raise AssertionError(k)


# ------------------------------------------------------------------------------------------------
# oracle: the property's sentences on the implementation's behaviour


def oracle(case, out):
    k = case["kind"]
    if k == "pool":
        want = [case["a"] * t + case["b"] for t in case["tags"]]
        if out["collected_tags"] != case["tags"] or out["collected"] != want:
            return "collection-not-in-task-order: members %s collected as %s (finish order %s)" % (
                case["tags"], out["collected_tags"], out["finish_order"])
        if sorted(out["finish_order"]) != list(range(len(case["tags"]))):
            return "task-not-run-exactly-once: finish order %s" % out["finish_order"]
        m = sum(want) / float(len(want))
        if any(abs(p - m) > 1e-9 for p in out["pred"]):
            return "ensemble-prediction-depends-on-schedule: %s expected %s" % (out["pred"], m)
        if out["y_mod"]:
            return "fit-modified-caller-data: EnsembleForecaster argument y%s" % out["y_mod"]
        if not out["members_untouched"]:
            return "fit-changed-caller-estimators: members passed to the ensemble were fitted"
        return None
    if k == "intervals":
        if "err" in out:
            return None
        if out["again"] != out["intervals"]:
            return "seeded-sampling-not-reproducible: %s then %s" % (out["intervals"], out["again"])
        if not out["global_untouched"]:
            return "seeded-sampling-consumed-global-rng"
        if not out["next_equal"]:
            return "seeded-stream-position-differs-after-sampling"
        return None
    name = case["est"]
    f = out["fit"]
    sk = case.get("seed_kind", "int")
    seeded = sk in INT_KINDS          # reproducibility is demanded for integer seeds
    if f.get("mod"):
        return "fit-modified-caller-data: %s.fit %s" % (name, f["mod"])
    if not seeded:
        # random_state None / a RandomState instance: only the purity clauses
        for c in out["calls"]:
            if c["mod"]:
                return "apply-modified-caller-data: %s.%s %s" % (name, c["label"], c["mod"])
        return None
    if "refit_err" in f:
        return "fit-twice-differs: %s second fit -> %s, first -> %s" % (name, f["refit_err"], f["err"])
    for c in out["calls"]:
        if c["mod"]:
            return "apply-modified-caller-data: %s.%s %s" % (name, c["label"], c["mod"])
    for c in out["calls"]:
        if c.get("cutoff"):
            return "apply-moved-cutoff: %s.%s left the forecaster's cutoff changed: %s" % (
                name, c["label"], c["cutoff"])
    if CAT[name]["rand"] and out.get("fitted_diff") and not f["err"]:
        return ("equal-params-fitted-state-differs: %s(random_state=%s) fitted twice with equal "
                "parameters on equal data (global np.random in different states): attribute(s) %s "
                "differ" % (name, _seed_repr(case), out["fitted_diff"]))
    for tag, clause in (("repeat", "repeat-apply-differs"),
                        ("interleaved", "interleaved-apply-differs"),
                        ("fit-twice", "fit-twice-differs"),
                        ("equal-params", "equal-params-equal-data-differs")):
        for c in out["calls"]:
            if c["same"].get(tag) is False:
                return "%s: %s.%s %s" % (clause, name, c["label"], c["diffs"].get(tag))
    if out["pickle_err"]:
        return "pickle-fails: %s %s" % (name, out["pickle_err"])
    for c in out["calls"]:
        if c["same"].get("pickle") is False:
            return "pickle-roundtrip-differs: %s.%s %s" % (name, c["label"], c["diffs"].get("pickle"))
    for c in out["calls"]:
        if c["rng_consumed"]:
            return "apply-consumed-rng-state: %s.%s advanced a random generator" % (name, c["label"])
    njs = [str(x) for x in case.get("n_jobs", [])] if CAT[name]["n_jobs"] else []
    for key in [x for x in njs if x != "None"] + [x for x in njs if x == "None"]:
        ferr = out["njobs_fit"].get(key)
        if ferr and not f["err"]:
            if key == "None":
                return "n-jobs-none-rejected: %s fit raised %s with n_jobs=None" % (name, ferr)
            return "n-jobs-differs: %s fit raised %s with n_jobs=%s" % (name, ferr, key)
        for c in out["calls"]:
            if c["same"].get("n_jobs=" + key) is False:
                return "n-jobs-differs: %s.%s with n_jobs=%s %s" % (
                    name, c["label"], key, c["diffs"].get("n_jobs=" + key))
    # last (so that they mask nothing else): constructor parameters changed by an apply-type call
    for c in out["calls"]:
        if c["params_changed"]:
            return "apply-changed-estimator-params: %s.%s changed get_params() values" % (
                name, c["label"])
    # apply-type methods whose ownership program is regenerated and proved free of writes to the
    # estimator (Bridge (b)): no attribute of the estimator may change at all
    pure = _generated_apply_names()
    for c, q in zip(out["calls"], out.get("quals", [None])[1:]):
        if q in pure and c["scratch"]:
            return "apply-changed-estimator-state: %s.%s (%s) wrote attribute(s) %s" % (
                name, c["label"], q, c["scratch"])
    return None


def _seed_repr(case):
    k = case.get("seed_kind", "int")
    return {"zero": "0", "npzero": "np.int64(0)", "one": "1", "large": "2**32-1",
            "npint": "np.int32(%d)" % (case["seed"] % 2 ** 31), "none": "None",
            "rs": "RandomState(%d)" % (case["seed"] % 2 ** 32)}.get(k, str(case["seed"]))


def nontrivial(case, out):
    k = case["kind"]
    if k == "pool":
        return out["finish_order"] != sorted(out["finish_order"]) or out["threads"] > 1
    if k == "intervals":
        return bool(out.get("intervals"))
    return not out["fit"]["err"] and any(c["err"] is None for c in out["calls"])


# ------------------------------------------------------------------------------------------------
# case generation

VARIANTS = ["clean", "outliers", "missing"]
INDEXES = ["range", "int", "datetime", "period"]
INDEX_WEIGHTED = ["range", "range", "range", "int", "int", "int", "period", "datetime"]


def gen_cases(rng, tier):
    thorough = tier == "thorough"
    njobs = [None, 1, 2] + ([4] if thorough else [])
    seeds = [rng.randint(0, 10 ** 6) for _ in range(20 if thorough else 1)]
    cases = []
    for name, d in CAT.items():
        kind = d["kind"]
        kk = 0                    # seed kinds rotate over the cases of a seeded estimator
        for si, seed in enumerate(seeds):
            if si > 0 and not (d["n_jobs"] or "Random" in name or name in (
                    "Imputer-random", "Rocket", "Shapelet")):
                continue          # more seeds only for randomised / parallel estimators
            if si > 3 and d["slow"]:
                continue
            if d["thorough_only"] and not thorough:
                continue
            variants = list(VARIANTS)
            if name == "Imputer-sentinel":
                variants = ["sentinel", "clean", "missing"]
            if kind in ("forecaster", "classifier"):   # NaN is rejected at fit by all of them
                variants = ["clean", "outliers", "steps"]
            for vi, variant in enumerate(variants):
                if kind in ("series", "forecaster"):
                    conts = ["series"] + (["frame"] if d["frame"] else [])
                    for cont in conts:
                        inp = {"n": rng.choice([24, 28, 32, 36]), "variant": variant,
                               "index": rng.choice(INDEX_WEIGHTED if kind == "series"
                                                   else ["range", "int", "range", "int", "period"]),
                               "container": cont,
                               "dseed": rng.randint(1, 999)}
                        if kind == "forecaster":
                            inp["exog"] = d.get("exog", False) and rng.random() < 0.4
                        cases.append({"kind": "est", "est": name, "seed": seed, "input": inp,
                                      "n_jobs": njobs if d["n_jobs"] else []})
                        if d["rand"]:
                            cases[-1]["seed_kind"] = SEED_KINDS[kk % len(SEED_KINDS)]
                            kk += 1
                else:
                    for cont in ("nested", "numpy3d"):
                        if d["slow"] and not thorough and (vi + (cont == "nested")) % 2 == 0 \
                                and variant != "outliers":
                            continue
                        inp = {"ninst": rng.choice([6, 8]), "m": rng.choice([16, 20, 24]),
                               "variant": variant, "container": cont, "dseed": rng.randint(1, 999)}
                        cases.append({"kind": "est", "est": name, "seed": seed, "input": inp,
                                      "n_jobs": njobs if d["n_jobs"] else []})
                        if d["rand"]:
                            cases[-1]["seed_kind"] = SEED_KINDS[kk % len(SEED_KINDS)]
                            kk += 1
    # every seeded estimator meets every kind of seed (small clean inputs; the slow ones only the
    # integer kinds in the quick tier)
    for name in RAND:
        d = CAT[name]
        have = {c.get("seed_kind") for c in cases if c["kind"] == "est" and c["est"] == name}
        for k in SEED_KINDS:
            if k in have or (d["slow"] and not thorough and k not in ("zero", "npzero", "int")):
                continue
            if d["kind"] == "series":
                inp = {"n": 24, "variant": "missing", "index": "range",
                       "container": rng.choice(["series", "frame"]), "dseed": rng.randint(1, 999)}
            else:
                inp = {"ninst": 6, "m": 16, "variant": "clean",
                       "container": rng.choice(["nested", "numpy3d"]), "dseed": rng.randint(1, 999)}
            cases.append({"kind": "est", "est": name, "seed": seeds[0], "seed_kind": k, "input": inp,
                          "n_jobs": ([None, 2] if d["n_jobs"] else [])})
    for _ in range(24 if not thorough else 120):
        m = rng.randint(3, 6)
        tags = rng.sample(range(1, 40), m)
        # decreasing delays: later tasks finish first whenever >= 2 workers run
        base = rng.choice([4, 8, 12])
        delays = [base * (m - i) + rng.randint(0, 3) for i in range(m)]
        if rng.random() < 0.3:
            rng.shuffle(delays)
        cases.append({"kind": "pool", "tags": tags, "delays": delays,
                      "n_jobs": rng.choice([2, 2, 3, 4] if thorough else [2, 2, 3]),
                      "a": rng.randint(1, 12), "b": rng.randint(0, 9)})
    for _ in range(4 if not thorough else 12):
        m = rng.randint(2, 4)
        cases.append({"kind": "pool", "tags": rng.sample(range(1, 40), m), "delays": [1] * m,
                      "n_jobs": rng.choice([None, 1]), "a": rng.randint(1, 12), "b": rng.randint(0, 9)})
    for _ in range(60 if not thorough else 600):
        sl = rng.choice([8, 12, 16, 24, 30, 50, 100])
        mi = rng.choice([3, 3, 3, 4, 5])
        if rng.random() < 0.15:
            mi = sl - rng.choice([1, 2])
        cases.append({"kind": "intervals", "n_intervals": rng.randint(1, 8), "min_interval": mi,
                      "series_length": sl, "seed": rng.randint(0, 10 ** 6)})
    return cases


def shrink(case):
    if case["kind"] == "est":
        c = case
        if len(c.get("n_jobs", [])) > 1:
            for nj in c["n_jobs"]:
                d = dict(c)
                d["n_jobs"] = [nj]
                yield d
        inp = c["input"]
        for key, lo in (("n", 16), ("ninst", 4), ("m", 12)):
            if key in inp and inp[key] > lo:
                d = dict(c)
                d["input"] = dict(inp, **{key: max(lo, inp[key] - 4)})
                yield d
        if inp.get("exog"):
            d = dict(c)
            d["input"] = dict(inp, exog=False)
            yield d
        if inp.get("index") not in (None, "range"):
            d = dict(c)
            d["input"] = dict(inp, index="range")
            yield d
        if inp["variant"] != "clean":
            d = dict(c)
            d["input"] = dict(inp, variant="clean")
            yield d
    elif case["kind"] == "pool" and len(case["tags"]) > 2:
        for i in range(len(case["tags"])):
            d = dict(case)
            d["tags"] = case["tags"][:i] + case["tags"][i + 1:]
            d["delays"] = case["delays"][:i] + case["delays"][i + 1:]
            yield d
    elif case["kind"] == "intervals":
        for key in ("n_intervals", "series_length"):
            if case[key] > (1 if key == "n_intervals" else case["min_interval"] + 2):
                d = dict(case)
                d[key] = case[key] - 1
                yield d


def distribution(cases, results):
    import collections
    d = collections.Counter()
    for c, r in zip(cases, results):
        o = r.get("out") or {}
        if c["kind"] != "est":
            d[c["kind"]] += 1
            if c["kind"] == "pool" and o:
                d["pool:threads=%s" % o.get("threads")] += 1
                d["pool:schedule-%s" % ("identity" if o.get("finish_order") == sorted(
                    o.get("finish_order", [])) else "permuted")] += 1
            continue
        inp = c["input"]
        d["est:%s" % CAT[c["est"]]["kind"]] += 1
        if "seed_kind" in c:
            d["seed:%s" % c["seed_kind"]] += 1
        d["variant:%s" % inp["variant"]] += 1
        d["container:%s" % inp["container"]] += 1
        if not o:
            d["driver-error"] += 1
            continue
        d["fit:%s" % ("error" if o["fit"]["err"] else "ok")] += 1
        for call in o["calls"]:
            d["call:%s" % ("error" if call["err"] else "value")] += 1
            for a in call["scratch"]:
                d["scratch-attrs:%s.%s" % (c["est"], a)] += 1
    return dict(d)


# ------------------------------------------------------------------------------------------------
# model side

CASES_HEADER = """From Coq Require Import ZArith List Bool String.
Require Import SkV.C12.Model SkV.C12.Cases.
Import ListNotations.
Open Scope Z_scope.
"""

def _mref(qual, is_fit, params, frame):
    """the ownership program of the function that ran: the regenerated one if there is one"""
    from translator import own_c12
    ms = _own_meta()
    for k, m in enumerate(ms):
        if m["name"] == qual:
            bits = []
            for src, node, top, names in m["conds"]:
                bits.append(bool(own_c12.eval_cond(node, params, frame, top, names)))
            return "(MGen %d%%nat %s)" % (k, clist([cbool(x) for x in bits]))
    return "MFitShape" if is_fit else "MCopyFirst"


def _static_params(name):
    """constructor parameters of the catalogue's Hampel / Imputer entries (for replay terms)"""
    if name == "Hampel-5":
        return {"window_length": 5, "n_sigma": 3, "k": 1.4826, "return_bool": False}
    if name == "Hampel-bool":
        return {"window_length": 4, "n_sigma": 2, "k": 1.4826, "return_bool": True}
    m = name.split("-", 1)[1]
    p = {"method": m, "random_state": None, "value": None, "forecaster": None,
         "missing_values": None}
    if m == "constant":
        p["value"] = 7.5
    if m == "forecaster":
        p["forecaster"] = "<obj>"
    if m == "sentinel":
        p.update(method="mean", missing_values=-999.0)
    return p


def _cstore(bufs):
    return clist([czlist(b) for b in bufs])


def _cnatlist(ns):
    return clist(["%d%%nat" % n for n in ns])


def _cpairs(ps):
    return clist(["(%s, %s)" % (cz(a), cz(b)) for a, b in ps])


def coq_case(case, out):
    k = case["kind"]
    if k == "est":
        frame = case["input"].get("container") == "frame"
        calls = []
        # (a RandomState instance handed in as random_state is advanced by design)
        ign = {"random_state"} if case.get("seed_kind") == "rs" else set()
        changed = [False] + [bool(set(c["scratch"]) - ign) for c in out["calls"]]
        for i, ((b, a), q, ria) in enumerate(zip(out["own"], out["quals"], out["res_is_arg"])):
            calls.append("(%s, (%s, %s), (%s, %s))" % (
                _mref(q, i == 0, out.get("params", {}), frame), _cstore(b), _cstore(a),
                cbool(ria), cbool(changed[i])))
        pc = any(c["params_changed"] for c in out["calls"])
        if case.get("seed_kind") == "rs":
            pc = False      # a RandomState instance handed in as a parameter is advanced by design
        moved = [bool(c.get("cutoff")) for c in out["calls"]
                 if c["label"].startswith("predict")]
        return "CEst %s %s %s %s" % (clist(calls), cbool(pc), cstr(out.get("cls", "")) + "%string",
                                     clist([cbool(x) for x in moved]))
    if k == "pool":
        return "CPool %s %s %s %s %s" % (cz(case["a"]), cz(case["b"]), czlist(case["tags"]),
                                        _cnatlist(out["finish_order"]), czlist(out["collected"]))
    if k == "intervals":
        if "err" in out:
            return "CIntervals %d%%nat %s %s [] None" % (
                case["n_intervals"], cz(case["min_interval"]), cz(case["series_length"]))
        return "CIntervals %d%%nat %s %s %s (Some %s)" % (
            case["n_intervals"], cz(case["min_interval"]), cz(case["series_length"]),
            _cpairs(out["draws"]), _cpairs(out["intervals"]))
    return None


def coq_model_term(case):
    k = case["kind"]
    if k == "est":
        name = case["est"]
        frame = case["input"].get("container") == "frame"
        if name.startswith("Hampel"):
            r = _mref("HampelFilter.transform", False, _static_params(name), frame)
        elif name.startswith("Imputer"):
            r = _mref("Imputer.transform", False, _static_params(name), frame)
        else:
            r = "MCopyFirst"
        # (accepted by the analysis, id of the result when run on caller buffer 0 / estimator 1:
        #  an id >= 2 is a new object)
        return "(accepted %s, snd (apply 1 (prog_of %s) [[60; 2; 3]; []] 0))" % (r, r)
    if k == "pool":
        n = len(case["tags"])
        return ("parallel_map (pure_task (St := unit) (fun t => %s * t + %s)) %s tt %s"
                % (cz(case["a"]), cz(case["b"]), czlist(case["tags"]),
                   _cnatlist(list(range(n))[::-1])))
    return "get_intervals lcg_randint %d%%nat %s %s %s" % (
        case["n_intervals"], cz(case["min_interval"]), cz(case["series_length"]), cz(case["seed"]))
