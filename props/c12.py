"""C12 - applying an estimator is pure, reproducible and independent of scheduling (PARTIAL).

What is proved (coq/C12): an ownership model of apply-type methods (copy-first programs preserve
every pre-existing buffer, are repeatable and interleavable; in-place variants refuted), a
small-step pool semantics (ordered collection is schedule-free for pure tasks; shared RNG refuted;
seeds drawn before dispatch restore it) and a seeded-RNG model of `_get_intervals`.
What is regenerated: the `Parallel(...)` call-site facts of the anchored files (translator/
sites_c12.py, fail closed) and proved to satisfy the contract's preconditions (Bridge.v).
What is only sampled: real thread interleavings, pickle, BLAS - by the scenario run below, whose
verdict is the oracle (the Coq side of an estimator case is the ownership model's prediction
"caller buffers unchanged").
"""
import hashlib
import struct

from harness.core import cbool, clist, cz, czlist

ID = "C12"
MODEL_TARGETS = ["C12/Cases.vo"]
PROOF_TARGETS = ["C12/Sites.vo", "C12/Bridge.vo", "C12/Proofs.vo", "C12/Refuted.vo"]
OBLIGATION_FILES = ["C12/Bridge.v", "C12/Refuted.v"]
PROPS_FILE = "C12/Props.v"
SHARD = 60
PER_CASE_TIMEOUT = 150
RULE = ("catalogue of every estimator that runs under the compat layer (series transformers incl. every "
        "Imputer method and HampelFilter, panel transformers, forecasters incl. EnsembleForecaster / "
        "StackingForecaster / grid search / AutoETS(auto) with n_jobs, BOSS-family classifiers) x 3 "
        "inputs (clean, planted outliers, missing values) x containers (Series, DataFrame, nested "
        "DataFrame, 3-D array) x index kinds; per case: deep comparison of every argument before/after "
        "fit and each apply-type call, each call repeated and interleaved in reversed order, fit twice, "
        "equal-parameter refit on equal data under a different global RNG state, n_jobs in {None,1,2} "
        "(threading backend; 4 in thorough), pickle round trip; plus EnsembleForecaster with recording "
        "members (observed completion schedule fed to the pool model), _get_intervals over a recorded "
        "RNG stream, n_jobs=None acceptance. non-trivial = fit succeeded and at least one apply call "
        "returned a value (pool: observed schedule is not the identity; intervals: >=1 interval); "
        "distinct = distinct canonical JSON case")
TRUSTED = [
    "translator/sites_c12.py (Python ast -> Parallel call-site facts, fail closed): syntactic facts "
    "only (generator form, keywords, how the result list is bound, whether an RNG object is shared "
    "with the tasks, whether enclosing draws precede dispatch); joblib's own guarantee that "
    "Parallel returns results in task order is the modelled contract, sampled by the n_jobs runs",
    "the ownership model's reading of pandas: `Z = f(Z)` for copy/fillna/replace/apply/interpolate "
    "allocates a new object, `Z[col] = ..` / `Z.iloc[j] = ..` write through the current object",
    "digest comparison of results (sha1 of a canonical bit-exact snapshot, NaN canonicalised)",
]
MODELLED = [
    "real thread interleavings, pickle and BLAS behaviour are NOT modelled: they are sampled by the "
    "correspondence run (threading backend, n_jobs in {None,1,2[,4]}, pickle round trip); the proof "
    "level covers the modelled logic only",
    "estimator cases: the Coq side is only the ownership model's prediction `caller buffers "
    "unchanged after every call' (copy-first program instantiated with the observed result); the "
    "verdict on repeat/interleave/refit/n_jobs/pickle equality is the Python oracle",
    "ownership programs of HampelFilter.transform / Imputer.transform are hand-written models of "
    "the source (Model.v), tied by correspondence only",
    "forecasters remember the last horizon passed to predict (C20's _set_fh, by design): every "
    "predict call here passes its horizon explicitly",
    "apply-type methods that write scratch attributes on self without changing any later result "
    "(PlateauFinder._starts/_lengths, IndividualBOSS.transformer.words) are reported in the "
    "distribution (`scratch-attrs:*`) but not failed; constructor parameters and RNG state must not "
    "change",
    "random_state is an int seed throughout (the quantifier says `seeds'): a shared RandomState "
    "instance passed as random_state is outside the property",
]
NOT_RUNNABLE = [
    "TimeSeriesForestClassifier / RandomIntervalSpectralForest / SupervisedTimeSeriesForest / "
    "ComposableTimeSeriesForestClassifier (sklearn 1.7: ForestClassifier has no base_estimator): "
    "covered statically by the site facts of both _tsf.py files and by running _get_intervals",
    "TemporalDictionaryEnsemble, WEASEL (sklearn parameter validation rejects np.float64 max_depth)",
    "BoxCoxTransformer, LogTransformer (boxcox.py imports a private scipy name that no longer exists)",
    "MiniRocket, MiniRocketMultivariate (numpy 2: truth value of an array), MeanTransformer "
    "(TypeError in the base-class output check), MatrixProfileTransformer / Catch22 / TSFresh* / "
    "ARIMA / BATS / TBATS / Prophet / HCrystalBall (soft dependencies absent)",
    "distance-based and shapelet-based classifiers (sklearn private import / missing mrseql extension)",
    "reduction strategies direct / recursive / dirrec with stock regressors (numpy 2 refuses the "
    "length-1 array assignment); multioutput runs",
]


def translate(repo):
    from translator import sites_c12
    return sites_c12.translate(repo)


# ------------------------------------------------------------------------------------------------
# catalogue (static part: usable without sktime)

IMPUTER_METHODS = ["drift", "linear", "nearest", "constant", "mean", "median", "bfill", "ffill",
                   "random", "forecaster"]

CAT = {}


def _reg(name, kind, **kw):
    d = {"kind": kind, "nan": False, "frame": False, "n_jobs": False, "inverse": False, "slow": False}
    d.update(kw)
    CAT[name] = d


_reg("Hampel-5", "series", nan=True, frame=True)
_reg("Hampel-bool", "series", nan=True, frame=True)
for _m in IMPUTER_METHODS:
    _reg("Imputer-" + _m, "series", nan=True, frame=True)
_reg("Imputer-sentinel", "series", nan=True, frame=True)
_reg("Detrender", "series", inverse=True)
_reg("Deseasonalizer-add", "series", inverse=True)
_reg("Deseasonalizer-mul", "series", inverse=True)
_reg("ConditionalDeseasonalizer", "series", inverse=True)
_reg("ACF", "series")
_reg("PACF", "series")
_reg("Cosine", "series")
_reg("Adaptor-MinMax", "series", inverse=True)
_reg("Adaptor-Standard", "series", inverse=True)
_reg("Passthrough-off", "series", inverse=True)
_reg("Passthrough-on", "series", inverse=True)

for _n in ["ColumnConcatenator", "DWT", "HOG1D", "TSInterpolator", "MatrixProfile", "Padding",
           "PCA", "Tabularizer", "IntervalSegmenter", "RandomIntervalSegmenter",
           "SlidingWindowSegmenter", "Slope", "Truncation", "PAA", "SAX", "Rocket",
           "PlateauFinder", "DerivativeSlope", "RandomIntervalFeatureExtractor"]:
    _reg(_n, "panel")
_reg("SFA", "panel", n_jobs=True)
_reg("ContractedShapelet", "panel", slow=True)

for _n in ["Naive-last", "Naive-mean-sp", "Naive-drift", "Poly", "Theta", "ExpSmoothing", "AutoETS",
           "TransformedTarget", "Multiplex", "Reduce-multioutput", "OnlineEnsemble"]:
    _reg(_n, "forecaster")
_reg("ExpSmoothing", "forecaster", slow=True)
_reg("Ensemble-mean", "forecaster", n_jobs=True)
_reg("Ensemble-median", "forecaster", n_jobs=True)
_reg("Stacking", "forecaster", n_jobs=True)
_reg("GridSearch", "forecaster", n_jobs=True)
_reg("AutoETS-auto", "forecaster", n_jobs=True, slow=True)

_reg("BOSSEnsemble", "classifier", n_jobs=True, slow=True)
_reg("IndividualBOSS", "classifier", n_jobs=True)
_reg("ContractableBOSS", "classifier", n_jobs=True, slow=True)
_reg("MUSE", "classifier", n_jobs=True, slow=True)

NJOBS_NONE = ["BOSSEnsemble", "ContractableBOSS", "IndividualBOSS", "MUSE", "SFA", "Ensemble-mean",
              "Stacking", "GridSearch", "AutoETS-auto"]


def make(name, seed, n_jobs="default"):
    """Build the catalogue estimator `name` (driver side)."""
    from sklearn.linear_model import LinearRegression
    from sklearn.preprocessing import MinMaxScaler, StandardScaler
    kw = {} if n_jobs == "default" else {"n_jobs": n_jobs}
    if name.startswith("Hampel") or name.startswith("Imputer"):
        from sktime.forecasting.naive import NaiveForecaster
        from sktime.transformations.series.impute import Imputer
        from sktime.transformations.series.outlier_detection import HampelFilter
        if name == "Hampel-5":
            return HampelFilter(window_length=5)
        if name == "Hampel-bool":
            return HampelFilter(window_length=4, n_sigma=2, return_bool=True)
        m = name.split("-", 1)[1]
        if m == "constant":
            return Imputer(method="constant", value=7.5)
        if m == "random":
            return Imputer(method="random", random_state=seed)
        if m == "forecaster":
            return Imputer(method="forecaster", forecaster=NaiveForecaster(strategy="drift"))
        if m == "sentinel":
            return Imputer(method="mean", missing_values=-999.0)
        return Imputer(method=m)
    if name in ("Detrender", "Deseasonalizer-add", "Deseasonalizer-mul",
                "ConditionalDeseasonalizer", "Passthrough-off", "Passthrough-on"):
        from sktime.forecasting.trend import PolynomialTrendForecaster
        from sktime.transformations.series.compose import OptionalPassthrough
        from sktime.transformations.series.detrend import (ConditionalDeseasonalizer,
                                                            Deseasonalizer, Detrender)
        return {"Detrender": lambda: Detrender(PolynomialTrendForecaster(degree=1)),
                "Deseasonalizer-add": lambda: Deseasonalizer(sp=4),
                "Deseasonalizer-mul": lambda: Deseasonalizer(sp=4, model="multiplicative"),
                "ConditionalDeseasonalizer": lambda: ConditionalDeseasonalizer(sp=4),
                "Passthrough-off": lambda: OptionalPassthrough(Deseasonalizer(sp=4)),
                "Passthrough-on": lambda: OptionalPassthrough(Deseasonalizer(sp=4),
                                                              passthrough=True)}[name]()
    if name in ("ACF", "PACF"):
        from sktime.transformations.series.acf import (AutoCorrelationTransformer,
                                                        PartialAutoCorrelationTransformer)
        return (AutoCorrelationTransformer(n_lags=4) if name == "ACF"
                else PartialAutoCorrelationTransformer(n_lags=4))
    if name == "Cosine":
        from sktime.transformations.series.cos import CosineTransformer
        return CosineTransformer()
    if name.startswith("Adaptor"):
        from sktime.transformations.series.adapt import TabularToSeriesAdaptor
        return TabularToSeriesAdaptor(MinMaxScaler() if name.endswith("MinMax") else StandardScaler())
    if CAT[name]["kind"] == "panel":
        import importlib
        P = "sktime.transformations.panel."
        table = {
            "ColumnConcatenator": ("compose", "ColumnConcatenator", {}),
            "DWT": ("dwt", "DWTTransformer", {}),
            "HOG1D": ("hog1d", "HOG1DTransformer", {}),
            "TSInterpolator": ("interpolate", "TSInterpolator", {"length": 10}),
            "MatrixProfile": ("matrix_profile", "MatrixProfile", {"m": 5}),
            "Padding": ("padder", "PaddingTransformer", {}),
            "PCA": ("pca", "PCATransformer", {"n_components": 2}),
            "Tabularizer": ("reduce", "Tabularizer", {}),
            "IntervalSegmenter": ("segment", "IntervalSegmenter", {"intervals": 3}),
            "RandomIntervalSegmenter": ("segment", "RandomIntervalSegmenter",
                                        {"n_intervals": 3, "random_state": seed}),
            "SlidingWindowSegmenter": ("segment", "SlidingWindowSegmenter", {"window_length": 5}),
            "Slope": ("slope", "SlopeTransformer", {}),
            "Truncation": ("truncation", "TruncationTransformer", {"lower": 3, "upper": 11}),
            "PAA": ("dictionary_based", "PAA", {}),
            "SAX": ("dictionary_based", "SAX", {}),
            "SFA": ("dictionary_based", "SFA", dict(kw)),
            "Rocket": ("rocket", "Rocket", {"num_kernels": 20, "random_state": seed}),
            "PlateauFinder": ("summarize", "PlateauFinder", {}),
            "DerivativeSlope": ("summarize", "DerivativeSlopeTransformer", {}),
            "RandomIntervalFeatureExtractor": ("summarize", "RandomIntervalFeatureExtractor",
                                               {"n_intervals": 3, "random_state": seed}),
            "ContractedShapelet": ("shapelets", "ContractedShapeletTransform",
                                   {"time_contract_in_mins": 0.004, "random_state": seed,
                                    "verbose": 0}),
        }
        mod, cls, args = table[name]
        return getattr(importlib.import_module(P + mod), cls)(**args)
    if CAT[name]["kind"] == "forecaster":
        from sktime.forecasting.compose import (EnsembleForecaster, MultiplexForecaster,
                                                StackingForecaster, TransformedTargetForecaster,
                                                make_reduction)
        from sktime.forecasting.ets import AutoETS
        from sktime.forecasting.exp_smoothing import ExponentialSmoothing
        from sktime.forecasting.model_selection import (ForecastingGridSearchCV,
                                                         SlidingWindowSplitter)
        from sktime.forecasting.naive import NaiveForecaster
        from sktime.forecasting.online_learning import OnlineEnsembleForecaster
        from sktime.forecasting.theta import ThetaForecaster
        from sktime.forecasting.trend import PolynomialTrendForecaster
        from sktime.transformations.series.detrend import Deseasonalizer, Detrender

        def members():
            return [("last", NaiveForecaster()), ("poly", PolynomialTrendForecaster(degree=1)),
                    ("mean", NaiveForecaster("mean", sp=4)), ("drift", NaiveForecaster("drift")),
                    ("theta", ThetaForecaster(sp=4))]
        table = {
            "Naive-last": lambda: NaiveForecaster(),
            "Naive-mean-sp": lambda: NaiveForecaster("mean", sp=4),
            "Naive-drift": lambda: NaiveForecaster("drift"),
            "Poly": lambda: PolynomialTrendForecaster(degree=2),
            "Theta": lambda: ThetaForecaster(sp=4),
            "ExpSmoothing": lambda: ExponentialSmoothing(trend="add", sp=4),
            "AutoETS": lambda: AutoETS(),
            "AutoETS-auto": lambda: AutoETS(auto=True, sp=4, **kw),
            "TransformedTarget": lambda: TransformedTargetForecaster(
                [("des", Deseasonalizer(sp=4)), ("det", Detrender()), ("f", NaiveForecaster())]),
            "Multiplex": lambda: MultiplexForecaster(
                [("a", NaiveForecaster()), ("b", PolynomialTrendForecaster())],
                selected_forecaster="b"),
            "Reduce-multioutput": lambda: make_reduction(LinearRegression(), strategy="multioutput",
                                                         window_length=4),
            "OnlineEnsemble": lambda: OnlineEnsembleForecaster(
                [("a", NaiveForecaster()), ("b", PolynomialTrendForecaster())]),
            "Ensemble-mean": lambda: EnsembleForecaster(members(), **kw),
            "Ensemble-median": lambda: EnsembleForecaster(members(), aggfunc="median", **kw),
            "Stacking": lambda: StackingForecaster(members()[:3], final_regressor=LinearRegression(),
                                                   **kw),
            "GridSearch": lambda: ForecastingGridSearchCV(
                NaiveForecaster(), SlidingWindowSplitter(fh=[1, 2, 3], window_length=10),
                {"strategy": ["last", "mean", "drift"]}, **kw),
        }
        return table[name]()
    if CAT[name]["kind"] == "classifier":
        from sktime.classification.dictionary_based import (MUSE, BOSSEnsemble, ContractableBOSS,
                                                            IndividualBOSS)
        table = {
            "BOSSEnsemble": lambda: BOSSEnsemble(random_state=seed, max_ensemble_size=4, **kw),
            "IndividualBOSS": lambda: IndividualBOSS(random_state=seed, window_size=8,
                                                     word_length=4, **kw),
            "ContractableBOSS": lambda: ContractableBOSS(random_state=seed, n_parameter_samples=8,
                                                         max_ensemble_size=3, **kw),
            "MUSE": lambda: MUSE(random_state=seed, **kw),
        }
        return table[name]()
    raise KeyError(name)


# ------------------------------------------------------------------------------------------------
# input builders (pure functions of the case description; driver side)


def series_data(n, variant, index, seed):
    import numpy as np
    import pandas as pd
    r = np.random.RandomState(seed)
    t = np.arange(n, dtype=float)
    v = 20.0 + 0.5 * t + 3.0 * np.sin(t * 2 * np.pi / 4.0) + r.normal(0, 0.4, n)
    v = np.round(v, 3)
    if variant == "outliers":          # spikes near both ends and in the middle
        for p in (1, n // 2, n - 2):
            v[p] = v[p] + 60.0
    if variant == "missing":           # NaN incl. first and last observation
        for p in (0, 3, n // 2, n - 1):
            v[p] = np.nan
    if variant == "sentinel":
        for p in (2, n // 2):
            v[p] = -999.0
    if index == "range":
        idx = pd.RangeIndex(n)
    elif index == "int":
        idx = pd.Index(np.arange(5, 5 + n))
    elif index == "datetime":
        idx = pd.date_range("2001-01-31", periods=n, freq="M")
    else:
        idx = pd.period_range("2001-01", periods=n, freq="M")
    return pd.Series(v, index=idx, name="y")


def frame_data(n, variant, index, seed):
    import pandas as pd
    a = series_data(n, variant, index, seed)
    b = series_data(n, variant, index, seed + 1) * 2.0 + 1.0
    return pd.DataFrame({"a": a, "b": b})


def panel_data(ninst, m, variant, container, seed, ncol=1):
    import numpy as np
    import pandas as pd
    r = np.random.RandomState(seed)
    X = np.zeros((ninst, ncol, m))
    y = np.array([i % 2 for i in range(ninst)])
    t = np.arange(m, dtype=float)
    for i in range(ninst):
        for c in range(ncol):
            X[i, c] = np.round((1 + y[i]) * np.sin(t * 2 * np.pi / (6.0 + 3 * y[i]) + c)
                               + r.normal(0, 0.3, m) + 0.05 * t * y[i], 3)
    if variant == "outliers":
        X[0, 0, 1] += 25.0
        X[ninst - 1, 0, m - 1] -= 25.0
    if variant == "missing":
        X[1, 0, 2] = np.nan
        X[ninst - 1, 0, m - 1] = np.nan
    if container == "numpy3d":
        return X, y
    df = pd.DataFrame({"dim_%d" % c: [pd.Series(X[i, c].copy()) for i in range(ninst)]
                       for c in range(ncol)})
    if variant == "outliers":          # also: instance index not in sorted order
        df.index = pd.Index(list(range(ninst))[::-1])
    return df, y


# ------------------------------------------------------------------------------------------------
# deep snapshots (driver side)

_NAN = 0x7FF8000000000000


def _bits(x):
    """float -> int (IEEE-754 bit pattern; every NaN mapped to one code)"""
    x = float(x)
    if x != x:
        return _NAN
    return struct.unpack("<q", struct.pack("<d", x))[0]


def unbits(i):
    return struct.unpack("<d", struct.pack("<q", int(i)))[0]


def _vals(a):
    import numpy as np
    a = np.asarray(a)
    if a.dtype.kind in "fiub":
        return [_bits(x) for x in a.astype(float).ravel()]
    out = []
    for x in a.ravel():
        if isinstance(x, (float, np.floating, int, np.integer)) and not isinstance(x, bool):
            out.append(_bits(x))
        else:
            out.append(repr(x))
    return out


def _labels(idx):
    import pandas as pd
    if isinstance(idx, pd.DatetimeIndex):
        return [int(x) // 10 ** 9 for x in idx.asi8]
    if isinstance(idx, pd.PeriodIndex):
        return [int(x) for x in idx.asi8]
    out = []
    for x in idx:
        try:
            out.append(int(x) if float(x) == int(x) else repr(x))
        except (TypeError, ValueError, OverflowError):
            out.append(repr(x))
    return out


def snap(obj):
    """Canonical deep snapshot of an argument or a result: values (bit-exact), labels, dtype."""
    import numpy as np
    import pandas as pd
    if obj is None:
        return None
    if isinstance(obj, pd.Series):
        if obj.dtype == object and len(obj) and isinstance(obj.iloc[0], (pd.Series, np.ndarray)):
            return {"t": "nested-col", "cells": [snap(c) for c in obj], "index": _labels(obj.index)}
        return {"t": "series", "v": _vals(obj.values), "index": _labels(obj.index),
                "dtype": str(obj.dtype), "name": repr(obj.name),
                "freq": str(getattr(obj.index, "freqstr", None)),
                "ikind": _ikind(obj.index)}
    if isinstance(obj, pd.DataFrame):
        return {"t": "frame", "columns": [repr(c) for c in obj.columns],
                "cols": [snap(obj.iloc[:, j]) for j in range(obj.shape[1])],
                "index": _labels(obj.index), "ikind": _ikind(obj.index)}
    if isinstance(obj, np.ndarray):
        return {"t": "array", "shape": list(obj.shape), "dtype": str(obj.dtype), "v": _vals(obj)}
    if isinstance(obj, (list, tuple)):
        return {"t": "list", "items": [snap(x) for x in obj]}
    if isinstance(obj, dict):
        return {"t": "dict", "items": [[repr(k), snap(v)] for k, v in sorted(
            obj.items(), key=lambda kv: repr(kv[0]))]}
    if isinstance(obj, (bool, np.bool_)):
        return {"t": "bool", "v": [int(obj)]}
    if isinstance(obj, (int, float, np.integer, np.floating)):
        return {"t": "scalar", "v": [_bits(obj)]}
    if isinstance(obj, str):
        return {"t": "str", "v": obj}
    return {"t": "other", "repr": type(obj).__name__}


def _ikind(idx):
    """index kind; a plain integer Index and a RangeIndex with equal labels are the same kind
    (statsmodels adapters swap one for the other: labels and values unchanged, not a modification)"""
    import pandas as pd
    if isinstance(idx, pd.DatetimeIndex):
        return "datetime"
    if isinstance(idx, pd.PeriodIndex):
        return "period"
    if isinstance(idx, pd.RangeIndex) or idx.dtype.kind in "iu":
        return "integer"
    return str(idx.dtype)


def digest(s):
    import json
    return hashlib.sha1(json.dumps(s, sort_keys=True).encode()).hexdigest()[:16]


def diff(a, b, path=""):
    """First difference between two snapshots, as a short string; None when equal."""
    if a == b:
        return None
    if type(a) != type(b) or a is None or b is None:
        return "%s: %s -> %s" % (path or "object", str(a)[:40], str(b)[:40])
    if isinstance(a, dict):
        if a.get("t") != b.get("t"):
            return "%s: container %s -> %s" % (path, a.get("t"), b.get("t"))
        for k in a:
            if a[k] != b.get(k):
                if isinstance(a[k], list) and isinstance(b.get(k), list):
                    if len(a[k]) != len(b[k]):
                        return "%s.%s: length %d -> %d" % (path, k, len(a[k]), len(b[k]))
                    for i, (x, y) in enumerate(zip(a[k], b[k])):
                        if x != y:
                            if isinstance(x, (dict, list)):
                                return diff(x, y, "%s.%s[%d]" % (path, k, i))
                            if isinstance(x, int) and isinstance(y, int) and k == "v":
                                return "%s.%s[%d]: %r -> %r" % (path, k, i, unbits(x), unbits(y))
                            return "%s.%s[%d]: %r -> %r" % (path, k, i, x, y)
                return "%s.%s: %s -> %s" % (path, k, str(a[k])[:40], str(b.get(k))[:40])
    if isinstance(a, list):
        if len(a) != len(b):
            return "%s: length %d -> %d" % (path, len(a), len(b))
        for i, (x, y) in enumerate(zip(a, b)):
            if x != y:
                return diff(x, y, "%s[%d]" % (path, i)) if isinstance(x, (dict, list)) else \
                    "%s[%d]: %r -> %r" % (path, i, x, y)
    return "%s: differs" % path


def _cell(b):
    """buffer cell for the Coq side: small even code for milli-exact values, odd code otherwise"""
    if not isinstance(b, int):
        return 3
    if b == _NAN:
        return 1
    v = unbits(b)
    m = round(v * 1000)
    if abs(m) < 2 ** 40 and m / 1000.0 == v:
        return 2 * m
    return 2 * b + 1 if b != 0 else 0


def flat(s):
    """All cells of a snapshot (values, then index labels) as the `buffer` the Coq side sees."""
    if s is None:
        return []
    t = s.get("t")
    out = []
    if t in ("series", "array", "scalar", "bool"):
        out = [_cell(x) for x in s["v"]]
        out += [2 * x if isinstance(x, int) else 3 for x in s.get("index", [])]
    elif t == "nested-col":
        for c in s["cells"]:
            out += flat(c)
        out += [2 * x if isinstance(x, int) else 3 for x in s.get("index", [])]
    elif t == "frame":
        for c in s["cols"]:
            out += flat(c)
    elif t == "list":
        for c in s["items"]:
            out += flat(c)
    return out


# ------------------------------------------------------------------------------------------------
# estimator state digests (driver side)


def _enc_state(o, d, seen, rng_only):
    import numpy as np
    import pandas as pd
    if isinstance(o, np.random.RandomState):
        st = o.get_state()
        return "RS:" + hashlib.sha1(st[1].tobytes() + repr(st[2:]).encode()).hexdigest()[:12]
    if isinstance(o, np.random.Generator):
        return "G:" + hashlib.sha1(repr(o.bit_generator.state).encode()).hexdigest()[:12]
    if o is None or isinstance(o, (bool, int, str, bytes)):
        return "" if rng_only else repr(o)
    if isinstance(o, (float, np.floating)):
        return "" if rng_only else "f%d" % _bits(o)
    if isinstance(o, np.integer):
        return "" if rng_only else repr(int(o))
    if isinstance(o, np.ndarray):
        if o.dtype == object:
            return "AO[" + ",".join(_enc_state(x, d + 1, seen, rng_only) for x in o.ravel()[:500]) + "]"
        return "" if rng_only else "A%s%s:%s" % (
            o.dtype, o.shape, hashlib.sha1(np.ascontiguousarray(o).tobytes()).hexdigest()[:12])
    if isinstance(o, pd.Index):
        return "" if rng_only else "I:" + hashlib.sha1(repr(_labels(o)).encode()).hexdigest()[:12]
    if isinstance(o, (pd.Series, pd.DataFrame)):
        return "" if rng_only else "P:" + digest(snap(o))
    if d > 7:
        return "..."
    if isinstance(o, (list, tuple)):
        return "[" + ",".join(_enc_state(x, d + 1, seen, rng_only) for x in o[:2000]) + "]"
    if isinstance(o, dict):
        items = sorted(o.items(), key=lambda kv: repr(kv[0]))
        return "{" + ",".join("%s:%s" % (repr(k), _enc_state(v, d + 1, seen, rng_only))
                              for k, v in items[:2000]) + "}"
    if isinstance(o, (set, frozenset)):
        return "S{" + ",".join(sorted(_enc_state(x, d + 1, seen, rng_only) for x in o)) + "}"
    mod = type(o).__module__ or ""
    if (mod.startswith("sktime") or mod.startswith("sklearn") or mod.startswith("props")) \
            and hasattr(o, "__dict__"):
        if id(o) in seen:
            return "<cycle>"
        seen.add(id(o))
        return type(o).__name__ + "(" + ",".join(
            "%s=%s" % (k, _enc_state(v, d + 1, seen, rng_only))
            for k, v in sorted(vars(o).items()) if k != "_fh") + ")"
    return "<%s>" % type(o).__name__


def attr_digests(est):
    """per-attribute digest of the known-type part of the estimator's state (`_fh`, the
    remembered horizon, excluded: see MODELLED)"""
    return {k: hashlib.sha1(_enc_state(v, 0, set(), False).encode()).hexdigest()[:12]
            for k, v in sorted(vars(est).items()) if k != "_fh"}


def params_digest(est):
    try:
        p = est.get_params(deep=True)
    except Exception as e:  # noqa
        return "get_params-error:" + type(e).__name__
    return hashlib.sha1(_enc_state(p, 0, set(), False).encode()).hexdigest()[:12]


def rng_digest(est):
    """every RandomState reachable from the estimator's state, plus numpy's global RNG"""
    import numpy as np
    g = np.random.get_state()
    own = _enc_state(vars(est), 0, set(), True)
    return hashlib.sha1(own.encode() + g[1].tobytes() + repr(g[2:]).encode()).hexdigest()[:12]
