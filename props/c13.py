"""C13 - series transformers are invertible, index-preserving and aligned in time."""
from harness.core import cbool, clist, copt, cq, cz, czlist, float_ratio

ID = "C13"
MODEL_TARGETS = ["C13/Cases.vo"]
PROOF_TARGETS = ["C13/Gen.vo", "C13/Proofs.vo", "C13/Bridge.vo"]
OBLIGATION_FILES = ["C13/Bridge.v"]
PROPS_FILE = "C13/Props.v"
SHARD = 120
PER_CASE_TIMEOUT = 120
RULE = ("scenario = fit on a training series with integer index (RangeIndex or Int64 index) starting "
        "at a random offset t0 in -20..60, optionally transform(training series), 0-2 update() calls "
        "(Deseasonalizer: batches starting anywhere; Detrender: contiguous batches, update_params "
        "True/False), then transform + inverse_transform of a stretch starting at offset "
        "-sp..2*sp into / n..n+sp after the training series (all offsets 0..2*sp enumerated per sp "
        "and model for the Deseasonalizer, without and with updates), on a contiguous index or on a "
        "GAPPED one (explicit time points with steps 1, 2, 3, sp-1, sp, sp+1, 2sp+1; about a "
        "quarter of the stretches of every invertible kind, 4 per sp and model for the "
        "Deseasonalizer), and the same scenario with every index shifted by k (k=-t0, i.e. a 0-based "
        "index, oversampled); configurations: Deseasonalizer additive / "
        "multiplicative sp 2..7, ConditionalDeseasonalizer (default test, forced seasonal, forced "
        "not seasonal), Detrender(PolynomialTrendForecaster degree 0..2 / default), LogTransformer, "
        "BoxCoxTransformer (mle/pearsonr, bounds), TabularToSeriesAdaptor(StandardScaler / "
        "MinMaxScaler variants), OptionalPassthrough(passthrough True/False) around them, "
        "HampelFilter, Imputer (all methods), CosineTransformer, ACF/PACF; Period (monthly) and Datetime "
        "(daily) indices for the deseasonalizers, Period for the pointwise ones. values are dyadic rationals (k/64). "
        "HISTORIES (kind=history, ~74 per quick run): one estimator object receives fit or "
        "fit_transform(train), transform+inverse_transform calls and 1-2 update(later batch, "
        "update_params True/False) calls in a generated order; after every update the TRAINING series "
        "is transformed again, and the training series, a stretch overlapping its end, the whole "
        "series, the later stretch and two equal-length stretches at different phases are probed; "
        "for Detrender(PolynomialTrendForecaster degree 0-2/default, NaiveForecaster last/mean/drift, "
        "the later data has a different slope so a refit moves the trend), Deseasonalizer, "
        "ConditionalDeseasonalizer, TabularToSeriesAdaptor and OptionalPassthrough (the last two have "
        "no update()); every probe is compared with deep copies of a second estimator that received "
        "the same fit/update calls but no transform call (same stretch, and whole series restricted "
        "to the stretch). "
        "SUB-DAILY / DAILY TIME STAMPS (56 per quick run, 400 thorough): Deseasonalizer / "
        "ConditionalDeseasonalizer on a DatetimeIndex or PeriodIndex with frequency h, min, s or D "
        "(integer time t = t steps of the frequency after 2000-01-01), sp dividing (2,3,4,6,12,24 "
        "...) and NOT dividing (5,7,9,10,11,13) the number of steps per day, training series that "
        "pass a day boundary (26-60 hourly points; thorough: sp=168 on 340 hourly points), stretches "
        "around the first day boundary, 1-30 days after, a day or more BEFORE, overlapping past the "
        "first day, contiguous and gapped, 0-2 updates, shifted by k; plus fit_transform of hourly "
        "training series of 26-45 points against the decomposition; the expected component is "
        "computed from POSITIONS, (t - t0) mod sp. "
        "corpus/C13 pins the minimal inputs of the three repaired defects (update batch off phase, "
        "gapped stretch, label-based window). "
        "non-trivial = the scenario ran (no exception); distinct = distinct canonical JSON case")
TRUSTED = [
    "translator/series_c13.py + translator/symex_c13.py (fail-closed): the anchored methods are "
    "EVALUATED symbolically (data flow: locals substituted, private helpers of the same file "
    "inlined with argument binding by call graph from the public entry points - no helper is looked "
    "up by name -, guard clauses == if/else == conditional expressions compared as canonical "
    "decision trees, list-building / index loops == comprehensions, negation normal form, "
    "positional == keyword arguments from the callee definitions in /repo, dict dispatch on the two "
    "model literals, raising branches = invalid input dropped, check_series/check_sp/"
    "check_is_fitted = identity on valid input) into the term they return plus the attribute "
    "writes they perform, and Gen.v is generated from those terms: _get_duration under 'y given, x "
    "not date-like' (x - y); Deseasonalizer.transform/inverse_transform = Z <op per model> "
    "np.asarray(seasonal_)[phases], phases = the translated integer expression for every time "
    "point of the PASSED series' index; which attributes Deseasonalizer.update writes; "
    "Detrender.transform/inverse_transform = Z <op> forecaster_.predict(ForecastingHorizon("
    "Z.index, is_relative=False), X); BaseTransformer.fit_transform; all proved equal to the model "
    "(Bridge.v).  Checked on the evaluated terms (not on source text): fit writes _y_index = "
    "Z.index and seasonal_ = seasonal_decompose(Z, model, period=sp, filt=None, two_sided=True, "
    "extrapolate_trend=0).seasonal.iloc[:sp] (conditional variant: that when the test says "
    "seasonal, np.zeros(sp)/np.ones(sp) per model otherwise), ConditionalDeseasonalizer's "
    "transform/inverse_transform/update evaluate to the same terms as the base class's, transform/"
    "inverse_transform write no attribute of self (also an AST walk over BoxCox, Log, adaptor, "
    "OptionalPassthrough and the own methods they call; Detrender.update's body is not pinned: the "
    "theorems hold for any forecaster update), no in-scope class overrides fit_transform.  The "
    "evaluator is trusted to be a sound partial evaluator of the subset it accepts (anything "
    "outside raises); the earlier np.resize(np.roll(...)) alignment is not understood",
    "modelled numpy/pandas semantics: ndarray[int array] = positional lookup (phases are in "
    "0..sp-1, so numpy's negative-index wrap-around never applies), Python % = floor modulus, "
    "Series (op) ndarray positional keeping the Series index, Series - Series positional when both "
    "carry the same index (z_pred is indexed by the horizon it was asked for), check_series / "
    "check_is_fitted identity on valid input; a series is its list of (time point, value) "
    "observations in index order, the index may start anywhere and have gaps",
    "oracles (arguments of the model, universally quantified in the theorems, read from the fitted "
    "object in the correspondence run): seasonal_ of statsmodels.seasonal_decompose (assumed to "
    "depend on the training VALUES only), the trend forecast (PolynomialTrendForecaster "
    "coefficients applied to t - first training time point), Box-Cox lambda, exp/ln/pow, the "
    "sklearn scalers' fitted statistics, the seasonality test",
    "props/c13.py driver_init aliases two private scipy names (scipy.stats._morestats -> "
    "scipy.stats.morestats) so that boxcox.py (LogTransformer, BoxCoxTransformer) imports at all",
]
MODELLED = [
    "LogTransformer / BoxCoxTransformer: proved over abstract exp/ln/pow with three algebraic "
    "hypotheses; tied by correspondence only through index equality, the round trip in Q and the "
    "shift relation (their values are not recomputed in Coq)",
    "HampelFilter, Imputer, CosineTransformer, ACF, PACF: no value model; the theorem covers every transformer that is "
    "a function of the positional values, and the run checks index preservation, fit_transform and "
    "the shift relation on the real outputs (Coq compares the two runs' outputs, CShift)",
    "TabularToSeriesAdaptor: affine scalers only (StandardScaler, MinMaxScaler), one column",
    "OptionalPassthrough: modelled as `if passthrough then identity else inner`",
    "Detrender.update: the forecaster's own update/refit is an oracle (any trend function); gapped "
    "or overlapping update batches are not generated (the forecaster's remembered series would "
    "get a non-monotonic index)",
    "the TRAINING series is always contiguous (statsmodels decomposes positionally; "
    "C13_training_series_component is stated for a contiguous training series); gapped indices are "
    "generated for the transformed stretch only, on Int64 / Period / Datetime indices; DataFrame "
    "inputs are outside the model; Period/Datetime "
    "indices are run for the deseasonalizers with time = month ordinal / day number, but "
    "_get_duration's date branch (coercion through the frequency) is not regenerated - for those "
    "index types the tie is the correspondence run only",
    "call histories: the Coq history semantics treats Transform/Inverse as queries by construction; "
    "that the real classes behave so is tied by the translator's no-write pin (own attributes only: "
    "a write through vars(self)/a sub-estimator is invisible to it) and, on every run, by the "
    "comparison with an estimator that did not see the earlier transform calls (sampled); "
    "sub-estimators (forecaster_.predict, transformer_.transform) are trusted to be queries; "
    "NaiveForecaster-based trends have no value model (index, round trip where finite, "
    "call-history independence and restriction only)",
    "date-like indices: DatetimeIndex and PeriodIndex with frequency D, h, min, s (and monthly "
    "PeriodIndex) are RUN for the deseasonalizers and compared position-wise with the integer-time "
    "model; frequencies with a multiplier (2h, 15min), business / week / quarter / year "
    "frequencies and time-zone aware indices are not generated; Detrender and the call histories "
    "stay on integer indices (see NOT_RUNNABLE)",
    "MeanTransformer (series-to-primitives) is not a series-to-series transformer and is not covered",
]
NOT_RUNNABLE = [
    "MatrixProfileTransformer (matrix_profile.py): the optional dependency stumpy is not installed; "
    "covered statically only (the translator checks it does not override fit_transform; its output "
    "is a fresh position-indexed Series computed from the values)",
    "DatetimeIndex / PeriodIndex for Detrender and Imputer('drift'/'forecaster'): the trend "
    "forecaster's date paths need pandas-1 behaviour (Timestamp.freq, ordered offsets) that this "
    "environment lacks; run on integer indices only",
]


def translate(repo):
    from translator import series_c13
    return series_c13.translate(repo)


def driver_init():
    import warnings
    warnings.filterwarnings("ignore")
    # boxcox.py imports two private names from the deprecated scipy.stats.morestats namespace
    import scipy.stats._morestats as mm
    import scipy.stats.morestats as m
    for n in ("_boxcox_conf_interval", "_calc_uniform_order_statistic_medians"):
        if not hasattr(m, n):
            setattr(m, n, getattr(mm, n))


# ------------------------------------------------------------------------------------------------
# case generation

INVERTIBLE = ("deseason", "cond", "detrend", "log", "boxcox", "adaptor", "optional", "train")
POSITIONAL = ("hampel", "imputer", "cos")
LAGGED = ("acf", "pacf")
IMPUTE_METHODS = ["drift", "linear", "nearest", "constant", "mean", "median", "backfill", "bfill",
                  "pad", "ffill", "random"]


def _dy(rng, lo, hi):
    """a dyadic rational in [lo, hi) with denominator 64 (exact as a float, small in Coq)"""
    return rng.randint(int(lo * 64), int(hi * 64) - 1) / 64.0


def _seasonal_series(rng, n, sp, positive):
    pat = [_dy(rng, 0, 6) for _ in range(sp)]
    base = 8.0 if positive else 0.0
    slope = rng.choice([0, 0, 0.125, 0.25, -0.125])
    if positive and slope < 0:
        slope = 0.125
    return [base + pat[i % sp] + slope * i + _dy(rng, 0, 1) for i in range(n)]


def _plain_series(rng, n, positive):
    if positive:
        return [_dy(rng, 0.5, 9) for _ in range(n)]
    return [_dy(rng, -6, 9) for _ in range(n)]


def _pick_k(rng, t0):
    r = rng.random()
    if r < 0.2:
        return 0
    if r < 0.5 and t0 != 0:
        return -t0
    return rng.choice([-37, -11, -3, -1, 1, 2, 5, 13, 100])


def _stretch(rng, n, sp, positive, off=None):
    if off is None:
        r = rng.random()
        if r < 0.55:
            off = rng.randint(0, 2 * sp)
        elif r < 0.85:
            off = n + rng.randint(0, sp)
        elif r < 0.93:
            off = -rng.randint(1, sp + 1)
        else:
            off = n - rng.randint(1, 3)
    m = rng.randint(1, sp + 3)
    return off, _plain_series(rng, m, positive)


def _gaps(rng, m, sp):
    """relative time offsets 0 = r0 < r1 < ... of a GAPPED stretch of m >= 2 observations (at least
    one step > 1; steps that are / are not multiples of sp both occur)"""
    while True:
        steps = [rng.choice([1, 1, 2, 3, sp - 1 or 1, sp, sp + 1, 2 * sp + 1]) for _ in range(m - 1)]
        if any(st > 1 for st in steps):
            break
    rel = [0]
    for st in steps:
        rel.append(rel[-1] + st)
    return rel


def _with_gaps(rng, case, sp):
    """turn the transformed stretch of `case` into a gapped one (integer / period / datetime index
    built from explicit time points; a RangeIndex cannot have gaps)"""
    if len(case["z"]) < 2:
        case["z"] = case["z"] + [case["z"][0] + 0.5]
    case["rel"] = _gaps(rng, len(case["z"]), sp)
    if case["idx"] == "range":
        case["idx"] = "int"
    return case


def _common(rng, kind, cfg, y, off, z, ups=(), pre=False, k=None):
    t0 = rng.choice([0, 0, 1, 3, 5, 7, 12, 29, 60, -4, -20])
    return {"kind": kind, "cfg": cfg, "t0": t0, "rel": None,
            # DatetimeIndex only where this environment can run it (pandas 2 dropped Timestamp.freq,
            # which the trend forecaster needs): the deseasonalizers
            # (the trend forecaster behind Detrender / Imputer("drift") is run on integer indices
            # only: its Period / Datetime paths need pandas-1 behaviour this environment lacks)
            "idx": rng.choice(["range", "range", "int", "int", "int"]
                              + (["period", "datetime"] if kind in ("deseason", "cond", "train")
                                 else ["period"] if kind in ("log", "boxcox", "adaptor", "hampel",
                                                             "acf", "pacf", "cos") else ["int"])),
            "y": y,
            "pre": pre, "ups": list(ups), "off": off, "z": z,
            "k": _pick_k(rng, t0) if k is None else k}


def _des_ups(rng, n, sp, how):
    """update batches for the (conditional) deseasonalizer: anywhere relative to the training start"""
    if how == 0:
        return []
    ups = []
    at = n
    for _ in range(how):
        ln = rng.randint(1, sp + 1)
        if rng.random() < 0.3:
            at = rng.randint(1, n + sp)          # overlapping / out-of-order batch
        ups.append({"at": at, "vals": _plain_series(rng, ln, True), "params": rng.random() < 0.5})
        at += ln
    return ups


def _gen_deseason(rng, cases, reps):
    for sp in range(2, 8):
        for model in ("additive", "multiplicative"):
            offs = list(range(0, 2 * sp + 1))
            for rep in range(reps):
                # rep 0: every offset 0..2*sp without update; rep 1: every offset with update(s)
                for off in offs if rep < 2 else rng.sample(offs, 3):
                    n = 2 * sp + rng.randint(0, sp + 2)
                    y = _seasonal_series(rng, n, sp, True)
                    if rep >= 2 and rng.random() < 0.6:
                        off2, z = _stretch(rng, n, sp, True)
                    else:
                        off2, z = _stretch(rng, n, sp, True, off)
                    how = 0 if rep == 0 else rng.choice([1, 1, 2]) if rep == 1 else \
                        rng.choice([0, 1, 2])
                    cases.append(_common(rng, "deseason", {"sp": sp, "model": model}, y, off2, z,
                                         _des_ups(rng, n, sp, how), pre=rng.random() < 0.3))
            # gapped stretches (e.g. the prediction index of a gapped forecasting horizon), starting
            # before / inside / after the training series, with and without updates in between
            for g in range(4 if reps <= 3 else 12):
                n = 2 * sp + rng.randint(0, sp + 2)
                y = _seasonal_series(rng, n, sp, True)
                off2, z = _stretch(rng, n, sp, True)
                c = _common(rng, "deseason", {"sp": sp, "model": model}, y, off2, z,
                            _des_ups(rng, n, sp, rng.choice([0, 1, 2]) if g else 0),
                            pre=rng.random() < 0.3)
                cases.append(_with_gaps(rng, c, sp))
            for extra in (0, rng.randint(1, sp - 1), rng.randint(sp, 2 * sp)):
                n = 2 * sp + extra
                y = _seasonal_series(rng, n, sp, True)
                cases.append(_common(rng, "train", {"sp": sp, "model": model}, y, 0, y))


def _gen_subdaily(rng, cases, count, long_sp):
    """(conditional) deseasonalizer on DatetimeIndex / PeriodIndex with frequency D, h, min, s:
    training series and stretches that lie MORE THAN ONE DAY after (or before) the training start,
    periods that do and do not divide the number of steps per day, with / without updates, shifted,
    contiguous and gapped.  The expected component is computed from POSITIONS: (t - t0) mod sp."""
    for i in range(count):
        f = rng.choice(["h", "h", "h", "h", "min", "min", "s", "D"])
        fam = rng.choice(["dt", "dt", "dt", "pd"])
        S = STEPS_PER_DAY[f]
        # 24 = 2^3*3, 1440 = 2^5*3^2*5, 86400 = 2^7*3^3*5^2: 7, 9, 10, 11, 13 (and 5 for hours)
        # do not divide the day
        sp = rng.choice([7, 7, 7, 5, 5, 9, 10, 3, 4, 6, 12, 24] if f == "h"
                        else [7, 7, 7, 7, 11, 13, 5, 2, 3, 6, 4])
        model = rng.choice(["additive", "multiplicative"])
        kind = "cond" if i % 4 == 3 else "deseason"
        if f == "h" and rng.random() < 0.6:
            n = rng.randint(max(26, 2 * sp), max(60, 3 * sp))   # the training series passes a day
        else:
            n = (2 if kind == "deseason" else 3) * sp + rng.randint(0, sp + 2)
        y = _seasonal_series(rng, n, sp, True)
        r = rng.random()
        if r < 0.3:
            off = S + rng.randint(-2, sp)                # around the first day boundary
        elif r < 0.55:
            off = rng.choice([1, 2, 3, 7, 30]) * S + rng.randint(0, 2 * sp)
        elif r < 0.7:
            off = -(rng.choice([1, 2]) * S + rng.randint(0, sp))     # a day or more BEFORE
        elif r < 0.85 and n > S:
            off = rng.randint(S, n - 1)                  # overlapping, past the first day
        else:
            off = n + rng.randint(0, sp) + rng.choice([0, S])
        _, z = _stretch(rng, n, sp, True, off)
        cfg = {"sp": sp, "model": model}
        if kind == "cond":
            cfg["test"] = rng.choice(["auto", "true", "true", "false"])
        c = _common(rng, kind, cfg, y, off, z, _des_ups(rng, n, sp, rng.choice([0, 0, 1, 2])),
                    pre=rng.random() < 0.3)
        c["idx"] = "%s:%s" % (fam, f)
        if rng.random() < 0.3:
            _with_gaps(rng, c, sp)
        cases.append(c)
    # the training series itself past its first day (fit_transform against the decomposition)
    for sp, n in [(7, 30), (5, 26), (7, 45)] + ([(168, 340)] if long_sp else []):
        y = _seasonal_series(rng, n, sp, True)
        c = _common(rng, "train", {"sp": sp, "model": rng.choice(["additive", "multiplicative"])},
                    y, 0, y)
        c["idx"] = rng.choice(["dt:h", "dt:h", "pd:h"])
        cases.append(c)
    if long_sp:                    # hourly data with a weekly season, stretch in the second week
        sp, n = 168, 336 + rng.randint(0, 30)
        y = _seasonal_series(rng, n, sp, True)
        off = rng.choice([170, 200, n + 5, 24 * 9 + 3])
        _, z = _stretch(rng, n, 4, True, off)
        c = _common(rng, "deseason", {"sp": sp, "model": "additive"}, y, off, z)
        c["idx"] = "dt:h"
        cases.append(c)


def _gen_cond(rng, cases, count):
    for _ in range(count):
        sp = rng.randint(2, 7)
        model = rng.choice(["additive", "multiplicative"])
        test = rng.choice(["auto", "auto", "true", "false"])
        n = 3 * sp + rng.randint(0, sp)
        y = (_seasonal_series(rng, n, sp, True) if rng.random() < 0.7
             else _plain_series(rng, n, True))
        off, z = _stretch(rng, n, sp, True)
        c = _common(rng, "cond", {"sp": sp, "model": model, "test": test}, y, off, z,
                    _des_ups(rng, n, sp, rng.choice([0, 1, 2])))
        cases.append(_with_gaps(rng, c, sp) if rng.random() < 0.3 else c)


def _gen_detrend(rng, cases, count):
    for _ in range(count):
        deg = rng.choice([0, 1, 2, 1, 2, None])
        n = rng.randint(6, 16)
        y = [_dy(rng, -2, 2) + 0.25 * i for i in range(n)]
        sp = 4
        off, z = _stretch(rng, n, sp, False)
        ups = []
        at = n
        for _u in range(rng.choice([0, 0, 1, 2])):
            ln = rng.randint(1, 4)
            ups.append({"at": at, "vals": _plain_series(rng, ln, False),
                        "params": rng.random() < 0.6})
            at += ln
        # update(update_params=True) refits; since fix 53a6ca7 that no longer needs a horizon to
        # have been seen, so histories with and without an earlier transform() both occur
        pre = rng.random() < 0.4
        c = _common(rng, "detrend", {"degree": deg}, y, off, z, ups, pre=pre)
        cases.append(_with_gaps(rng, c, sp) if rng.random() < 0.3 else c)


def _adaptor_cfg(rng):
    return rng.choice([{"scaler": "standard", "with_mean": True},
                       {"scaler": "standard", "with_mean": False},
                       {"scaler": "minmax", "range": [0, 1]},
                       {"scaler": "minmax", "range": [-1, 2]}])


def _gen_pointwise(rng, cases, kind, count):
    for _ in range(count):
        n = rng.randint(6, 14)
        y = _plain_series(rng, n, kind in ("log", "boxcox"))
        if kind == "boxcox" and len(set(y)) == 1:
            y[0] += 1.0
        off, z = _stretch(rng, n, 3, kind in ("log", "boxcox"))
        if kind == "adaptor":
            cfg = _adaptor_cfg(rng)
        elif kind == "boxcox":
            cfg = {"method": rng.choice(["mle", "pearsonr"]),
                   "bounds": rng.choice([None, None, [0, 2], [-1, 1]])}
        else:
            cfg = {}
        c = _common(rng, kind, cfg, y, off, z)
        cases.append(_with_gaps(rng, c, 3) if rng.random() < 0.25 else c)


def _gen_optional(rng, cases, count):
    for _ in range(count):
        ik = rng.choice(["deseason", "deseason", "adaptor", "detrend", "log"])
        passthrough = rng.random() < 0.4
        if ik == "deseason":
            sp = rng.randint(2, 6)
            n = 2 * sp + rng.randint(0, sp)
            y = _seasonal_series(rng, n, sp, True)
            off, z = _stretch(rng, n, sp, True)
            inner = {"kind": ik, "cfg": {"sp": sp, "model": rng.choice(["additive",
                                                                        "multiplicative"])}}
        else:
            n = rng.randint(6, 12)
            y = _plain_series(rng, n, True)
            off, z = _stretch(rng, n, 3, True)
            inner = {"kind": ik, "cfg": (_adaptor_cfg(rng) if ik == "adaptor" else
                                         {"degree": rng.choice([0, 1, 2])} if ik == "detrend"
                                         else {})}
        c = _common(rng, "optional", {"passthrough": passthrough, "inner": inner}, y, off, z)
        cases.append(_with_gaps(rng, c, inner["cfg"].get("sp", 3)) if rng.random() < 0.3 else c)


def _gen_positional(rng, cases, counts):
    for _ in range(counts["hampel"]):
        n = rng.randint(8, 20)
        z = _plain_series(rng, n, False)
        for _o in range(rng.randint(1, 3)):
            z[rng.randrange(n)] = rng.choice([64.0, -48.0, 100.0])
        c = _common(rng, "hampel", {"window_length": rng.randint(3, 7),
                                    "return_bool": rng.random() < 0.25}, z[:6], 0, z)
        c["t0"] = rng.choice([1, 3, 5, 7, 12, 29, 0])
        c["k"] = rng.choice([-c["t0"], -c["t0"], 4, 11, -2]) or 3
        cases.append(c)
    for i in range(counts["imputer"]):
        n = rng.randint(6, 16)
        z = _plain_series(rng, n, False)
        for _o in range(rng.randint(1, 4)):
            z[rng.randrange(n)] = None
        if all(v is None for v in z):
            z[0] = 1.0
        if rng.random() < 0.3:
            z[0] = None
        if rng.random() < 0.3:
            z[-1] = None
        if all(v is None for v in z):
            z[1] = 1.0
        meth = IMPUTE_METHODS[i % len(IMPUTE_METHODS)]
        c = _common(rng, "imputer", {"method": meth}, [1.0, 2.0, 3.0], 0, z)
        c["t0"] = rng.choice([1, 3, 5, 7, 12, 29, 0])
        c["k"] = rng.choice([-c["t0"], 4, 11, -2]) or 3
        cases.append(c)
    for _ in range(counts["cos"]):
        n = rng.randint(3, 10)
        z = _plain_series(rng, n, False)
        c = _common(rng, "cos", {}, z[:3], 0, z)
        c["t0"] = rng.choice([1, 3, 5, 7, 12, 29, 0])
        c["k"] = rng.choice([-c["t0"], 4, 11, -2]) or 3
        cases.append(c)
    for kind in LAGGED:
        for _ in range(counts[kind]):
            n = rng.randint(12, 22)
            z = _plain_series(rng, n, False)
            c = _common(rng, kind, {"n_lags": rng.randint(1, 4)}, z[:6], 0, z)
            c["t0"] = rng.choice([1, 3, 5, 7, 12, 29])
            c["k"] = rng.choice([-c["t0"], 4, 11, -2]) or 3
            cases.append(c)


# -- histories: fit / fit_transform, transform calls, update calls, and after each of them
#    transform + inverse_transform of the TRAINING series, an overlapping stretch, the whole series


def _hist_ops(rng, n, batches, tail, sp, can_update):
    """op list over the whole series W (training = W[0:n]; batch i = the next batches[i] values):
    ["T", a, b] = transform + inverse_transform of W[a:b]; ["U", i, update_params]"""
    total = n + sum(batches) + tail

    def probes(seen):
        """stretches worth asking for when `seen` observations are known to the estimator"""
        r = rng.randint(1, max(1, min(n - 1, 3)))
        out = [["T", 0, n],                                              # the training series
               ["T", n - r, min(total, n + rng.randint(1, 3))],         # overlapping its end
               ["T", 0, total]]                                          # the whole series
        if seen > n:
            out.append(["T", n, seen])                                   # the later stretch
        # two stretches of the SAME length at different phases (anything cached by length or
        # computed once shows up on the second one)
        m = rng.randint(2, max(2, min(4, total - 2)))
        a = rng.randint(0, total - m - 1)
        b = a + rng.choice([1, 1, sp - 1 or 1, sp + 1])
        if b + m <= total:
            out += [["T", a, a + m], ["T", b, b + m]]
        return out

    ops = []
    if rng.random() < 0.6:
        ops.append(["T", 0, n])
    if rng.random() < 0.5:
        ops += rng.sample(probes(n)[1:], 1)
    seen = n
    if can_update:
        for i, ln in enumerate(batches):
            ops.append(["U", i, rng.random() < 0.7])
            seen += ln
            ps = probes(seen)
            rng.shuffle(ps)
            ops.append(["T", 0, n])          # always: the training series right after the update
            ops += [x for x in ps if x != ["T", 0, n]][:rng.randint(0, 1)]
    last = probes(seen)
    pair = last[-2:] if len(last) >= 2 and last[-1][2] - last[-1][1] == last[-2][2] - last[-2][1] \
        and last[-2] != ["T", 0, total] else []
    rest = [x for x in last if x not in pair]
    rng.shuffle(rest)
    last = rest[:2] + pair + ([["T", 0, n]] if ["T", 0, n] not in rest[:2] else [])
    rng.shuffle(last)
    ops += last
    return ops


def _gen_history(rng, cases, counts):
    def add(tk, cfg, W, n, batches, tail, sp, can_update):
        t0 = rng.choice([0, 0, 1, 3, 5, 12, 29, -4])
        cases.append({"kind": "history", "tk": tk, "cfg": cfg, "t0": t0, "k": 0,
                      "idx": rng.choice(["range", "int", "int"]
                                        + (["period"] if tk in ("deseason", "cond", "adaptor") else [])),
                      "first": rng.choice(["fit", "fit_transform", "fit_transform"]),
                      "n": n, "W": W, "batches": batches if can_update else [],
                      "ops": _hist_ops(rng, n, batches, tail, sp, can_update)})

    for i in range(counts["detrend"]):
        n = rng.randint(6, 12)
        batches = [rng.randint(2, 5) for _ in range(rng.choice([1, 1, 2]))]
        tail = rng.randint(0, 2)
        # the slope changes after the training series, so a refit moves the trend
        W = [_dy(rng, -1, 1) + 0.25 * j for j in range(n)]
        W += [W[-1] + 2.0 + 1.5 * j + _dy(rng, -1, 1) for j in range(sum(batches) + tail)]
        if i % 4 == 3:
            strat = rng.choice(["last", "mean", "drift"])
            nv = {"strategy": strat}
            if strat != "drift" and rng.random() < 0.4:
                nv["sp"] = 2
            if strat == "mean" and "sp" not in nv and rng.random() < 0.5:
                nv["window_length"] = 3
            cfg = {"naive": nv}
        else:
            cfg = {"degree": rng.choice([0, 1, 2, 1, None])}
        add("detrend", cfg, W, n, batches, tail, 4, True)
    for tk in ("deseason", "cond"):
        for _ in range(counts[tk]):
            sp = rng.randint(2, 5)
            n = 2 * sp + rng.randint(0, sp + 1) if tk == "deseason" else 3 * sp + rng.randint(0, sp)
            batches = [rng.randint(1, sp + 1) for _ in range(rng.choice([1, 2]))]
            tail = rng.randint(0, 2)
            W = _seasonal_series(rng, n + sum(batches) + tail, sp, True)
            cfg = {"sp": sp, "model": rng.choice(["additive", "multiplicative"])}
            if tk == "cond":
                cfg["test"] = rng.choice(["auto", "true", "false"])
            add(tk, cfg, W, n, batches, tail, sp, True)
    for _ in range(counts["adaptor"]):
        n = rng.randint(6, 10)
        W = _plain_series(rng, n + rng.randint(3, 6), False)
        add("adaptor", _adaptor_cfg(rng), W, n, [], len(W) - n, 3, False)
    for _ in range(counts["optional"]):
        ik = rng.choice(["deseason", "detrend", "adaptor"])
        sp = rng.randint(2, 4)
        n = 2 * sp + rng.randint(0, sp)
        W = _seasonal_series(rng, n + rng.randint(3, 6), sp, True)
        inner = {"kind": ik, "cfg": ({"sp": sp, "model": rng.choice(["additive", "multiplicative"])}
                                     if ik == "deseason" else _adaptor_cfg(rng) if ik == "adaptor"
                                     else {"degree": rng.choice([0, 1, 2])})}
        add("optional", {"passthrough": rng.random() < 0.4, "inner": inner}, W, n, [],
            len(W) - n, sp, False)


def gen_cases(rng, tier):
    q = tier == "quick"
    cases, hist = [], []
    _gen_history(rng, hist, {"detrend": 32 if q else 160, "deseason": 18 if q else 80,
                              "cond": 8 if q else 30, "adaptor": 8 if q else 30,
                              "optional": 8 if q else 30})
    _gen_deseason(rng, cases, 3 if q else 12)
    _gen_cond(rng, cases, 40 if q else 400)
    _gen_subdaily(rng, cases, 56 if q else 400, long_sp=not q)
    _gen_detrend(rng, cases, 70 if q else 700)
    _gen_pointwise(rng, cases, "log", 16 if q else 150)
    _gen_pointwise(rng, cases, "boxcox", 20 if q else 200)
    _gen_pointwise(rng, cases, "adaptor", 36 if q else 300)
    _gen_optional(rng, cases, 36 if q else 300)
    _gen_positional(rng, cases, {"hampel": 24 if q else 200, "imputer": 33 if q else 220,
                                 "acf": 10 if q else 80, "pacf": 10 if q else 80,
                                 "cos": 8 if q else 60})
    # history cases are the expensive ones in Coq: spread them evenly over the shards
    step = max(1, len(cases) // max(1, len(hist)))
    out = []
    for i, c in enumerate(cases):
        if i % step == 0 and hist:
            out.append(hist.pop(0))
        out.append(c)
    return out + hist


# ------------------------------------------------------------------------------------------------
# implementation side (runs in the driver subprocess)


PERIOD_BASE = 360          # 2000-01
DAY_BASE = "2000-01-01"


STEPS_PER_DAY = {"D": 1, "h": 24, "min": 1440, "s": 86400}


def _index_kind(idx):
    """idx -> (family, frequency): "period" = monthly PeriodIndex, "datetime" = daily
    DatetimeIndex (the two historical names), "dt:<f>" / "pd:<f>" = DatetimeIndex / PeriodIndex
    with frequency f in D, h, min, s; integer time t <-> t steps of f after DAY_BASE"""
    if idx == "period":
        return "pd", "M"
    if idx == "datetime":
        return "dt", "D"
    if idx[:3] in ("dt:", "pd:"):
        return idx[:2], idx[3:]
    return None, None


def _time_point(fam, f, t):
    import pandas as pd
    if fam == "dt":
        return pd.Timestamp(DAY_BASE) + pd.Timedelta(t, f)
    if f == "M":
        return pd.Period(ordinal=PERIOD_BASE + t, freq="M")
    return pd.Period(DAY_BASE, freq=f) + t


_CUR = {"idx": None}       # index kind of the scenario being run (for _canon)


def _case_times(case, k=0):
    """time points of the transformed stretch (every index shifted by k)"""
    start = case["t0"] + k + case["off"]
    rel = case.get("rel")
    return [start + r for r in (rel if rel else range(len(case["z"])))]


def _series(vals, start, idx, rel=None):
    import numpy as np
    import pandas as pd
    _CUR["idx"] = idx
    v = np.array([np.nan if x is None else x for x in vals], dtype=float)
    fam, f = _index_kind(idx)
    if rel:                    # explicit, gapped time points start + rel[i]
        ts = [start + r for r in rel]
        if fam == "pd":
            index = pd.PeriodIndex([_time_point(fam, f, t) for t in ts], freq=f)
        elif fam == "dt":
            index = pd.DatetimeIndex([_time_point(fam, f, t) for t in ts])
        else:
            index = pd.Index(np.array(ts, dtype="int64"))
        return pd.Series(v, index=index)
    if idx == "range":
        index = pd.RangeIndex(start, start + len(v))
    elif fam == "pd":
        index = pd.period_range(_time_point(fam, f, start), periods=len(v), freq=f)
    elif fam == "dt":
        index = pd.date_range(_time_point(fam, f, start), periods=len(v), freq=f)
    else:
        index = pd.Index(np.arange(start, start + len(v), dtype="int64"))
    return pd.Series(v, index=index)


def _always(y, sp):
    return True


def _never(y, sp):
    return False


def _make(kind, cfg):
    if kind == "deseason":
        from sktime.transformations.series.detrend import Deseasonalizer
        return Deseasonalizer(sp=cfg["sp"], model=cfg["model"])
    if kind == "cond":
        from sktime.transformations.series.detrend import ConditionalDeseasonalizer
        test = {"auto": None, "true": _always, "false": _never}[cfg["test"]]
        return ConditionalDeseasonalizer(seasonality_test=test, sp=cfg["sp"], model=cfg["model"])
    if kind == "detrend":
        from sktime.forecasting.trend import PolynomialTrendForecaster
        from sktime.transformations.series.detrend import Detrender
        if "naive" in cfg:
            from sktime.forecasting.naive import NaiveForecaster
            return Detrender(NaiveForecaster(**cfg["naive"]))
        if cfg["degree"] is None:
            return Detrender()
        return Detrender(PolynomialTrendForecaster(degree=cfg["degree"]))
    if kind == "log":
        from sktime.transformations.series.boxcox import LogTransformer
        return LogTransformer()
    if kind == "boxcox":
        from sktime.transformations.series.boxcox import BoxCoxTransformer
        b = cfg["bounds"]
        return BoxCoxTransformer(method=cfg["method"], bounds=None if b is None else tuple(b))
    if kind == "adaptor":
        from sklearn.preprocessing import MinMaxScaler, StandardScaler
        from sktime.transformations.series.adapt import TabularToSeriesAdaptor
        if cfg["scaler"] == "standard":
            return TabularToSeriesAdaptor(StandardScaler(with_mean=cfg["with_mean"]))
        return TabularToSeriesAdaptor(MinMaxScaler(feature_range=tuple(cfg["range"])))
    if kind == "optional":
        from sktime.transformations.series.compose import OptionalPassthrough
        inner = _make(cfg["inner"]["kind"], cfg["inner"]["cfg"])
        return OptionalPassthrough(inner, passthrough=cfg["passthrough"])
    if kind == "hampel":
        from sktime.transformations.series.outlier_detection import HampelFilter
        return HampelFilter(window_length=cfg["window_length"], return_bool=cfg["return_bool"])
    if kind == "imputer":
        from sktime.transformations.series.impute import Imputer
        return Imputer(method=cfg["method"], value=1.5 if cfg["method"] == "constant" else None,
                       random_state=3 if cfg["method"] == "random" else None)
    if kind == "cos":
        from sktime.transformations.series.cos import CosineTransformer
        return CosineTransformer()
    if kind == "acf":
        from sktime.transformations.series.acf import AutoCorrelationTransformer
        return AutoCorrelationTransformer(n_lags=cfg["n_lags"])
    if kind == "pacf":
        from sktime.transformations.series.acf import PartialAutoCorrelationTransformer
        return PartialAutoCorrelationTransformer(n_lags=cfg["n_lags"])
    raise AssertionError(kind)


def _canon(s):
    """pd.Series -> [index as ints, values as exact ratios]"""
    import numpy as np
    import pandas as pd
    if not isinstance(s, pd.Series):
        raise TypeError("transform returned %s, not a Series" % type(s).__name__)
    idx = []
    fam, f = _index_kind(_CUR["idx"] or "")
    for t in s.index:
        if isinstance(t, pd.Period) and fam == "pd" and t.freqstr == f:
            idx.append(int(t.ordinal) - (PERIOD_BASE if f == "M"
                                         else int(pd.Period(DAY_BASE, freq=f).ordinal)))
        elif isinstance(t, pd.Timestamp) and fam == "dt":
            d = t - pd.Timestamp(DAY_BASE)
            n = d // pd.Timedelta(1, f)
            if d != pd.Timedelta(int(n), f):
                raise TypeError("output index holds a time point off the %s grid: %s" % (f, t))
            idx.append(int(n))
        elif isinstance(t, (int, np.integer)):
            idx.append(int(t))
        else:
            raise TypeError("output index holds %s" % type(t).__name__)
    return [idx, [float_ratio(float(v)) for v in s.to_numpy()]]


def _fitted(kind, cfg, t):
    import numpy as np
    if kind in ("deseason", "cond"):
        f = {"seasonal": [float_ratio(v) for v in np.asarray(t.seasonal_, dtype=float)]}
        if kind == "cond":
            f["is_seasonal"] = bool(t.is_seasonal_)
        return f
    if kind == "detrend" and "naive" in cfg:
        return {}
    if kind == "detrend":
        lr = t.forecaster_.regressor_.steps[-1][1]
        coef = [float(c) for c in np.ravel(lr.coef_)]
        coef[0] += float(lr.intercept_)
        return {"coef": [float_ratio(c) for c in coef]}
    if kind == "adaptor":
        sc = t.transformer_
        if cfg["scaler"] == "standard":
            m = float(sc.mean_[0]) if sc.with_mean else 0.0
            s = float(sc.scale_[0]) if sc.with_std else 1.0
            return {"m": float_ratio(m), "s": float_ratio(s)}
        return {"s": float_ratio(float(sc.scale_[0])), "mn": float_ratio(float(sc.min_[0]))}
    if kind == "boxcox":
        return {"lambda": float_ratio(float(t.lambda_))}
    if kind == "optional":
        if cfg["passthrough"]:
            return {}
        return _fitted(cfg["inner"]["kind"], cfg["inner"]["cfg"], t.transformer_)
    return {}


def _same(a, b):
    """exact equality of two canonical series (NaN = NaN)"""
    return a[0] == b[0] and a[1] == b[1]


def _scenario_train(case, k):
    """fit_transform on the training series, with a spy recording the seasonal series that the
    decomposition call inside fit returned (so the tie does not depend on its arguments)"""
    import numpy as np
    import sktime.transformations.series.detrend._deseasonalize as M
    from sktime.transformations.series.detrend import Deseasonalizer
    cfg = case["cfg"]
    y = _series(case["y"], case["t0"] + k, case["idx"])
    rec = {}
    orig = M.seasonal_decompose

    def spy(*a, **kw):
        r = orig(*a, **kw)
        rec["full"] = np.asarray(r.seasonal, dtype=float)
        return r
    M.seasonal_decompose = spy
    try:
        t = Deseasonalizer(sp=cfg["sp"], model=cfg["model"])
        yt = t.fit_transform(y)
    finally:
        M.seasonal_decompose = orig
    zi = t.inverse_transform(yt)
    return {"zt": _canon(yt), "zi": _canon(zi), "ft_equal": True,
            "full": [float_ratio(v) for v in rec["full"]],
            "fitted": {"seasonal": [float_ratio(v) for v in np.asarray(t.seasonal_, dtype=float)]}}


def _scenario(case, k):
    kind, cfg, idx = case["kind"], case["cfg"], case["idx"]
    if kind == "train":
        return _scenario_train(case, k)
    t0 = case["t0"] + k
    y = _series(case["y"], t0, idx)
    t = _make(kind, cfg)
    t.fit(y)
    if case["pre"]:
        t.transform(y)
    for u in case["ups"]:
        t.update(_series(u["vals"], t0 + u["at"], idx), update_params=u["params"])
    z = _series(case["z"], t0 + case["off"], idx, case.get("rel"))
    zt = t.transform(z)
    r = {"zt": _canon(zt), "zi": None, "fitted": _fitted(kind, cfg, t)}
    if kind in INVERTIBLE:
        r["zi"] = _canon(t.inverse_transform(zt))
    # fit_transform == fit().transform() on fresh instances (training series, and the stretch for
    # the fit-in-transform kinds)
    w = y if kind in INVERTIBLE else z
    a = _canon(_make(kind, cfg).fit_transform(w))
    b = _canon(_make(kind, cfg).fit(w).transform(w))
    r["ft_equal"] = _same(a, b)
    if not r["ft_equal"]:
        r["ft"] = [a, b]
    return r


def _hist_describe(case, upto):
    """the calls made before op number `upto`, as readable text"""
    txt = ["%s(train)" % case["first"]]
    for o in case["ops"][:upto]:
        if o[0] == "U":
            txt.append("update(batch%d, update_params=%s)" % (o[1], o[2]))
        else:
            txt.append("transform+inverse(W[%d:%d])" % (o[1], o[2]))
    return "; ".join(txt)


def _scenario_history(case):
    """run the op list on one estimator (`t`, sees every call) and, in parallel, the fit / update
    calls only on a second one (`clean`); at every transform op also ask deep copies of `clean`
    for the same stretch and for the whole series"""
    import copy
    tk, cfg, idx, t0, n, W = case["tk"], case["cfg"], case["idx"], case["t0"], case["n"], case["W"]
    y = _series(W[:n], t0, idx)
    whole = _series(W, t0, idx)
    t, clean = _make(tk, cfg), _make(tk, cfg)
    probes, states = [], []
    if case["first"] == "fit_transform":
        zt = t.fit_transform(y)
        clean.fit(y)
        probes.append({"op": -1, "a": 0, "b": n, "nupd": 0, "zt": _canon(zt),
                       "zi": _canon(t.inverse_transform(zt)),
                       "zc": _canon(copy.deepcopy(clean).transform(y)),
                       "zw": _canon(copy.deepcopy(clean).transform(whole)),
                       "fitted": _fitted(tk, cfg, t)})
    else:
        t.fit(y)
        clean.fit(y)
    states.append({"after": "fit", "fitted": _fitted(tk, cfg, t)})
    at, nupd = n, 0
    for j, o in enumerate(case["ops"]):
        if o[0] == "U":
            ln = case["batches"][o[1]]
            b = _series(W[at:at + ln], t0 + at, idx)
            t.update(b, update_params=o[2])
            clean.update(b, update_params=o[2])
            at += ln
            nupd += 1
            states.append({"after": j, "params": o[2], "fitted": _fitted(tk, cfg, t)})
            continue
        a, bnd = o[1], o[2]
        z = _series(W[a:bnd], t0 + a, idx)
        zt = t.transform(z)
        probes.append({"op": j, "a": a, "b": bnd, "nupd": nupd, "zt": _canon(zt),
                       "zi": _canon(t.inverse_transform(zt)),
                       "zc": _canon(copy.deepcopy(clean).transform(z)),
                       "zw": _canon(copy.deepcopy(clean).transform(whole)),
                       "fitted": _fitted(tk, cfg, t)})
    return {"probes": probes, "states": states}


def run_impl(case):
    if case["kind"] == "history":
        try:
            return _scenario_history(case)
        except Exception as e:
            return {"err": "%s: %s" % (type(e).__name__, str(e)[:160])}
    try:
        out = {"base": _scenario(case, 0)}
        if case["k"] != 0:
            out["shift"] = _scenario(case, case["k"])
        return out
    except Exception as e:  # every failure of a valid scenario is data for the oracle
        return {"err": "%s: %s" % (type(e).__name__, str(e)[:160])}


# ------------------------------------------------------------------------------------------------
# oracle: the theorems' conclusions restated on the implementation's output


def _f(v):
    """float_ratio -> float (None for NaN, +-inf kept)"""
    if v is None:
        return None
    if isinstance(v, str):
        return float(v)
    return v[0] / v[1]


def _close(a, b, tol=1e-9):
    if a is None or b is None:
        return a is None and b is None
    if a == b:
        return True
    return abs(a - b) <= tol * (1 + abs(a))


def _finite(v):
    return v is not None and v not in (float("inf"), float("-inf"))


def _expected(kind, cfg, fitted, t0, times, z):
    """model-side expectation of transform(z) from the fitted object's own quantities, or None
    where the model has no value claim; returns (clause, list)"""
    if kind == "train":
        kind = "deseason"
    if kind in ("deseason", "cond"):
        if kind == "cond" and not fitted["is_seasonal"]:
            return "conditional-passthrough", list(z)
        sp, seas = cfg["sp"], [_f(v) for v in fitted["seasonal"]]
        if len(seas) != sp:
            return "seasonal-length", None
        comp = [seas[(t - t0) % sp] for t in times]
        if cfg["model"] == "additive":
            return "seasonal-phase", [x - c for x, c in zip(z, comp)]
        return "seasonal-phase", [x / c if c != 0 else None for x, c in zip(z, comp)]
    if kind == "detrend" and "coef" not in fitted:
        return None, None            # NaiveForecaster-based trend: no value model
    if kind == "detrend":
        coef = [_f(c) for c in fitted["coef"]]
        return "trend-not-at-passed-time-points", [
            x - sum(c * float(t - t0) ** j for j, c in enumerate(coef)) for x, t in zip(z, times)]
    if kind == "adaptor":
        if cfg["scaler"] == "standard":
            m, s = _f(fitted["m"]), _f(fitted["s"])
            return "scaler-transform", [(x - m) / s for x in z]
        s, mn = _f(fitted["s"]), _f(fitted["mn"])
        return "scaler-transform", [x * s + mn for x in z]
    if kind == "optional":
        if cfg["passthrough"]:
            return "passthrough-not-identity", list(z)
        return _expected(cfg["inner"]["kind"], cfg["inner"]["cfg"], fitted, t0, times, z)
    return None, None


def _check_run(case, r, k):
    kind, cfg = case["kind"], case["cfg"]
    t0 = case["t0"] + k
    z = case["z"]
    times = _case_times(case, k)
    zt_idx, zt = r["zt"][0], [_f(v) for v in r["zt"][1]]
    if kind in LAGGED:
        if zt_idx != list(range(len(zt))):
            return "lag-index: %s" % zt_idx
    elif zt_idx != times:
        return "index-not-preserved: transform returned index %s for input index %s" % (
            zt_idx, times)
    if not r["ft_equal"]:
        return "fit-transform-differs: fit_transform %s vs fit().transform() %s" % (
            r["ft"][0], r["ft"][1])
    if kind in INVERTIBLE:
        zi_idx, zi = r["zi"][0], [_f(v) for v in r["zi"][1]]
        if zi_idx != times:
            return "inverse-index-not-preserved: %s for %s" % (zi_idx, times)
        for t, x, a, b in zip(times, z, zt, zi):
            if _finite(a) and not _close(x, b):
                return ("inverse-not-identity: at time %d (offset %d from the training start) "
                        "inverse_transform(transform(z)) = %r, z = %r" % (t, t - t0, b, x))
        if kind == "train":
            sp = cfg["sp"]
            full = [_f(v) for v in r["full"]]
            seas = [_f(v) for v in r["fitted"]["seasonal"]]
            if len(full) != len(z):
                return ("training-decomposition-length: the decomposition inside fit_transform(y) "
                        "saw %d observations, y has %d" % (len(full), len(z)))
            if not all(_close(a, b) for a, b in zip(full[:sp], seas)) or len(seas) != sp:
                return ("seasonal-first-period: seasonal_ = %s is not the first period of the "
                        "decomposition's seasonal series %s" % (seas, full))
            for i, (x, a, c) in enumerate(zip(z, zt, full)):
                e = x - c if cfg["model"] == "additive" else (x / c if c else None)
                if e is not None and not _close(e, a):
                    return ("training-decomposition: fit_transform(y) at position %d gave %r, "
                            "expected %r from the decomposition's seasonal series" % (i, a, e))
        clause, exp = _expected(kind, cfg, r["fitted"], t0, times, z)
        if clause and exp is None:
            return "%s: fitted component has the wrong length" % clause
        if clause:
            for t, x, a, e in zip(times, z, zt, exp):
                if e is not None and not _close(e, a):
                    return ("%s: at time %d (offset %d from the training start%s) transform gave "
                            "%r, expected %r from the fitted object's own component"
                            % (clause, t, t - t0,
                               ", phase %d" % ((t - t0) % cfg["sp"]) if "sp" in cfg else "", a, e))
    return None


def _check_shift(case, b, s):
    k = case["k"]
    for key, what in (("zt", "transform"), ("zi", "inverse_transform")):
        if b[key] is None:
            continue
        i0, v0 = b[key]
        i1, v1 = s[key]
        want = i0 if case["kind"] in LAGGED else [t + k for t in i0]
        if i1 != want:
            return "shift-index: %s output index %s after shifting inputs by %d, expected %s" % (
                what, i1, k, want)
        if len(v0) != len(v1) or not all(_close(_f(a), _f(c)) for a, c in zip(v0, v1)):
            return "shift-values: %s output changed when all indices were shifted by %d: %s vs %s" \
                % (what, k, [_f(a) for a in v0], [_f(c) for c in v1])
    return None


def _params_false_changed_fit(case, out):
    """INFORMATIONAL ONLY (never an oracle failure: property C13 does not speak about it; it belongs
    to C10): did an update(update_params=False) change the polynomial coefficients / seasonal_?"""
    tk, cfg = case["tk"], case["cfg"]
    if tk not in ("detrend", "deseason", "cond") or "naive" in cfg:
        return False
    st = out.get("states", [])
    for prev, cur in zip(st, st[1:]):
        if cur.get("params") is False:
            for key, v in cur["fitted"].items():
                w = prev["fitted"].get(key)
                same = (v == w) if not isinstance(v, list) or not v or not isinstance(v[0], list) \
                    else (len(v) == len(w) and all(_close(_f(x), _f(y)) for x, y in zip(v, w)))
                if not same:
                    return True
    return False


def _check_history(case, out):
    tk, cfg, t0, W = case["tk"], case["cfg"], case["t0"], case["W"]
    for p in out["probes"]:
        a, b = p["a"], p["b"]
        z = W[a:b]
        times = [t0 + i for i in range(a, b)]
        hist = _hist_describe(case, p["op"]) if p["op"] >= 0 else "nothing"
        what = "transform(W[%d:%d]) after [%s]" % (a, b, hist)
        zt_idx, zt = p["zt"][0], [_f(v) for v in p["zt"][1]]
        if zt_idx != times:
            return "index-not-preserved: %s returned index %s for input index %s" % (
                what, zt_idx, times)
        zi_idx, zi = p["zi"][0], [_f(v) for v in p["zi"][1]]
        if zi_idx != times:
            return "inverse-index-not-preserved: %s for %s" % (zi_idx, times)
        # round trip at every point of the history
        for t, x, u, v in zip(times, z, zt, zi):
            if _finite(u) and not _close(x, v):
                return ("%s: at time %d (offset %d from the training start) inverse_transform("
                        "transform(z)) = %r, z = %r; %s"
                        % ("inverse-not-identity-after-update" if p["nupd"] else
                           "inverse-not-identity", t, t - t0, v, x, what))
        # the same call on a copy of the estimator that saw only the fit / update calls
        zc_idx, zc = p["zc"][0], [_f(v) for v in p["zc"][1]]
        if zc_idx != times or len(zc) != len(zt) or not all(_close(u, v) for u, v in zip(zt, zc)):
            bad = [i for i, (u, v) in enumerate(zip(zt, zc)) if not _close(u, v)][:1]
            return ("transform-depends-on-call-history: %s gave %s, an estimator that saw the same "
                    "fit / update calls but none of the transform / inverse_transform calls gives "
                    "%s%s" % (what, zt, zc, (" (first difference at time %d)" % times[bad[0]])
                              if bad else ""))
        # transform of a stretch = transform of the whole series restricted to the stretch
        zw_idx, zw = p["zw"][0], [_f(v) for v in p["zw"][1]]
        if zw_idx != [t0 + i for i in range(len(W))]:
            return "index-not-preserved: transform(whole series) returned index %s" % zw_idx
        part = zw[a:b]
        if not all(_close(u, v) for u, v in zip(zt, part)):
            return ("transform-depends-on-call-history: %s gave %s but transform(whole series) "
                    "restricted to that stretch is %s" % (what, zt, part))
        clause, exp = _expected(tk, cfg, p["fitted"], t0, times, z)
        if clause and exp is None:
            return "%s: fitted component has the wrong length" % clause
        if clause:
            for t, u, e in zip(times, zt, exp):
                if e is not None and not _close(e, u):
                    return ("%s: at time %d (offset %d from the training start) %s gave %r, "
                            "expected %r from the fitted object's own component"
                            % (clause, t, t - t0, what, u, e))
    return None


def oracle(case, out):
    if "err" in out:
        # clause = exception type, so that shrinking keeps the same kind of failure
        return "unexpected-%s" % out["err"]
    if case["kind"] == "history":
        return _check_history(case, out)
    f = _check_run(case, out["base"], 0)
    if f:
        return f
    if "shift" in out:
        f = _check_run(case, out["shift"], case["k"])
        if f:
            return f
        return _check_shift(case, out["base"], out["shift"])
    return None


def nontrivial(case, out):
    if case["kind"] == "history":
        return "err" not in out and len(out["probes"]) >= 2
    return "err" not in out and len(out["base"]["zt"][1]) >= 1


def _shrink_history(c):
    ops = c["ops"]
    last_u = max([j for j, o in enumerate(ops) if o[0] == "U"], default=-1)
    for j in range(len(ops)):
        # any transform op may go; of the updates only the last (batches are consecutive)
        if ops[j][0] == "T" or j == last_u:
            d = dict(c)
            d["ops"] = ops[:j] + ops[j + 1:]
            if d["ops"]:
                yield d
    if c["first"] == "fit_transform":
        d = dict(c)
        d["first"] = "fit"
        yield d
    for key, val in (("t0", 0), ("idx", "range")):
        if c[key] != val:
            d = dict(c)
            d[key] = val
            yield d
    if c["tk"] == "optional" and not c["cfg"]["passthrough"]:
        d = dict(c)
        d["tk"], d["cfg"] = c["cfg"]["inner"]["kind"], c["cfg"]["inner"]["cfg"]
        yield d


def shrink(case):
    if case["kind"] == "history":
        yield from _shrink_history(case)
        return
    c = dict(case)
    if c["k"] != 0:
        for nk in (0, 1, -c["t0"]):
            if nk != c["k"]:
                d = dict(c)
                d["k"] = nk
                yield d
    for i in range(len(c["ups"])):
        d = dict(c)
        d["ups"] = c["ups"][:i] + c["ups"][i + 1:]
        if c["kind"] != "detrend" or not d["ups"]:
            yield d
    if c["pre"]:
        d = dict(c)
        d["pre"] = False
        yield d
    if c["kind"] == "optional" and not c["cfg"]["passthrough"]:
        d = dict(c)
        d["kind"], d["cfg"] = c["cfg"]["inner"]["kind"], c["cfg"]["inner"]["cfg"]
        yield d
    zmin = {"hampel": c["cfg"].get("window_length", 0) + 2, "imputer": 3, "acf": 12,
            "pacf": 12, "train": 10 ** 9}.get(c["kind"], 1)
    rel = c.get("rel")
    if rel and len(c["z"]) <= 2:
        zmin = 10 ** 9                    # a gapped stretch needs two observations
    if len(c["z"]) > zmin and any(v is not None for v in c["z"][:-1]):
        d = dict(c)
        d["z"] = c["z"][:-1]
        if rel:
            d["rel"] = rel[:-1]
        yield d
        if c["kind"] in INVERTIBLE:
            d = dict(c)
            d["z"] = c["z"][1:]
            d["off"] = c["off"] + (rel[1] if rel else 1)
            if rel:
                d["rel"] = [r - rel[1] for r in rel[1:]]
            yield d
    if rel:
        d = dict(c)                       # the same observations on a contiguous index
        d["rel"] = None
        yield d
    if c["t0"] != 0:
        d = dict(c)
        d["t0"] = 0
        yield d
    if c["idx"] != "range" and not rel:
        d = dict(c)
        d["idx"] = "range"
        yield d
    if c["idx"] not in ("range", "int") and rel:
        d = dict(c)
        d["idx"] = "int"
        yield d
    sp = c["cfg"].get("sp")
    if sp and c["kind"] in ("deseason", "cond") and abs(c["off"]) >= sp and not c["ups"]:
        d = dict(c)
        d["off"] = c["off"] - sp if c["off"] > 0 else c["off"] + sp
        yield d


# ------------------------------------------------------------------------------------------------
# model side

CASES_HEADER = """From Coq Require Import ZArith QArith List Bool.
Require Import SkV.C13.Model SkV.C13.Cases.
Import ListNotations.
Open Scope Z_scope.
"""


def _cser(times, vals):
    """a model series: the list of (time point, value) observations"""
    return "(combine %s %s)" % (czlist(times), clist([cq(v) for v in vals]))


def _ciser(o):
    return "(%s, %s)" % (czlist(o[0]), clist(
        ["None" if (v is None or isinstance(v, str)) else "(Some %s)" % cq(v) for v in o[1]]))


def _cqr(v):
    return cq(v)


def _inner_case(kind, cfg, fitted, t0, ups, z, zt, zi):
    if kind in ("deseason", "cond"):
        d0 = "{| d_sp := %s; d_model := %s; d_t0 := %s; d_seasonal := %s |}" % (
            cz(cfg["sp"]), "Additive" if cfg["model"] == "additive" else "Multiplicative",
            cz(t0), clist([_cqr(v) for v in fitted["seasonal"]]))
        cond = "None" if kind == "deseason" else "(Some %s)" % cbool(fitted["is_seasonal"])
        return "CDes %s %s %s %s %s %s" % (d0, cond, czlist(ups), z, zt, zi)
    if kind == "detrend":
        return "CDet %s %s %s %s %s" % (cz(t0), clist([_cqr(v) for v in fitted["coef"]]), z, zt, zi)
    if kind == "adaptor":
        if cfg["scaler"] == "standard":
            return "CStd %s %s %s %s %s" % (_cqr(fitted["m"]), _cqr(fitted["s"]), z, zt, zi)
        return "CMinMax %s %s %s %s %s" % (_cqr(fitted["s"]), _cqr(fitted["mn"]), z, zt, zi)
    if kind in ("log", "boxcox"):
        return "COpaque %s %s %s" % (z, zt, zi)
    if kind == "optional":
        if cfg["passthrough"]:
            return "CPass %s %s %s" % (z, zt, zi)
        return _inner_case(cfg["inner"]["kind"], cfg["inner"]["cfg"], fitted, t0, ups, z, zt, zi)
    return None


def _coq_history(case, out):
    tk, cfg, t0, W = case["tk"], case["cfg"], case["t0"], case["W"]
    terms = []
    for p in out["probes"]:
        a, b = p["a"], p["b"]
        z = _cser([t0 + i for i in range(a, b)], W[a:b])
        ups, at = [], case["n"]
        for o in case["ops"][:max(p["op"], 0)]:
            if o[0] == "U":
                ups.append(t0 + at)
                at += case["batches"][o[1]]
        if tk == "detrend" and "naive" in cfg:
            if any(v is None or isinstance(v, str) for v in p["zt"][1]):
                continue            # NaN at the first in-sample points: no claim there
            term = "COpaque %s %s %s" % (z, _ciser(p["zt"]), _ciser(p["zi"]))
        else:
            term = _inner_case(tk, cfg, p["fitted"], t0, ups, z, _ciser(p["zt"]), _ciser(p["zi"]))
        if term:
            terms.append(term)
    if not terms:
        return None
    acc = terms[-1]
    for term in reversed(terms[:-1]):
        acc = "CSeq (%s) (%s)" % (term, acc)
    return acc


def coq_case(case, out):
    if "err" in out:
        return None
    if case["kind"] == "history":
        return _coq_history(case, out)
    kind, k = case["kind"], case["k"]
    if kind in POSITIONAL or kind in LAGGED:
        if "shift" not in out:
            return None
        return "CShift %s %s %s %s" % (cz(k), cbool(kind in LAGGED), _ciser(out["base"]["zt"]),
                                       _ciser(out["shift"]["zt"]))
    r = out["shift"] if "shift" in out else out["base"]
    if kind == "train":
        cfg = case["cfg"]
        return "CTrain %s %s %s %s %s %s" % (
            cz(cfg["sp"]), "Additive" if cfg["model"] == "additive" else "Multiplicative",
            clist([cq(v) for v in r["full"]]), clist([cq(v) for v in r["fitted"]["seasonal"]]),
            _cser([case["t0"] + k + i for i in range(len(case["y"]))], case["y"]), _ciser(r["zt"]))
    t0 = case["t0"] + k
    z = _cser(_case_times(case, k), case["z"])
    ups = [t0 + u["at"] for u in case["ups"]]
    return _inner_case(kind, case["cfg"], r["fitted"], t0, ups, z, _ciser(r["zt"]), _ciser(r["zi"]))


def coq_model_term(case):
    if case["kind"] == "history":
        t0, sp = case["t0"], case["cfg"].get("sp")
        idx = czlist([t0 + i for i in range(len(case["W"]))])
        if sp:
            return "(%s, map (fun t => phase %s %s t) %s)" % (idx, cz(t0), cz(sp), idx)
        return idx
    t0 = case["t0"]
    z = _cser(_case_times(case), case["z"])
    sp = case["cfg"].get("sp") or (case["cfg"].get("inner", {}).get("cfg", {}).get("sp"))
    if sp:
        return "(sindex %s, map (fun t => phase %s %s t) (sindex %s))" % (z, cz(t0), cz(sp), z)
    return "sindex %s" % z


def distribution(cases, results):
    import collections
    d = collections.Counter()
    for c, r in zip(cases, results):
        o = r.get("out") or {}
        d["%s:%s" % (c["kind"], "error" if "err" in o or not o else "ran")] += 1
        if c["kind"] == "history":
            d["history:%s" % c["tk"]] += 1
            d["history:first=%s" % c["first"]] += 1
            us = [x for x in c["ops"] if x[0] == "U"]
            d["history:updates=%d" % len(us)] += 1
            if any(x[2] for x in us):
                d["history:update-refits"] += 1
            if any(x[2] is False for x in us):
                d["history:update-without-params"] += 1
            seen_u = False
            for x in c["ops"]:
                seen_u = seen_u or x[0] == "U"
                if seen_u and x[0] == "T" and (x[1], x[2]) == (0, c["n"]):
                    d["history:training-series-transformed-after-update"] += 1
                    break
            d["history:probes"] += len((o or {}).get("probes", []))
            if o and "err" not in o and _params_false_changed_fit(c, o):
                d["info(not a C13 clause):update-params-false-changed-the-fit"] += 1
            continue
        if c["kind"] in ("deseason", "cond"):
            sp = c["cfg"]["sp"]
            d["index:%s" % c["idx"]] += 1
            d["deseason:offset%%sp%s0" % ("!=" if c["off"] % sp else "==")] += 1
            d["deseason:updates=%d" % len(c["ups"])] += 1
            if any(u["at"] % sp for u in c["ups"]):
                d["deseason:update-batch-off-phase"] += 1
            if c["off"] < 0:
                d["deseason:stretch-before-training"] += 1
            if c["off"] >= len(c["y"]):
                d["deseason:stretch-after-training"] += 1
            fam, f = _index_kind(c["idx"])
            if f in STEPS_PER_DAY and f != "D":
                S = STEPS_PER_DAY[f]
                d["subdaily:%s" % f] += 1
                d["subdaily:sp-%s-the-day" % ("divides" if S % sp == 0 else "does-not-divide")] += 1
                if abs(c["off"]) >= S:
                    d["subdaily:stretch-a-day-or-more-from-training-start"] += 1
                    if S % sp and (c["off"] % S) % sp != c["off"] % sp:
                        d["subdaily:phase-differs-if-days-are-dropped"] += 1
        if c.get("rel"):
            d["gapped-stretch:%s" % c["kind"]] += 1
        if c["kind"] == "detrend":
            d["detrend:updates=%d" % len(c["ups"])] += 1
        d["shift:%s" % ("none" if c["k"] == 0 else "to-zero-base" if c["k"] == -c["t0"]
                        else "other")] += 1
    return dict(d)
