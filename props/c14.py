"""C14 - closed-form transformers compute exactly the function they document."""
from fractions import Fraction as Fr

from harness.core import cbool, clist, cnat, copt, cq

ID = "C14"
MODEL_TARGETS = ["C14/Cases.vo"]
PROOF_TARGETS = ["C14/PaaProof.vo", "C14/Proofs.vo", "C14/Bridge.vo", "C14/History.vo"]
OBLIGATION_FILES = ["C14/Bridge.v"]
PROPS_FILE = "C14/Props.v"
SHARD = 120
PER_CASE_TIMEOUT = 60
RULE = ("random small panels (instances <= 3, columns <= 2, series length <= 9 (<= 16 for interval "
        "segmentation), values small integers, quarters or tenths; Series cells, ndarray cells, 3-d "
        "numpy; cell dtype float64 / float32 / int64 / int32 / bool (the same numbers, stored "
        "differently); pad fill values 0, negative, fractional, NaN; "
        "equal- and, where the transformer supports it, unequal-length) x transformer "
        "configuration: pad length None / longest / longer / too short and fill value; truncation "
        "lower / upper None or around the shortest length; interpolation length 1..12; PAA with every "
        "1 <= m <= n (dividing or not) and m > n; int intervals 1..n/2+1 and explicit interval arrays; "
        "window lengths 1..n+2 (odd and even); fitted random intervals x (mean, std, slope); row "
        "transformers with order-sensitive test doubles; series and two-column frames with missing "
        "values x every imputation method (drift oversampled); cosine; acf lags/adjusted; MinMax adaptor fitted on another series. "
        "thorough adds the exhaustive scope n <= 9 x all parameters on fixed data. non-trivial = the "
        "transformer returned an output with at least two values (or rejected exactly at a "
        "documented boundary); distinct = distinct canonical JSON case")
TRUSTED = [
    "hand-written Gallina model (coq/C14/Model.v) of each transformer as a list function over Q. Tie "
    "1 (translator/closedform_c14.py on the symbolic evaluator translator/symeval_c14.py + "
    "coq/C14/Bridge.v, fail-closed, every run): every anchored method of padder / truncation / "
    "interpolate / IntervalSegmenter / SlidingWindowSegmenter / PAA / Imputer is summarised by data "
    "flow (returned term, stored attributes, raise sites, effect calls; helpers inlined, locals "
    "substituted) and matched against a reference summary with holes; the index arithmetic, the "
    "parameter tests, the WHOLE body of PAA's running-sum loop (state variables found by role) and "
    "the data flow of Imputer's drift branch are regenerated and proved equal (Z: lia; PAA: "
    "field-wise up to == with independent case splits), for all arguments, to what the model is "
    "built from. Tie 2: the in-Coq correspondence run",
    "normal-form facts the translator relies on to identify equivalent iteration forms (not "
    "verified): iterating a sequence / ndarray = positional indexing 0..len-1, A[k, :] = A[k], "
    "A.shape[0] = len(A), a row of a 2-d array (from_nested_to_2d_array(return_numpy=True), "
    "np.zeros((a, b)), check_X(coerce_to_numpy=True).squeeze(1)) has length shape[1], "
    "len(np.zeros((n, ..))) = n, assigning rows keeps the length, len(x.copy()) = len(x); leading "
    "parameter names of np.full / zeros / pad / linspace / array_split / asarray / array and of "
    "pandas fillna / interpolate / replace",
    "the library primitives are modelled, not verified: numpy slicing / np.full / "
    "np.pad(mode='edge') / np.array_split / np.hstack / as_strided windows, scipy interp1d(linear) "
    "on np.linspace grids, pandas fillna / interpolate(linear, nearest) / mean / median, statsmodels "
    "acf, sklearn MinMaxScaler, PolynomialTrendForecaster(degree=1) = least-squares line "
    "(correspondence only)",
    "float64 rounding is outside the model: outputs are compared in Q with tolerance "
    "|a-b| <= 1e-9 * (1 + |a|); cases with float32 CELLS whose result involves arithmetic (interp, "
    "paa, rife, row means, acf, adaptor, cos) are computed by numpy in single precision: they are "
    "judged by the oracle with tolerance 1e-4 and not compared in Coq (the exact transformers - "
    "pad, truncate, tabularise, concatenate, segmenters, affine rows - stay exact and in Coq)",
]
MODELLED = [
    "PAA: the float test `current_frame_size == frame_length` is modelled in exact arithmetic (Q); "
    "the float loop is tied by correspondence on every generated (n, m) only",
    "np.std is a square root: the model checks the implementation's value v satisfies v >= 0 and "
    "v^2 ~ population variance (witness check), it does not compute v",
    "cosine is not rational: the model is the degree-60 Taylor polynomial evaluated in Q (|x| <= 8), "
    "tied by correspondence; the theorem covers shape / pointwise application only",
    "Imputer method='nearest': ties (equidistant neighbours) resolve to the EARLIER neighbour as scipy's "
    "interp1d(kind='nearest') does; method='random' and 'forecaster' are outside the closed-form claim",
    "Imputer method='drift': PolynomialTrendForecaster(degree=1) is modelled as the least-squares "
    "line over the positions 0..n-1 of the ffill/bfill-ed copy (proved to satisfy the normal "
    "equations); sklearn's LinearRegression behind it is tied by correspondence only",
    "acf default n_lags=None is modelled as n-1 (statsmodels: min(int(10 log10 n), n-1), equal for "
    "n <= 11); fft=True computes the same function in floating point",
    "row transformers are exercised with test-double series transformers (affine, cumulative sum, "
    "reversal, weighted sum) defined in props/c14.py plus MeanTransformer; Imputer / "
    "TabularToSeriesAdaptor cannot be wrapped (they call pandas methods on the ndarray the row "
    "transformer passes) - noted, not asserted",
    "column names / indices of the outputs are not part of the model (positions only)",
]
NOT_RUNNABLE = []


def translate(repo):
    from translator import closedform_c14
    return closedform_c14.translate(repo)

QUARTERS = [-2.0, -1.0, -0.5, 0.0, 0.25, 0.5, 1.0, 1.5, 2.0, 3.0, 4.0, 5.0, 7.0, 9.0]


# ------------------------------------------------------------------------------------------------
# generators


def _vals(rng, n, mode=None):
    mode = mode or rng.choice(["int", "int", "quarter", "ramp", "int", "quarter", "tenth"])
    if mode == "tenth":
        # not representable in single precision: a float32 / integer buffer on the way shows
        return [rng.randint(-30, 90) / 10.0 for _ in range(n)]
    if mode == "int":
        return [float(rng.randint(-4, 9)) for _ in range(n)]
    if mode == "ramp":
        a, b = rng.randint(-3, 3), rng.choice([-2, -1, 1, 2, 3])
        return [float(a + b * i + (1 if rng.random() < 0.2 else 0)) for i in range(n)]
    return [rng.choice(QUARTERS) for _ in range(n)]


def _panel(rng, shape="equal", n_inst=None, n_cols=None, nmin=1, nmax=9, n=None):
    """shape: equal (one length), rect (one length per column), unequal (any)."""
    n_inst = n_inst or rng.choice([1, 2, 2, 3])
    n_cols = n_cols or rng.choice([1, 1, 2])
    if shape == "equal":
        n = n or rng.randint(nmin, nmax)
        lens = [[n] * n_cols for _ in range(n_inst)]
    elif shape == "rect":
        per_col = [rng.randint(nmin, nmax) for _ in range(n_cols)]
        lens = [list(per_col) for _ in range(n_inst)]
    else:
        lens = [[rng.randint(nmin, nmax) for _ in range(n_cols)] for _ in range(n_inst)]
    return [[_vals(rng, ln) for ln in row] for row in lens]


def _lens(p):
    return [len(s) for row in p for s in row]


def _cells_kind(rng, p, allow_array=True, fit=None):
    equal = len(set(_lens(p))) == 1 and (fit is None or len(set(_lens(fit))) == 1)
    pool = ["series"] * 5 + (["array"] if allow_array else []) + (["np3d"] * 2 if equal else [])
    return rng.choice(pool)


def _gen_pad(rng):
    p = _panel(rng, rng.choice(["unequal", "unequal", "equal"]))
    fit = None if rng.random() < 0.7 else _panel(rng, "unequal", n_cols=len(p[0]))
    mx = max(_lens(fit or p))
    mxp = max(_lens(p))
    pl = rng.choice([None, None, None, mx, mxp, mxp + 1, mxp + 3, mxp - 1, min(_lens(p))])
    if pl is not None and pl < 1:
        pl = 1
    return {"kind": "pad", "cells": _cells_kind(rng, p, fit=fit), "fit": fit, "X": p, "pad_length": pl,
            "fill": rng.choice([0.0, 0.0, -1.0, 2.5, 7.0, 0.5, -0.5, 2.75, "nan"])}


def _gen_trunc(rng):
    p = _panel(rng, rng.choice(["unequal", "unequal", "equal"]), nmin=2)
    fit = None if rng.random() < 0.7 else _panel(rng, "unequal", n_cols=len(p[0]), nmin=2)
    mn = min(_lens(p))
    r = rng.random()
    if r < 0.4:
        lower, upper = None, None
    elif r < 0.6:
        lower, upper = rng.choice([mn, mn - 1, 1, mn + 1]), None
    else:
        lower = rng.randint(0, mn)
        upper = rng.choice([mn, mn, mn - 1, lower + 1, mn + 1, lower])
    return {"kind": "trunc", "cells": _cells_kind(rng, p, fit=fit), "fit": fit, "X": p, "lower": lower,
            "upper": upper}


def _gen_interp(rng):
    p = _panel(rng, rng.choice(["unequal", "equal", "unequal"]), nmin=1 if rng.random() < 0.1 else 2)
    lens = _lens(p)
    m = rng.choice([1, 2, 3, 4, 5, 6, 7, 8, 9, 11, 12, lens[0], lens[0], 2 * lens[0] - 1])
    return {"kind": "interp", "cells": _cells_kind(rng, p), "X": p, "length": max(1, m)}


def _gen_tab(rng, kind):
    if rng.random() < 0.3:
        # several columns of >= 2 time points as a 3-d numpy panel: column-then-time order is
        # only visible there (axis mix-ups give the same values for one column / one time point)
        p = _panel(rng, "equal", n_cols=rng.choice([2, 2, 3]), nmin=2, nmax=6)
        return {"kind": kind, "cells": "np3d", "X": p}
    shape = rng.choice(["equal", "rect", "rect", "unequal"])
    p = _panel(rng, shape, n_cols=rng.choice([1, 2, 2, 3]), nmax=6)
    return {"kind": kind, "cells": _cells_kind(rng, p), "X": p}


def _gen_paa(rng, n=None, m=None):
    n = n or rng.randint(1, 12)
    p = _panel(rng, "equal", n=n)
    if rng.random() < 0.15 and len(p[0]) == 2:
        n2 = rng.randint(n, 12)      # second column longer: every column is reduced on its own
        p = [[row[0], _vals(rng, n2)] for row in p]
    m = m or rng.choice(list(range(1, n + 1)) * 3 + [n + 1, n + 2])
    return {"kind": "paa", "cells": _cells_kind(rng, p), "X": p, "m": m}


def _gen_iseg(rng):
    n = rng.randint(2, 16)
    p = _panel(rng, "equal", n_cols=1, n=n)
    fit = None
    if rng.random() < 0.15:
        fit = _panel(rng, "equal", n_cols=1, n=rng.randint(2, 16))
    nf = len((fit or p)[0][0])
    if rng.random() < 0.6:
        k = rng.choice(list(range(1, nf // 2 + 1)) * 3 + [nf // 2 + 1, nf])
        return {"kind": "iseg", "mode": "int", "cells": _cells_kind(rng, p), "fit": fit, "X": p,
                "k": k}
    ivs = []
    for _ in range(rng.randint(1, 4)):
        a = rng.randint(0, n - 1)
        b = rng.randint(a + 1, n)
        ivs.append([a, b])
    return {"kind": "iseg", "mode": "arr", "cells": _cells_kind(rng, p), "fit": fit, "X": p,
            "ivs": ivs}


def _gen_slide(rng):
    n = rng.randint(1, 9)
    p = _panel(rng, "equal", n_cols=1, n=n)
    w = rng.choice(list(range(1, n + 3)) + [1, 2, 3, 4, 5])
    return {"kind": "slide", "cells": _cells_kind(rng, p), "X": p, "w": w}


FEATS = ["mean", "std", "slope"]


def _gen_rife(rng):
    n = rng.randint(3, 9)
    p = _panel(rng, "equal", n_cols=1, n=n)
    feats = rng.choice([["mean"], ["mean", "std", "slope"], ["slope", "mean"], ["std"],
                        ["slope"], ["std", "slope", "mean"]])
    k = rng.randint(1, min(4, n))
    mnl = rng.choice([None, None, 2, 3]) if n >= 4 else None
    X2 = None if rng.random() < 0.6 else _panel(rng, "equal", n_cols=1, n=n)
    return {"kind": "rife", "cells": _cells_kind(rng, p), "fit": p if X2 else None,
            "X": X2 or p, "feats": feats, "n_intervals": k, "min_length": mnl,
            "seed": rng.randint(0, 10 ** 6)}


def _gen_row(rng):
    shape = "equal" if rng.random() < 0.9 else "unequal"
    p = _panel(rng, shape, nmin=1 if rng.random() < 0.1 else 2, nmax=7)
    via = rng.choice(["class", "class", "factory", "factory-typed"])
    if rng.random() < 0.65:
        f = rng.choice([["affine", 2.0, 1.0], ["affine", -0.5, 3.0], ["cumsum"], ["cumsum"],
                        ["reverse"]])
        if rng.random() < 0.55:
            # wrapped transformers whose OUTPUT IS THEIR INPUT OR A VIEW OF IT: every instance must
            # still get its own result (needs >= 2 distinct instances to tell)
            n = max(_lens(p))
            f = rng.choice([["ident"], ["head", rng.randint(1, n)], ["stride2"], ["reverse_view"]])
            if len(p) < 2:
                p = p + _panel(rng, "equal", n_inst=rng.choice([1, 2]), n_cols=len(p[0]), n=n) \
                    if shape == "equal" else p
        return {"kind": "row_s2s", "cells": _cells_kind(rng, p), "X": p, "f": f, "via": via}
    return {"kind": "row_s2p", "cells": _cells_kind(rng, p), "X": p, "via": via,
            "g": rng.choice(["mean", "weighted", "weighted", "first"])}


METHODS = ["mean", "median", "constant", "ffill", "bfill", "pad", "backfill", "nearest", "linear",
           "drift"]


def _gen_impute(rng, method=None):
    n = rng.randint(1, 9)
    z = _vals(rng, n)
    rate = rng.choice([0.0, 0.2, 0.4, 0.4, 0.6, 0.9])
    z = [None if rng.random() < rate else v for v in z]
    if rng.random() < 0.3 and n >= 3:
        z[0] = None
    if rng.random() < 0.3 and n >= 3:
        z[-1] = None
    if rng.random() < 0.25 and n >= 5:      # a long interior gap with an exact midpoint
        z[1:4] = [None, None, None]
        z[0], z[4] = z[0] if z[0] is not None else 1.0, z[4] if z[4] is not None else 5.0
    method = method or rng.choice(METHODS + ["drift", "drift"])
    c = {"kind": "impute", "method": method,
         "value": rng.choice([7.0, -1.5, 0.0]) if method == "constant" else None, "z": z,
         "t0": rng.choice([0, 0, 5])}
    if rng.random() < 0.3:
        # a two-column frame: every column is imputed on its own
        z2 = [None if rng.random() < 0.4 else v for v in _vals(rng, n)]
        if all(v is None for v in z2) and rng.random() < 0.8:
            z2[rng.randrange(n)] = 3.0
        c["z2"] = z2
        c["pick"] = rng.choice([0, 1])       # the column compared inside Coq
    return c


def _gen_cos(rng):
    n = rng.randint(1, 7)
    cols = [[rng.choice(QUARTERS + [-7.5, 8.0, 6.25]) for _ in range(n)]
            for _ in range(rng.choice([1, 1, 2]))]
    return {"kind": "cos", "cols": cols}


def _gen_acf(rng):
    n = rng.randint(2, 9)
    z = _vals(rng, n)
    if rng.random() < 0.08:
        z = [round(z[0] * 4) / 4.0] * n      # constant series (exact mean in floating point): 0 / 0
    return {"kind": "acf", "z": z, "n_lags": rng.choice([None, None, 0, 1, 2, 3, n - 1, n, n + 2]),
            "adjusted": rng.random() < 0.4, "fft": rng.random() < 0.3}


def _gen_adapt(rng):
    nc = rng.choice([1, 1, 2])
    n = rng.randint(1, 8)
    fit = [_vals(rng, n) for _ in range(nc)]
    if rng.random() < 0.1:
        fit[0] = [fit[0][0]] * n    # zero range
    cols = fit if rng.random() < 0.5 else [_vals(rng, rng.randint(1, 8))] * 1
    if cols is not fit:
        m = len(cols[0])
        cols = [cols[0]] + [_vals(rng, m) for _ in range(nc - 1)]
    return {"kind": "adapt", "fit": fit, "cols": cols}


GENS = [("rife", _gen_rife, 50), ("row", _gen_row, 50), ("impute", _gen_impute, 130),
        ("cos", _gen_cos, 15), ("acf", _gen_acf, 40), ("adapt", _gen_adapt, 30),
        ("pad", _gen_pad, 60), ("trunc", _gen_trunc, 60), ("interp", _gen_interp, 60),
        ("tab", lambda r: _gen_tab(r, "tab"), 40), ("concat", lambda r: _gen_tab(r, "concat"), 30),
        ("paa", _gen_paa, 90), ("iseg", _gen_iseg, 70), ("slide", _gen_slide, 60)]


DTYPES = ["int64", "int32", "bool", "float32"]
PANEL_KINDS = ("pad", "trunc", "interp", "tab", "concat", "paa", "iseg", "slide", "rife",
               "row_s2s", "row_s2p")


def _cast(v, dtype):
    """the value as it is after storing it in a cell of that dtype (exactly representable)"""
    import math
    if dtype == "bool":
        return 1.0 if v > 0 else 0.0
    if dtype.startswith("int"):
        return float(math.floor(v))
    import struct
    return struct.unpack("f", struct.pack("f", v))[0]      # the nearest float32, exactly


def _dtype_dim(rng, c):
    """generator dimension `cell dtype`: the SAME numbers stored as int64 / int32 / bool / float32
    cells (nested Series cells, ndarray cells, 3-d numpy panels; single series for cos / acf /
    adaptor).  The expected output is always computed in exact arithmetic from the numbers."""
    k = c["kind"]
    if k in PANEL_KINDS and rng.random() < (0.5 if k == "pad" else 0.3):
        dt = rng.choice(DTYPES)
        c["dtype"] = dt
        for key in ("X", "fit"):
            if c.get(key) is not None:
                c[key] = [[[_cast(v, dt) for v in s] for s in row] for row in c[key]]
    elif k in ("cos", "acf", "adapt") and rng.random() < 0.25:
        dt = rng.choice(["int64", "int32", "float32"])
        c["dtype"] = dt
        for key in ("cols", "fit"):
            if c.get(key) is not None:
                c[key] = [[_cast(v, dt) for v in col] for col in c[key]]
        if c.get("z") is not None:
            c["z"] = [_cast(v, dt) for v in c["z"]]
    return c


def gen_cases(rng, tier):
    cases = []
    mult = 1 if tier == "quick" else 12
    for _, g, k in GENS:
        for _ in range(k * mult):
            cases.append(_dtype_dim(rng, g(rng)))
    if tier == "thorough":
        cases += exhaustive_cases()
    return cases


def exhaustive_cases():
    """n <= 9, every parameter value, fixed data (two instances, order-sensitive values)."""
    out = []

    def data(n, off=0):
        return [float((7 * i * i + 3 * i + off) % 11 - 3) for i in range(n)]
    for n in range(1, 10):
        p1 = [[data(n)], [data(n, 5)]]
        for m in range(1, n + 2):
            out.append({"kind": "paa", "cells": "series", "X": p1, "m": m})
        for w in range(1, n + 3):
            out.append({"kind": "slide", "cells": "series", "X": p1, "w": w})
        if n >= 2:
            for k in range(1, n // 2 + 2):
                out.append({"kind": "iseg", "mode": "int", "cells": "series", "fit": None, "X": p1,
                            "k": k})
            for m in range(1, 13):
                out.append({"kind": "interp", "cells": "series", "X": p1, "length": m})
        for n2 in range(1, 10):
            pu = [[data(n), data(n2, 2)], [data(n2, 1), data(n, 3)]]
            for pl in [None] + list(range(max(n, n2) - 1, max(n, n2) + 2)):
                if pl is None or pl >= 1:
                    out.append({"kind": "pad", "cells": "series", "fit": None, "X": pu,
                                "pad_length": pl, "fill": -1.0})
            mn = min(n, n2)
            out.append({"kind": "trunc", "cells": "series", "fit": None, "X": pu, "lower": None,
                        "upper": None})
            for lo in range(0, mn + 2):
                out.append({"kind": "trunc", "cells": "series", "fit": None, "X": pu, "lower": lo,
                            "upper": None})
                for up in range(lo, mn + 2):
                    out.append({"kind": "trunc", "cells": "series", "fit": None, "X": pu,
                                "lower": lo, "upper": up})
    # cell dtype x fill value (padder) and cell dtype x every other panel transformer
    ragged = [[[1.0, 0.0, 3.0], [2.0, 1.0]], [[0.0, 1.0, 1.0, 5.0], [1.0]]]
    square = [[[1.0, 0.0, 3.0, 2.0]], [[0.0, 1.0, 1.0, 5.0]]]
    for dt in DTYPES:
        def cast(p):
            return [[[_cast(v, dt) for v in s] for s in row] for row in p]
        for fill in (0.5, -0.5, 2.75, -1.0, 0.0, "nan"):
            for cells, p in (("series", ragged), ("array", ragged), ("np3d", square),
                             ("series", square)):
                for pl in (None, 6):
                    out.append({"kind": "pad", "cells": cells, "fit": None, "X": cast(p),
                                "pad_length": pl, "fill": fill, "dtype": dt})
        for cells in ("series", "array", "np3d"):
            q = cast(square)
            base = {"cells": cells, "X": q, "dtype": dt}
            out.append(dict(base, kind="trunc", fit=None, lower=1, upper=3))
            out.append(dict(base, kind="interp", length=7))
            out.append(dict(base, kind="tab"))
            out.append(dict(base, kind="concat"))
            out.append(dict(base, kind="paa", m=3))
            out.append(dict(base, kind="iseg", mode="int", fit=None, k=2))
            out.append(dict(base, kind="slide", w=3))
            out.append(dict(base, kind="row_s2s", f=["affine", -0.5, 3.0]))
            out.append(dict(base, kind="row_s2p", g="weighted"))
            for via in ("class", "factory", "factory-typed"):
                for f in (["ident"], ["head", 2], ["stride2"], ["reverse_view"]):
                    out.append(dict(base, kind="row_s2s", f=f, via=via))
                out.append(dict(base, kind="row_s2p", g="first", via=via))
            out.append(dict(base, kind="rife", fit=None, feats=["mean", "std", "slope"],
                            n_intervals=2, min_length=None, seed=7))
    return out


# ------------------------------------------------------------------------------------------------
# implementation side (runs in the driver subprocess)


def _mk_panel(p, cells, dtype="float64"):
    import numpy as np
    import pandas as pd
    if cells == "np3d":
        return np.array(p, dtype=float).astype(dtype)
    d = {}
    for c in range(len(p[0])):
        if cells == "array":
            col = [np.array(row[c], dtype=float).astype(dtype) for row in p]
        else:
            col = [pd.Series(np.array(row[c], dtype=float).astype(dtype)) for row in p]
        d["c%d" % c] = pd.Series(col, dtype=object)
    return pd.DataFrame(d)


def _canon_cell(x):
    import numpy as np
    from harness.core import float_ratio
    a = np.asarray(x, dtype=float).ravel()
    return [float_ratio(v) for v in a]


def _canon_panel(Xt):
    return [[_canon_cell(Xt.iloc[i, j]) for j in range(Xt.shape[1])] for i in range(Xt.shape[0])]


def _canon_rows(Xt):
    import numpy as np
    a = np.asarray(Xt, dtype=float)
    return [[_canon_cell(a[i])] for i in range(a.shape[0])]


def _mk_series(cols, t0=0, dtype="float64"):
    import pandas as pd
    idx = pd.RangeIndex(t0, t0 + len(cols[0]))
    if len(cols) == 1:
        return pd.Series(cols[0], dtype=float, index=idx).astype(dtype)
    return pd.DataFrame({"c%d" % i: pd.Series(c, dtype=float, index=idx).astype(dtype)
                         for i, c in enumerate(cols)})


def _canon_cols(Zt):
    import pandas as pd
    if isinstance(Zt, pd.DataFrame):
        return [_canon_cell(Zt.iloc[:, j]) for j in range(Zt.shape[1])]
    return [_canon_cell(Zt)]


_DOUBLES = {}


def driver_init():
    """Order-sensitive test-double series transformers for the row transformers."""
    import numpy as np
    from sktime.transformations.base import (_SeriesToPrimitivesTransformer,
                                             _SeriesToSeriesTransformer)

    class Affine(_SeriesToSeriesTransformer):
        _tags = {"fit-in-transform": True}

        def __init__(self, a=1.0, b=0.0):
            self.a = a
            self.b = b
            super(Affine, self).__init__()

        def transform(self, Z, X=None):
            self.check_is_fitted()
            return self.a * np.asarray(Z, dtype=float) + self.b

    class Cumsum(_SeriesToSeriesTransformer):
        _tags = {"fit-in-transform": True}

        def transform(self, Z, X=None):
            self.check_is_fitted()
            return np.cumsum(np.asarray(Z, dtype=float), axis=0)

    class Reverse(_SeriesToSeriesTransformer):
        _tags = {"fit-in-transform": True}

        def transform(self, Z, X=None):
            self.check_is_fitted()
            return np.asarray(Z, dtype=float)[::-1].copy()

    # the next four return their input or a numpy VIEW of it (no copy, no cast)
    class Ident(_SeriesToSeriesTransformer):
        _tags = {"fit-in-transform": True}

        def transform(self, Z, X=None):
            self.check_is_fitted()
            return Z

    class Head(_SeriesToSeriesTransformer):
        _tags = {"fit-in-transform": True}

        def __init__(self, k=1):
            self.k = k
            super(Head, self).__init__()

        def transform(self, Z, X=None):
            self.check_is_fitted()
            return Z[:self.k]

    class Stride2(_SeriesToSeriesTransformer):
        _tags = {"fit-in-transform": True}

        def transform(self, Z, X=None):
            self.check_is_fitted()
            return Z[::2]

    class ReverseView(_SeriesToSeriesTransformer):
        _tags = {"fit-in-transform": True}

        def transform(self, Z, X=None):
            self.check_is_fitted()
            return Z[::-1]

    class First(_SeriesToPrimitivesTransformer):
        def transform(self, Z, X=None):
            self.check_is_fitted()
            return Z[0]

    class Weighted(_SeriesToPrimitivesTransformer):
        def transform(self, Z, X=None):
            self.check_is_fitted()
            Z = np.asarray(Z, dtype=float)
            w = np.arange(1, Z.shape[0] + 1, dtype=float).reshape((-1,) + (1,) * (Z.ndim - 1))
            return np.sum(Z * w, axis=0)

    _DOUBLES.update({"affine": Affine, "cumsum": Cumsum, "reverse": Reverse,
                     "weighted": Weighted, "ident": Ident, "head": Head, "stride2": Stride2,
                     "reverse_view": ReverseView, "first": First})


def _row_transformer(case, wrapped, cls, type_name):
    """the row transformer built directly or through the make_row_transformer factory"""
    from sktime.transformations.panel.compose import make_row_transformer
    via = case.get("via", "class")
    if via == "factory":
        t = make_row_transformer(wrapped)
    elif via == "factory-typed":
        t = make_row_transformer(wrapped, transformer_type=type_name)
    else:
        return cls(wrapped)
    if type(t) is not cls:
        raise AssertionError("make_row_transformer built a %s" % type(t).__name__)
    return t


ERRS = (ValueError, TypeError, IndexError, KeyError, NotImplementedError, AttributeError,
        ZeroDivisionError)


def run_impl(case):
    import numpy as np
    k = case["kind"]
    try:
        dt = case.get("dtype", "float64")
        X = _mk_panel(case["X"], case.get("cells", "series"), dt) if "X" in case else None
        Xfit = X
        if case.get("fit") is not None and "X" in case:
            Xfit = _mk_panel(case["fit"], case.get("cells", "series"), dt)
        if k == "pad":
            from sktime.transformations.panel.padder import PaddingTransformer
            fill = float("nan") if case["fill"] == "nan" else case["fill"]
            t = PaddingTransformer(pad_length=case["pad_length"], fill_value=fill)
            return {"panel": _canon_panel(t.fit(Xfit).transform(X))}
        if k == "trunc":
            from sktime.transformations.panel.truncation import TruncationTransformer
            t = TruncationTransformer(lower=case["lower"], upper=case["upper"])
            return {"panel": _canon_panel(t.fit(Xfit).transform(X))}
        if k == "interp":
            from sktime.transformations.panel.interpolate import TSInterpolator
            t = TSInterpolator(case["length"])
            return {"panel": _canon_panel(t.fit(X).transform(X))}
        if k == "tab":
            from sktime.transformations.panel.reduce import Tabularizer
            return {"panel": _canon_rows(Tabularizer().fit(X).transform(X))}
        if k == "concat":
            from sktime.transformations.panel.compose import ColumnConcatenator
            return {"panel": _canon_panel(ColumnConcatenator().fit(X).transform(X))}
        if k == "paa":
            from sktime.transformations.panel.dictionary_based._paa import PAA
            return {"panel": _canon_panel(PAA(num_intervals=case["m"]).fit(X).transform(X))}
        if k == "iseg":
            from sktime.transformations.panel.segment import IntervalSegmenter
            iv = case["k"] if case["mode"] == "int" else np.array(case["ivs"])
            t = IntervalSegmenter(intervals=iv).fit(Xfit)
            return {"panel": _canon_panel(t.transform(X))}
        if k == "slide":
            from sktime.transformations.panel.segment import SlidingWindowSegmenter
            t = SlidingWindowSegmenter(window_length=case["w"])
            return {"panel": _canon_panel(t.fit(X).transform(X))}
        if k == "rife":
            from sktime.transformations.panel.summarize._extract import (
                RandomIntervalFeatureExtractor)
            from sktime.utils.slope_and_trend import _slope
            fm = {"mean": np.mean, "std": np.std, "slope": _slope}
            t = RandomIntervalFeatureExtractor(
                n_intervals=case["n_intervals"], min_length=case["min_length"],
                features=[fm[f] for f in case["feats"]], random_state=case["seed"])
            t.fit(Xfit)
            ivs = [[int(a), int(b)] for a, b in t.intervals_]
            Xt = t.transform(X)
            return {"intervals": ivs, "panel": _canon_rows(Xt),
                    "columns": [str(c) for c in Xt.columns]}
        if k == "row_s2s":
            from sktime.transformations.panel.compose import SeriesToSeriesRowTransformer
            f = case["f"]
            d = _DOUBLES[f[0]](*f[1:])
            t = _row_transformer(case, d, SeriesToSeriesRowTransformer, "series-to-series")
            return {"panel": _canon_panel(t.fit(X).transform(X))}
        if k == "row_s2p":
            from sktime.transformations.panel.compose import SeriesToPrimitivesRowTransformer
            from sktime.transformations.series.summarize import MeanTransformer
            d = MeanTransformer() if case["g"] == "mean" else _DOUBLES[case["g"]]()
            t = _row_transformer(case, d, SeriesToPrimitivesRowTransformer, "series-to-primitives")
            return {"panel": _canon_rows(t.fit(X).transform(X))}
        if k == "impute":
            import pandas as pd
            from sktime.transformations.series.impute import Imputer
            from harness.core import float_ratio
            idx = pd.RangeIndex(case["t0"], case["t0"] + len(case["z"]))
            z = pd.Series([np.nan if v is None else v for v in case["z"]], dtype=float, index=idx)
            if case.get("z2") is not None:
                z = pd.DataFrame({"a": z, "b": pd.Series(
                    [np.nan if v is None else v for v in case["z2"]], dtype=float, index=idx)})
            z0 = z.copy()
            t = Imputer(method=case["method"], value=case["value"])
            zt = t.fit(z).transform(z)
            out = {"index": [int(i) for i in zt.index], "input_unchanged": bool(z.equals(z0))}
            if case.get("z2") is not None:
                out["vals"] = [float_ratio(v) for v in zt["a"].values]
                out["vals2"] = [float_ratio(v) for v in zt["b"].values]
                out["columns"] = [str(c) for c in zt.columns]
            else:
                out["vals"] = [float_ratio(v) for v in zt.values]
            return out
        if k == "cos":
            from sktime.transformations.series.cos import CosineTransformer
            Z = _mk_series(case["cols"], dtype=dt)
            Zt = CosineTransformer().fit(Z).transform(Z)
            return {"panel": [_canon_cols(Zt)]}
        if k == "acf":
            import pandas as pd
            from sktime.transformations.series.acf import AutoCorrelationTransformer
            z = pd.Series(case["z"], dtype=float).astype(dt)
            t = AutoCorrelationTransformer(n_lags=case["n_lags"], adjusted=case["adjusted"],
                                           fft=case["fft"])
            return {"panel": [[_canon_cell(t.fit(z).transform(z))]]}
        if k == "adapt":
            from sklearn.preprocessing import MinMaxScaler
            from sktime.transformations.series.adapt import TabularToSeriesAdaptor
            t = TabularToSeriesAdaptor(MinMaxScaler()).fit(_mk_series(case["fit"], dtype=dt))
            Z = _mk_series(case["cols"], t0=3, dtype=dt)
            Zt = t.transform(Z)
            return {"panel": [_canon_cols(Zt)], "index_kept": bool(Zt.index.equals(Z.index))}
        raise AssertionError("unknown kind " + k)
    except ERRS as e:
        return {"err": type(e).__name__}


# ------------------------------------------------------------------------------------------------
# oracle: the theorems' conclusions restated on the implementation's output (exact rationals)


def _fr(v):
    return Fr(v[0], v[1]) if isinstance(v, (list, tuple)) else Fr(v)


def _frp(p):
    return [[[Fr(x) for x in s] for s in row] for row in p]


_TOL = [Fr(1, 10 ** 9)]     # relative tolerance of the case being judged (set by oracle())


def _close(a, b):
    return abs(a - b) <= _TOL[0] * (1 + abs(b))


INEXACT_KINDS = ("interp", "paa", "rife", "row_s2p", "acf", "adapt", "cos")


def _case_tol(case):
    """float64 rounding: 1e-9 relative.  float32 CELLS make numpy compute in single precision
    (eps 6e-8; sums / products / a quotient of differences over <= 16 values of size <= 13):
    1e-4 relative - still far below any wrong index / weight / length."""
    return Fr(1, 10 ** 4) if case.get("dtype") == "float32" else Fr(1, 10 ** 9)


def _cmp_panel(tag, out, exp, exact=True):
    """row count, column count, cell length, cell values - in this order."""
    if "err" in out:
        return "%s-rejected-valid-input: %s" % (tag, out["err"])
    got = out["panel"]
    if len(got) != len(exp):
        return "%s-one-row-per-instance: %d rows for %d instances" % (tag, len(got), len(exp))
    for i, (gr, er) in enumerate(zip(got, exp)):
        if len(gr) != len(er):
            return "%s-column-count: instance %d has %d cells expected %d" % (
                tag, i, len(gr), len(er))
        for c, (gs, es) in enumerate(zip(gr, er)):
            if len(gs) != len(es):
                return "%s-cell-length: instance %d column %d has %d values expected %d" % (
                    tag, i, c, len(gs), len(es))
            for j, (g, e) in enumerate(zip(gs, es)):
                if e is None:
                    if g is not None:
                        return "%s-cell-value: instance %d column %d position %d is %s expected NaN" % (
                            tag, i, c, j, g if isinstance(g, str) else float(_fr(g)))
                    continue
                if g is None or isinstance(g, str):
                    return "%s-not-finite: instance %d column %d position %d" % (tag, i, c, j)
                g = _fr(g)
                if (g != e) if exact else (not _close(g, e)):
                    return "%s-cell-value: instance %d column %d position %d is %s expected %s" % (
                        tag, i, c, j, float(g), float(e))
    return None


def _expect_err(tag, out, why):
    if "err" in out:
        return None
    return "%s-accepted-infeasible-request: %s" % (tag, why)


def _rect(p):
    return all([len(s) for s in row] == [len(s) for s in p[0]] for row in p)


def paa_frames(s, m):
    """(1/L) * integral of the step function over [kL, (k+1)L), L = n/m."""
    n = len(s)
    L = Fr(n, m)
    out = []
    for k in range(m):
        a, b = k * L, (k + 1) * L
        tot = sum((x * max(Fr(0), min(Fr(t + 1), b) - max(Fr(t), a)) for t, x in enumerate(s)),
                  Fr(0))
        out.append(tot / L)
    return out


def interp_values(s, m):
    n = len(s)
    out = []
    for j in range(m):
        x = Fr(j * (n - 1), m - 1) if m > 1 else Fr(0)
        kk = max(min(x.numerator // x.denominator, n - 2), 0)
        out.append(s[kk] + (x - kk) * (s[kk + 1] - s[kk]) if n > 1 else s[0])
    return out


def split_bounds(n, k):
    """k consecutive half-open intervals tiling [0, n), sizes differing by at most one, the larger
    ones first (np.array_split)."""
    q, r = divmod(n, k)
    sizes = [q + 1] * r + [q] * (k - r)
    out, a = [], 0
    for z in sizes:
        out.append((a, a + z))
        a += z
    return out


def oracle(case, out):
    _TOL[0] = _case_tol(case)
    k = case["kind"]
    cells = case.get("cells", "series")
    if out.get("err") in ("AttributeError", "KeyError", "ZeroDivisionError"):
        return "%s-unrelated-error: %s" % (k, out["err"])
    p = fit = None
    if "X" in case:
        p = _frp(case["X"])
        fit = _frp(case["fit"]) if case.get("fit") is not None else p
    if k == "pad":
        L = case["pad_length"] if case["pad_length"] is not None else max(_lens(fit))
        if max(_lens(p)) > L:
            return _expect_err(k, out, "series longer than pad length %d" % L)
        fill = None if case["fill"] == "nan" else Fr(case["fill"])      # None = NaN expected
        exp = [[s + [fill] * (L - len(s)) for s in row] for row in p]
        return _cmp_panel(k, out, exp)
    if k == "trunc":
        lo = case["lower"] if case["lower"] is not None else min(_lens(fit))
        up = case["upper"]
        mn = min(_lens(p))
        if mn < lo:
            return _expect_err(k, out, "series shorter than lower bound %d" % lo)
        if up is None:
            exp = [[s[:lo] for s in row] for row in p]
        else:
            if lo < up and mn < up:
                return _expect_err(k, out, "series shorter than upper bound %d" % up)
            exp = [[s[lo:up] for s in row] for row in p]
        return _cmp_panel(k, out, exp)
    if k == "interp":
        if min(_lens(p)) < 2 and case["length"] >= 2:
            return _expect_err(k, out, "a series with fewer than two points")
        exp = [[interp_values(s, case["length"]) for s in row] for row in p]
        return _cmp_panel(k, out, exp, exact=False)
    if k in ("tab", "concat"):
        if not _rect(p):
            return _expect_err(k, out, "columns of unequal length over the instances")
        exp = [[[x for s in row for x in s]] for row in p]
        return _cmp_panel(k, out, exp)
    if k == "paa":
        m = case["m"]
        if m > len(p[0][0]) or m < 1:
            return _expect_err(k, out, "more intervals than time points")
        exp = [[paa_frames(s, m) for s in row] for row in p]
        return _cmp_panel(k, out, exp, exact=False)
    if k == "iseg":
        n = len(fit[0][0])
        if case["mode"] == "int":
            kk = case["k"]
            if kk > n // 2:
                return _expect_err(k, out, "more intervals than half the time points")
            bs = split_bounds(n, kk)
        else:
            bs = [tuple(x) for x in case["ivs"]]
        exp = [[row[0][a:b] for a, b in bs] for row in p]
        return _cmp_panel(k, out, exp)
    if k == "slide":
        w = case["w"]
        exp = []
        for row in p:
            s = row[0]
            n = len(s)
            exp.append([[s[min(max(i + j - w // 2, 0), n - 1)] for j in range(w)]
                        for i in range(n)])
        return _cmp_panel(k, out, exp)
    if k == "rife":
        return _oracle_rife(case, out, p, fit)
    if k == "row_s2s":
        if len(set(_lens(p))) != 1:
            return _expect_err(k, out, "unequal-length panel")
        f = case["f"]
        exp = [[_sfun(f, s) for s in row] for row in p]
        # affine / cumulative sums round in floating point; selections of values must be exact
        return _cmp_panel(k, out, exp, exact=(f[0] not in ("affine", "cumsum")))
    if k == "row_s2p":
        if len(set(_lens(p))) != 1:
            return _expect_err(k, out, "unequal-length panel")
        if case["g"] == "mean":
            exp = [[[sum(s, Fr(0)) / len(s) for s in row]] for row in p]
        elif case["g"] == "first":
            exp = [[[s[0] for s in row]] for row in p]
        else:
            exp = [[[sum(((t + 1) * x for t, x in enumerate(s)), Fr(0)) for s in row]]
                   for row in p]
        return _cmp_panel(k, out, exp, exact=False)
    if k == "impute":
        return _oracle_impute(case, out)
    if k == "cos":
        if "err" in out:
            return "cos-rejected-valid-input: %s" % out["err"]
        import math
        got = out["panel"][0]
        if [len(c) for c in got] != [len(c) for c in case["cols"]]:
            return "cos-shape: %s" % [len(c) for c in got]
        for c, (gc, xc) in enumerate(zip(got, case["cols"])):
            for j, (g, x) in enumerate(zip(gc, xc)):
                if g is None or abs(float(_fr(g)) - math.cos(x)) > float(_TOL[0]):
                    return "cos-cell-value: column %d position %d" % (c, j)
        return None
    if k == "acf":
        z = [Fr(x) for x in case["z"]]
        n = len(z)
        mu = sum(z, Fr(0)) / n
        d = [x - mu for x in z]

        def cov(kk):
            den = (n - kk) if case["adjusted"] else n
            return sum((d[t] * d[t + kk] for t in range(n - kk)), Fr(0)) / den
        if cov(0) == 0:
            if _inexact_constant(case["z"]):
                return None         # 0 / 0 up to rounding of the mean: the coefficients are undefined
            if "err" in out or any(v is None for v in out["panel"][0][0]):
                return None
            return "acf-constant-series-not-nan"
        lags = n if case["n_lags"] is None else min(case["n_lags"] + 1, n)
        exp = [[[cov(kk) / cov(0) for kk in range(lags)]]]
        return _cmp_panel(k, out, exp, exact=False)
    if k == "adapt":
        fitc = [[Fr(x) for x in c] for c in case["fit"]]
        cols = [[Fr(x) for x in c] for c in case["cols"]]
        exp = []
        for fc, c in zip(fitc, cols):
            mn, mx = min(fc), max(fc)
            rg = (mx - mn) if mx != mn else Fr(1)
            exp.append([(x - mn) / rg for x in c])
        f = _cmp_panel(k, out, [exp], exact=False)
        if f is None and not out.get("index_kept", True):
            return "adapt-index-not-kept"
        return f
    return "unknown-kind"


def _inexact_constant(z):
    """a constant series whose value is not a multiple of 1/4: the floating-point mean need not be
    the value itself, so the deviations are rounding noise instead of exact zeros"""
    return len(set(z)) == 1 and Fr(z[0]) * 4 != int(Fr(z[0]) * 4)


def _sfun(f, s):
    if f[0] == "affine":
        return [Fr(f[1]) * x + Fr(f[2]) for x in s]
    if f[0] == "cumsum":
        out, acc = [], Fr(0)
        for x in s:
            acc += x
            out.append(acc)
        return out
    if f[0] == "ident":
        return list(s)
    if f[0] == "head":
        return s[:f[1]]
    if f[0] == "stride2":
        return s[::2]
    return list(reversed(s))            # reverse (copy) and reverse_view


def _slope(y):
    """least-squares slope of y against 1..n"""
    n = len(y)
    x = [Fr(i + 1) for i in range(n)]
    xm, ym = sum(x) / n, sum(y, Fr(0)) / n
    sxx = sum((a - xm) ** 2 for a in x)
    sxy = sum((a - xm) * (b - ym) for a, b in zip(x, y))
    return sxy / sxx


def _oracle_rife(case, out, p, fit):
    k = "rife"
    if "err" in out:
        return "rife-rejected-valid-input: %s" % out["err"]
    n = len(fit[0][0])
    ivs = out["intervals"]
    mnl = case["min_length"] or 2
    if len(ivs) != case["n_intervals"]:
        return "rife-interval-count: %d fitted, %d requested" % (len(ivs), case["n_intervals"])
    for a, b in ivs:
        if not (0 <= a and a + mnl <= b <= n):
            return "rife-fitted-interval-outside-series: [%d, %d) n=%d min_length=%d" % (
                a, b, n, mnl)
    got = out["panel"]
    if len(got) != len(p):
        return "rife-one-row-per-instance: %d rows for %d instances" % (len(got), len(p))
    names = {"mean": "mean", "std": "std", "slope": "_slope"}
    cols = ["%d_%d_%s" % (a, b, names[f]) for f in case["feats"] for a, b in ivs]
    if out.get("columns") != cols:
        return "rife-column-order: %s expected %s" % (out.get("columns"), cols)
    for i, row in enumerate(p):
        s = row[0]
        g = got[i][0]
        if len(g) != len(case["feats"]) * len(ivs):
            return "rife-cell-length: instance %d has %d features" % (i, len(g))
        j = 0
        for f in case["feats"]:
            for a, b in ivs:
                seg = s[a:b]
                v = g[j]
                if v is None or isinstance(v, str):
                    return "rife-not-finite: instance %d feature %d" % (i, j)
                v = _fr(v)
                if f == "mean":
                    ok = _close(v, sum(seg, Fr(0)) / len(seg))
                elif f == "slope":
                    ok = _close(v, _slope(seg))
                else:
                    mu = sum(seg, Fr(0)) / len(seg)
                    var = sum((x - mu) ** 2 for x in seg) / len(seg)
                    ok = v >= 0 and _close(v * v, var)
                if not ok:
                    return "rife-cell-value: instance %d %s of [%d, %d) is %s" % (
                        i, f, a, b, float(v))
                j += 1
    return None


def impute_expected(method, value, z):
    """The documented rule, then the final ffill + bfill; z is a list of Fraction / None."""
    n = len(z)
    obs = [x for x in z if x is not None]

    def ff(l):
        out, last = [], None
        for x in l:
            last = x if x is not None else last
            out.append(last)
        return out

    def bf(l):
        return list(reversed(ff(list(reversed(l)))))

    def neighbours(t):
        pr = next(((u, z[u]) for u in range(t - 1, -1, -1) if z[u] is not None), None)
        nx = next(((u, z[u]) for u in range(t + 1, n) if z[u] is not None), None)
        return pr, nx
    if method == "mean":
        v = sum(obs, Fr(0)) / len(obs) if obs else None
        core = [v if x is None else x for x in z]
    elif method == "median":
        so = sorted(obs)
        m = len(so)
        v = None if not so else (so[m // 2] if m % 2 else (so[m // 2 - 1] + so[m // 2]) / 2)
        core = [v if x is None else x for x in z]
    elif method == "constant":
        core = [Fr(value) if x is None else x for x in z]
    elif method in ("ffill", "pad"):
        core = ff(z)
    elif method in ("bfill", "backfill"):
        core = bf(z)
    elif method in ("linear", "nearest"):
        core = []
        for t, x in enumerate(z):
            if x is not None:
                core.append(x)
                continue
            pr, nx = neighbours(t)
            if method == "linear":
                if pr and nx:
                    core.append(pr[1] + Fr(t - pr[0], nx[0] - pr[0]) * (nx[1] - pr[1]))
                else:
                    core.append(pr[1] if pr else None)
            else:
                if pr and nx:
                    core.append(pr[1] if t - pr[0] <= nx[0] - t else nx[1])
                else:
                    core.append(None)
    elif method == "drift":
        if not obs:
            core = list(z)
        else:
            y = bf(ff(z))
            xm, ym = Fr(n - 1, 2), sum(y, Fr(0)) / n
            sxx = sum((t - xm) ** 2 for t in range(n))
            b = sum((t - xm) * (v - ym) for t, v in enumerate(y)) / sxx if sxx else Fr(0)
            a = ym - b * xm
            core = [a + b * t if x is None else x for t, x in enumerate(z)]
    else:
        raise AssertionError(method)
    return bf(ff(core))


def _oracle_impute(case, out):
    m = case["method"]
    cols = [("", case["z"], "vals")]
    if case.get("z2") is not None:
        cols = [("column a: ", case["z"], "vals"), ("column b: ", case["z2"], "vals2")]
    if "err" in out:
        if m == "drift" and any(all(v is None for v in zc) for _, zc, _ in cols):
            return None             # nothing to fit a trend on
        return "impute-rejected-valid-input: %s" % out["err"]
    if case.get("z2") is not None and out.get("columns") != ["a", "b"]:
        return "impute-columns-changed: %s" % out.get("columns")
    n = len(case["z"])
    if out["index"] != list(range(case["t0"], case["t0"] + n)):
        return "impute-index-changed: %s" % out["index"]

    def same(a, b):
        return all((x is None and y is None) or (x is not None and y is not None and _close(x, y))
                   for x, y in zip(a, b))
    for tag, zc, key in cols:
        z = [None if v is None else Fr(v) for v in zc]
        got = [None if v is None else _fr(v) for v in out[key]]
        if len(got) != len(z):
            return "impute-length: %s%d values for %d" % (tag, len(got), len(z))
        for t, (x, g) in enumerate(zip(z, got)):
            if x is not None and g != x:
                return "impute-observed-value-changed: %sposition %d %s -> %s" % (tag, t, x, g)
        exp = impute_expected(m, case["value"], z)
        if same(got, exp):
            continue
        t = next(i for i, (x, y) in enumerate(zip(got, exp)) if not same([x], [y]))
        return "impute-%s-value: %sposition %d is %s expected %s" % (
            m, tag, t, None if got[t] is None else float(got[t]),
            None if exp[t] is None else float(exp[t]))
    return None


def nontrivial(case, out):
    if "err" in out:
        return False
    if case["kind"] == "impute":
        return any(v is None for v in case["z"]) and any(v is not None for v in case["z"])
    n = sum(len(c) for row in out.get("panel", []) for c in row)
    return n >= 2


def shrink(case):
    c = dict(case)
    if c.get("dtype"):
        d = dict(c)
        d.pop("dtype")
        yield d                       # not a dtype effect if it still fails with float64 cells
    if c.get("z2") is not None:
        d = dict(c)
        d.pop("z2")
        d.pop("pick", None)
        yield d
        d = dict(c)
        d["z"] = c["z2"]
        d.pop("z2")
        d.pop("pick", None)
        yield d
    if c.get("kind") == "impute" and len(c["z"]) > 2:
        for i in (0, len(c["z"]) - 1):
            d = dict(c)
            d["z"] = c["z"][:i] + c["z"][i + 1:]
            if d.get("z2") is not None:
                d["z2"] = c["z2"][:i] + c["z2"][i + 1:]
            yield d
    if c.get("fit") is not None:
        d = dict(c)
        d["fit"] = None
        yield d
    if c.get("cells") != "series":
        d = dict(c)
        d["cells"] = "series"
        yield d
    X = c.get("X")
    if X:
        if len(X) > 1:
            for i in range(len(X)):
                d = dict(c)
                d["X"] = X[:i] + X[i + 1:]
                yield d
        if len(X[0]) > 1 and c["kind"] in ("pad", "trunc", "interp", "tab", "concat", "paa"):
            for j in range(len(X[0])):
                d = dict(c)
                d["X"] = [row[:j] + row[j + 1:] for row in X]
                if d.get("fit") is not None:
                    d["fit"] = [row[:j] + row[j + 1:] for row in d["fit"]]
                yield d
        if max(_lens(X)) > 1:
            d = dict(c)
            d["X"] = [[s[:-1] if len(s) > 1 else s for s in row] for row in X]
            yield d
        simple = [[[float(i + 1) for i, _ in enumerate(s)] for s in row] for row in X]
        if simple != X:
            d = dict(c)
            d["X"] = simple
            yield d
    for key in ("m", "w", "k", "length", "pad_length", "lower", "upper"):
        v = c.get(key)
        if isinstance(v, int) and v > 1:
            d = dict(c)
            d[key] = v - 1
            yield d


# ------------------------------------------------------------------------------------------------
# model side


CASES_HEADER = """From Coq Require Import QArith ZArith List Bool.
Require Import SkV.Lib.Base SkV.C14.Model SkV.C14.Cases.
Import ListNotations.
Open Scope Z_scope.
"""


def _cq(x):
    return cq(x) + "%Q"


def _cser(s):
    return clist([_cq(_fr(x) if isinstance(x, (list, tuple)) else x) for x in s])


def _coser(z):
    return clist(["None" if v is None or isinstance(v, str) else "(Some %s)" % _cq(
        _fr(v) if isinstance(v, (list, tuple)) else v) for v in z])


def _cpanel(p):
    return clist([clist([_cser(s) for s in row]) for row in p])


def _cout(out):
    if "err" in out or "panel" not in out:
        return "None"
    for row in out["panel"]:
        for s in row:
            for v in s:
                if v is None or isinstance(v, str):
                    return "None"
    return "(Some %s)" % _cpanel(out["panel"])


def _cfit(case):
    return _cpanel(case["fit"] if case.get("fit") is not None else case["X"])


def _civs(ivs):
    return clist(["(%s, %s)" % (cnat(a), cnat(b)) for a, b in ivs])


def coq_case(case, out):
    k = case["kind"]
    if case.get("dtype") == "float32" and (k in INEXACT_KINDS or k == "rife"):
        return None     # single-precision arithmetic: judged by the oracle with its own tolerance
    o = _cout(out)
    X = _cpanel(case["X"]) if "X" in case else None
    if k == "pad":
        if case["fill"] == "nan":
            return None                       # NaN is not a rational: oracle only
        return "CPad %s %s %s %s %s" % (copt(case["pad_length"], cnat), _cq(case["fill"]),
                                       _cfit(case), X, o)
    if k == "trunc":
        return "CTrunc %s %s %s %s %s" % (copt(case["lower"], cnat), copt(case["upper"], cnat),
                                         _cfit(case), X, o)
    if k == "interp":
        return "CInterp %s %s %s" % (cnat(case["length"]), X, o)
    if k == "tab":
        return "CTab %s %s" % (X, o)
    if k == "concat":
        return "CConcat %s %s" % (X, o)
    if k == "paa":
        return "CPaa %s %s %s" % (cnat(case["m"]), X, o)
    if k == "iseg":
        if case["mode"] == "int":
            return "CISegInt %s %s %s %s" % (cnat(case["k"]), _cfit(case), X, o)
        return "CISegArr %s %s %s" % (_civs(case["ivs"]), X, o)
    if k == "slide":
        return "CSlide %s %s %s" % (cnat(case["w"]), X, o)
    if k == "rife":
        if "err" in out or "intervals" not in out:
            return None
        rows = "None"
        if all(v is not None and not isinstance(v, str) for r in out["panel"] for v in r[0]):
            rows = "(Some %s)" % clist([_cser([_fr(v) for v in r[0]]) for r in out["panel"]])
        return "CRife %s %s %s %s" % (
            clist([{"mean": "FMean", "std": "FStd", "slope": "FSlope"}[f] for f in case["feats"]]),
            _civs(out["intervals"]), X, rows)
    if k == "row_s2s":
        f = case["f"]
        ft = {"affine": lambda: "(SAffine %s %s)" % (_cq(f[1]), _cq(f[2])),
              "cumsum": lambda: "SCumsum", "reverse": lambda: "SReverse",
              "reverse_view": lambda: "SReverse", "ident": lambda: "SIdent",
              "head": lambda: "(SHead %s)" % cnat(f[1]), "stride2": lambda: "SStride2"}[f[0]]()
        return "CRowS2S %s %s %s" % (ft, X, o)
    if k == "row_s2p":
        return "CRowS2P %s %s %s" % ({"mean": "PMean", "weighted": "PWeighted",
                                      "first": "PFirst"}[case["g"]], X, o)
    if k == "impute":
        m = {"mean": "IMean", "median": "IMedian", "ffill": "IFfill", "pad": "IFfill",
             "bfill": "IBfill", "backfill": "IBfill", "nearest": "INearest", "linear": "ILinear",
             "drift": "IDrift"}.get(case["method"])
        if case["method"] == "constant":
            m = "(IConstant %s)" % _cq(case["value"])
        second = case.get("z2") is not None and case.get("pick") == 1
        zin = case["z2"] if second else case["z"]
        if "err" in out and case.get("z2") is not None and not all(v is None for v in zin):
            return None      # the frame was rejected because of the OTHER column
        vals = "None" if "err" in out else "(Some %s)" % _coser(out["vals2" if second else "vals"])
        return "CImpute %s %s %s" % (m, _coser(zin), vals)
    if k == "cos":
        return "CCos %s %s" % (clist([_cser(c) for c in case["cols"]]), o)
    if k == "acf":
        if _inexact_constant(case["z"]):
            return None
        return "CAcf %s %s %s %s" % (cbool(case["adjusted"]), copt(case["n_lags"], cnat),
                                    _cser(case["z"]), o)
    if k == "adapt":
        return "CAdapt %s %s %s" % (clist([_cser(c) for c in case["fit"]]),
                                   clist([_cser(c) for c in case["cols"]]), o)
    return None


def coq_model_term(case):
    t = coq_case(case, {"err": "x"})
    if t and t.startswith("CImpute"):
        return ("(fun c => match c with CImpute m l _ => rmap (map (option_map Qred)) "
                "(impute_res m l) | _ => Err end) (%s)" % t)
    return "model_says (%s)" % t if t else "tt"


def distribution(cases, results):
    import collections
    d = collections.Counter()
    for c, r in zip(cases, results):
        o = r.get("out") or {}
        d["%s:%s" % (c["kind"], "rejected" if "err" in o else "ok")] += 1
        if c["kind"] == "impute":
            d["impute:%s" % ("frame" if c.get("z2") is not None else "series")] += 1
            d["impute-method:%s" % c["method"]] += 1
        d["cells:%s" % c.get("cells", "-")] += 1
        d["dtype:%s" % c.get("dtype", "float64")] += 1
        if c["kind"] == "pad":
            f = c["fill"]
            d["pad-fill:%s" % ("nan" if f == "nan" else "integer" if float(f).is_integer()
                               else "fractional")] += 1
        if c["kind"] == "paa" and "err" not in o:
            n = len(c["X"][0][0])
            d["paa:%s" % ("m-divides-n" if n % c["m"] == 0 else "fractional-frames")] += 1
        if c["kind"] in ("pad", "trunc", "interp") and "X" in c:
            d["%s:%s" % (c["kind"], "equal" if len(set(_lens(c["X"]))) == 1 else "unequal")] += 1
    return dict(d)


def extra_coverage(cases, results, tier):
    return {"exhaustive": False,
            "exhaustive_scope": ("n <= 9, every m / window / interval count / pad length / truncation "
                                 "range / target length on fixed data: %d cases, all enumerated"
                                 % len(exhaustive_cases())) if tier == "thorough" else "thorough only"}
