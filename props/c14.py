"""C14 - closed-form transformers compute exactly the function they document."""
from fractions import Fraction as Fr

from harness.core import cbool, clist, cnat, copt, cq

ID = "C14"
MODEL_TARGETS = ["C14/Cases.vo"]
PROOF_TARGETS = ["C14/PaaProof.vo", "C14/Proofs.vo", "C14/Refuted.vo"]
OBLIGATION_FILES = ["C14/Refuted.v"]
PROPS_FILE = "C14/Props.v"
SHARD = 120
PER_CASE_TIMEOUT = 60
RULE = ("random small panels (instances <= 3, columns <= 2, series length <= 9 (<= 16 for interval "
        "segmentation), values small integers or quarters; Series cells, ndarray cells, 3-d numpy; "
        "equal- and, where the transformer supports it, unequal-length) x transformer "
        "configuration: pad length None / longest / longer / too short and fill value; truncation "
        "lower / upper None or around the shortest length; interpolation length 1..12; PAA with every "
        "1 <= m <= n (dividing or not) and m > n; int intervals 1..n/2+1 and explicit interval arrays; "
        "window lengths 1..n+2 (odd and even); fitted random intervals x (mean, std, slope); row "
        "transformers with order-sensitive test doubles; series with missing values x every "
        "imputation method; cosine; acf lags/adjusted; MinMax adaptor fitted on another series. "
        "thorough adds the exhaustive scope n <= 9 x all parameters on fixed data. non-trivial = the "
        "transformer returned an output with at least two values (or rejected exactly at a "
        "documented boundary); distinct = distinct canonical JSON case")
TRUSTED = [
    "hand-written Gallina model (coq/C14/Model.v) of each transformer as a list function over Q, tied "
    "to the code by the in-Coq correspondence run only (no translator): numpy slicing / np.full / "
    "np.pad(mode='edge') / np.array_split / np.hstack / as_strided windows, scipy interp1d(linear) "
    "on np.linspace grids, pandas fillna / interpolate(linear, nearest) / mean / median, statsmodels "
    "acf, sklearn MinMaxScaler are modelled, not verified",
    "float64 rounding is outside the model: outputs are compared in Q with tolerance "
    "|a-b| <= 1e-9 * (1 + |a|)",
]
MODELLED = [
    "PAA: the float test `current_frame_size == frame_length` is modelled in exact arithmetic (Q); "
    "the float loop is tied by correspondence on every generated (n, m) only",
    "np.std is a square root: the model checks the implementation's value v satisfies v >= 0 and "
    "v^2 ~ population variance (witness check), it does not compute v",
    "cosine is not rational: the model is the degree-60 Taylor polynomial evaluated in Q (|x| <= 8), "
    "tied by correspondence; the theorem covers shape / pointwise application only",
    "Imputer method='nearest': ties (equidistant neighbours) resolve to the EARLIER neighbour as scipy's "
    "interp1d(kind='nearest') does; method='random' and 'forecaster' are outside the closed-form claim",
    "Imputer method='drift' (documented rule): trend fitted by OLS on the ffill/bfill-ed series, "
    "missing positions take the trend value (the proposed patch notes/C14-fix-2.diff)",
    "acf default n_lags=None is modelled as n-1 (statsmodels: min(int(10 log10 n), n-1), equal for "
    "n <= 11); fft=True computes the same function in floating point",
    "row transformers are exercised with test-double series transformers (affine, cumulative sum, "
    "reversal, weighted sum) defined in props/c14.py plus MeanTransformer; Imputer / "
    "TabularToSeriesAdaptor cannot be wrapped (they call pandas methods on the ndarray the row "
    "transformer passes) - noted, not asserted",
    "column names / indices of the outputs are not part of the model (positions only)",
]
NOT_RUNNABLE = []

QUARTERS = [-2.0, -1.0, -0.5, 0.0, 0.25, 0.5, 1.0, 1.5, 2.0, 3.0, 4.0, 5.0, 7.0, 9.0]


# ------------------------------------------------------------------------------------------------
# generators


def _vals(rng, n, mode=None):
    mode = mode or rng.choice(["int", "int", "quarter", "ramp"])
    if mode == "int":
        return [float(rng.randint(-4, 9)) for _ in range(n)]
    if mode == "ramp":
        a, b = rng.randint(-3, 3), rng.choice([-2, -1, 1, 2, 3])
        return [float(a + b * i + (1 if rng.random() < 0.2 else 0)) for i in range(n)]
    return [rng.choice(QUARTERS) for _ in range(n)]


def _panel(rng, shape="equal", n_inst=None, n_cols=None, nmin=1, nmax=9, n=None):
    """shape: equal (one length), rect (one length per column), unequal (any)."""
    n_inst = n_inst or rng.choice([1, 2, 2, 3])
    n_cols = n_cols or rng.choice([1, 1, 2])
    if shape == "equal":
        n = n or rng.randint(nmin, nmax)
        lens = [[n] * n_cols for _ in range(n_inst)]
    elif shape == "rect":
        per_col = [rng.randint(nmin, nmax) for _ in range(n_cols)]
        lens = [list(per_col) for _ in range(n_inst)]
    else:
        lens = [[rng.randint(nmin, nmax) for _ in range(n_cols)] for _ in range(n_inst)]
    return [[_vals(rng, ln) for ln in row] for row in lens]


def _lens(p):
    return [len(s) for row in p for s in row]


def _cells_kind(rng, p, allow_array=True, fit=None):
    equal = len(set(_lens(p))) == 1 and (fit is None or len(set(_lens(fit))) == 1)
    pool = ["series"] * 5 + (["array"] if allow_array else []) + (["np3d"] * 2 if equal else [])
    return rng.choice(pool)


def _gen_pad(rng):
    p = _panel(rng, rng.choice(["unequal", "unequal", "equal"]))
    fit = None if rng.random() < 0.7 else _panel(rng, "unequal", n_cols=len(p[0]))
    mx = max(_lens(fit or p))
    mxp = max(_lens(p))
    pl = rng.choice([None, None, None, mx, mxp, mxp + 1, mxp + 3, mxp - 1, min(_lens(p))])
    if pl is not None and pl < 1:
        pl = 1
    return {"kind": "pad", "cells": _cells_kind(rng, p, fit=fit), "fit": fit, "X": p, "pad_length": pl,
            "fill": rng.choice([0.0, 0.0, -1.0, 2.5, 7.0])}


def _gen_trunc(rng):
    p = _panel(rng, rng.choice(["unequal", "unequal", "equal"]), nmin=2)
    fit = None if rng.random() < 0.7 else _panel(rng, "unequal", n_cols=len(p[0]), nmin=2)
    mn = min(_lens(p))
    r = rng.random()
    if r < 0.4:
        lower, upper = None, None
    elif r < 0.6:
        lower, upper = rng.choice([mn, mn - 1, 1, mn + 1]), None
    else:
        lower = rng.randint(0, mn)
        upper = rng.choice([mn, mn, mn - 1, lower + 1, mn + 1, lower])
    return {"kind": "trunc", "cells": _cells_kind(rng, p, fit=fit), "fit": fit, "X": p, "lower": lower,
            "upper": upper}


def _gen_interp(rng):
    p = _panel(rng, rng.choice(["unequal", "equal", "unequal"]), nmin=1 if rng.random() < 0.1 else 2)
    lens = _lens(p)
    m = rng.choice([1, 2, 3, 4, 5, 6, 7, 8, 9, 11, 12, lens[0], lens[0], 2 * lens[0] - 1])
    return {"kind": "interp", "cells": _cells_kind(rng, p), "X": p, "length": max(1, m)}


def _gen_tab(rng, kind):
    shape = rng.choice(["equal", "rect", "rect", "unequal"])
    p = _panel(rng, shape, n_cols=rng.choice([1, 2, 2, 3]), nmax=6)
    return {"kind": kind, "cells": _cells_kind(rng, p), "X": p}


def _gen_paa(rng, n=None, m=None):
    n = n or rng.randint(1, 12)
    p = _panel(rng, "equal", n=n)
    if rng.random() < 0.15 and len(p[0]) == 2:
        n2 = rng.randint(n, 12)      # second column longer: every column is reduced on its own
        p = [[row[0], _vals(rng, n2)] for row in p]
    m = m or rng.choice(list(range(1, n + 1)) * 3 + [n + 1, n + 2])
    return {"kind": "paa", "cells": _cells_kind(rng, p), "X": p, "m": m}


def _gen_iseg(rng):
    n = rng.randint(2, 16)
    p = _panel(rng, "equal", n_cols=1, n=n)
    fit = None
    if rng.random() < 0.15:
        fit = _panel(rng, "equal", n_cols=1, n=rng.randint(2, 16))
    nf = len((fit or p)[0][0])
    if rng.random() < 0.6:
        k = rng.choice(list(range(1, nf // 2 + 1)) * 3 + [nf // 2 + 1, nf])
        return {"kind": "iseg", "mode": "int", "cells": _cells_kind(rng, p), "fit": fit, "X": p,
                "k": k}
    ivs = []
    for _ in range(rng.randint(1, 4)):
        a = rng.randint(0, n - 1)
        b = rng.randint(a + 1, n)
        ivs.append([a, b])
    return {"kind": "iseg", "mode": "arr", "cells": _cells_kind(rng, p), "fit": fit, "X": p,
            "ivs": ivs}


def _gen_slide(rng):
    n = rng.randint(1, 9)
    p = _panel(rng, "equal", n_cols=1, n=n)
    w = rng.choice(list(range(1, n + 3)) + [1, 2, 3, 4, 5])
    return {"kind": "slide", "cells": _cells_kind(rng, p), "X": p, "w": w}


GENS = [("pad", _gen_pad, 60), ("trunc", _gen_trunc, 60), ("interp", _gen_interp, 60),
        ("tab", lambda r: _gen_tab(r, "tab"), 40), ("concat", lambda r: _gen_tab(r, "concat"), 30),
        ("paa", _gen_paa, 90), ("iseg", _gen_iseg, 70), ("slide", _gen_slide, 60)]


def gen_cases(rng, tier):
    cases = []
    mult = 1 if tier == "quick" else 12
    for _, g, k in GENS:
        for _ in range(k * mult):
            cases.append(g(rng))
    if tier == "thorough":
        cases += exhaustive_cases()
    return cases


def exhaustive_cases():
    """n <= 9, every parameter value, fixed data (two instances, order-sensitive values)."""
    out = []

    def data(n, off=0):
        return [float((7 * i * i + 3 * i + off) % 11 - 3) for i in range(n)]
    for n in range(1, 10):
        p1 = [[data(n)], [data(n, 5)]]
        for m in range(1, n + 2):
            out.append({"kind": "paa", "cells": "series", "X": p1, "m": m})
        for w in range(1, n + 3):
            out.append({"kind": "slide", "cells": "series", "X": p1, "w": w})
        if n >= 2:
            for k in range(1, n // 2 + 2):
                out.append({"kind": "iseg", "mode": "int", "cells": "series", "fit": None, "X": p1,
                            "k": k})
            for m in range(1, 13):
                out.append({"kind": "interp", "cells": "series", "X": p1, "length": m})
        for n2 in range(1, 10):
            pu = [[data(n), data(n2, 2)], [data(n2, 1), data(n, 3)]]
            for pl in [None] + list(range(max(n, n2) - 1, max(n, n2) + 2)):
                if pl is None or pl >= 1:
                    out.append({"kind": "pad", "cells": "series", "fit": None, "X": pu,
                                "pad_length": pl, "fill": -1.0})
            mn = min(n, n2)
            out.append({"kind": "trunc", "cells": "series", "fit": None, "X": pu, "lower": None,
                        "upper": None})
            for lo in range(0, mn + 2):
                out.append({"kind": "trunc", "cells": "series", "fit": None, "X": pu, "lower": lo,
                            "upper": None})
                for up in range(lo, mn + 2):
                    out.append({"kind": "trunc", "cells": "series", "fit": None, "X": pu,
                                "lower": lo, "upper": up})
    return out


# ------------------------------------------------------------------------------------------------
# implementation side (runs in the driver subprocess)


def _mk_panel(p, cells):
    import numpy as np
    import pandas as pd
    if cells == "np3d":
        return np.array(p, dtype=float)
    d = {}
    for c in range(len(p[0])):
        if cells == "array":
            col = [np.array(row[c], dtype=float) for row in p]
        else:
            col = [pd.Series(row[c], dtype=float) for row in p]
        d["c%d" % c] = pd.Series(col, dtype=object)
    return pd.DataFrame(d)


def _canon_cell(x):
    import numpy as np
    from harness.core import float_ratio
    a = np.asarray(x, dtype=float).ravel()
    return [float_ratio(v) for v in a]


def _canon_panel(Xt):
    return [[_canon_cell(Xt.iloc[i, j]) for j in range(Xt.shape[1])] for i in range(Xt.shape[0])]


def _canon_rows(Xt):
    import numpy as np
    a = np.asarray(Xt, dtype=float)
    return [[_canon_cell(a[i])] for i in range(a.shape[0])]


ERRS = (ValueError, TypeError, IndexError, KeyError, NotImplementedError, AttributeError,
        ZeroDivisionError)


def run_impl(case):
    import numpy as np
    k = case["kind"]
    try:
        X = _mk_panel(case["X"], case.get("cells", "series")) if "X" in case else None
        Xfit = X
        if case.get("fit") is not None:
            Xfit = _mk_panel(case["fit"], case.get("cells", "series"))
        if k == "pad":
            from sktime.transformations.panel.padder import PaddingTransformer
            t = PaddingTransformer(pad_length=case["pad_length"], fill_value=case["fill"])
            return {"panel": _canon_panel(t.fit(Xfit).transform(X))}
        if k == "trunc":
            from sktime.transformations.panel.truncation import TruncationTransformer
            t = TruncationTransformer(lower=case["lower"], upper=case["upper"])
            return {"panel": _canon_panel(t.fit(Xfit).transform(X))}
        if k == "interp":
            from sktime.transformations.panel.interpolate import TSInterpolator
            t = TSInterpolator(case["length"])
            return {"panel": _canon_panel(t.fit(X).transform(X))}
        if k == "tab":
            from sktime.transformations.panel.reduce import Tabularizer
            return {"panel": _canon_rows(Tabularizer().fit(X).transform(X))}
        if k == "concat":
            from sktime.transformations.panel.compose import ColumnConcatenator
            return {"panel": _canon_panel(ColumnConcatenator().fit(X).transform(X))}
        if k == "paa":
            from sktime.transformations.panel.dictionary_based._paa import PAA
            return {"panel": _canon_panel(PAA(num_intervals=case["m"]).fit(X).transform(X))}
        if k == "iseg":
            from sktime.transformations.panel.segment import IntervalSegmenter
            iv = case["k"] if case["mode"] == "int" else np.array(case["ivs"])
            t = IntervalSegmenter(intervals=iv).fit(Xfit)
            return {"panel": _canon_panel(t.transform(X))}
        if k == "slide":
            from sktime.transformations.panel.segment import SlidingWindowSegmenter
            t = SlidingWindowSegmenter(window_length=case["w"])
            return {"panel": _canon_panel(t.fit(X).transform(X))}
        raise AssertionError("unknown kind " + k)
    except ERRS as e:
        return {"err": type(e).__name__}


# ------------------------------------------------------------------------------------------------
# oracle: the theorems' conclusions restated on the implementation's output (exact rationals)


def _fr(v):
    return Fr(v[0], v[1]) if isinstance(v, (list, tuple)) else Fr(v)


def _frp(p):
    return [[[Fr(x) for x in s] for s in row] for row in p]


def _close(a, b):
    return abs(a - b) <= Fr(1, 10 ** 9) * (1 + abs(b))


def _cmp_panel(tag, out, exp, exact=True):
    """row count, column count, cell length, cell values - in this order."""
    if "err" in out:
        return "%s-rejected-valid-input: %s" % (tag, out["err"])
    got = out["panel"]
    if len(got) != len(exp):
        return "%s-one-row-per-instance: %d rows for %d instances" % (tag, len(got), len(exp))
    for i, (gr, er) in enumerate(zip(got, exp)):
        if len(gr) != len(er):
            return "%s-column-count: instance %d has %d cells expected %d" % (
                tag, i, len(gr), len(er))
        for c, (gs, es) in enumerate(zip(gr, er)):
            if len(gs) != len(es):
                return "%s-cell-length: instance %d column %d has %d values expected %d" % (
                    tag, i, c, len(gs), len(es))
            for j, (g, e) in enumerate(zip(gs, es)):
                if g is None or isinstance(g, str):
                    return "%s-not-finite: instance %d column %d position %d" % (tag, i, c, j)
                g = _fr(g)
                if (g != e) if exact else (not _close(g, e)):
                    return "%s-cell-value: instance %d column %d position %d is %s expected %s" % (
                        tag, i, c, j, float(g), float(e))
    return None


def _expect_err(tag, out, why):
    if "err" in out:
        return None
    return "%s-accepted-infeasible-request: %s" % (tag, why)


def _rect(p):
    return all([len(s) for s in row] == [len(s) for s in p[0]] for row in p)


def paa_frames(s, m):
    """(1/L) * integral of the step function over [kL, (k+1)L), L = n/m."""
    n = len(s)
    L = Fr(n, m)
    out = []
    for k in range(m):
        a, b = k * L, (k + 1) * L
        tot = sum((x * max(Fr(0), min(Fr(t + 1), b) - max(Fr(t), a)) for t, x in enumerate(s)),
                  Fr(0))
        out.append(tot / L)
    return out


def interp_values(s, m):
    n = len(s)
    out = []
    for j in range(m):
        x = Fr(j * (n - 1), m - 1) if m > 1 else Fr(0)
        kk = min(x.numerator // x.denominator, n - 2)
        out.append(s[kk] + (x - kk) * (s[kk + 1] - s[kk]))
    return out


def split_bounds(n, k):
    """k consecutive half-open intervals tiling [0, n), sizes differing by at most one, the larger
    ones first (np.array_split)."""
    q, r = divmod(n, k)
    sizes = [q + 1] * r + [q] * (k - r)
    out, a = [], 0
    for z in sizes:
        out.append((a, a + z))
        a += z
    return out


def oracle(case, out):
    k = case["kind"]
    cells = case.get("cells", "series")
    if k in ("pad", "trunc", "interp") and cells == "array" and out.get("err") == "AttributeError":
        return "array-cells-rejected: %s on a nested frame with ndarray cells raises AttributeError" % k
    if out.get("err") in ("AttributeError", "KeyError", "ZeroDivisionError"):
        return "%s-unrelated-error: %s" % (k, out["err"])
    if "X" in case:
        p = _frp(case["X"])
        fit = _frp(case["fit"]) if case.get("fit") is not None else p
    if k == "pad":
        L = case["pad_length"] if case["pad_length"] is not None else max(_lens(fit))
        if max(_lens(p)) > L:
            return _expect_err(k, out, "series longer than pad length %d" % L)
        fill = Fr(case["fill"])
        exp = [[s + [fill] * (L - len(s)) for s in row] for row in p]
        return _cmp_panel(k, out, exp)
    if k == "trunc":
        lo = case["lower"] if case["lower"] is not None else min(_lens(fit))
        up = case["upper"]
        mn = min(_lens(p))
        if mn < lo:
            return _expect_err(k, out, "series shorter than lower bound %d" % lo)
        if up is None:
            exp = [[s[:lo] for s in row] for row in p]
        else:
            if lo < up and mn < up:
                return _expect_err(k, out, "series shorter than upper bound %d" % up)
            exp = [[s[lo:up] for s in row] for row in p]
        return _cmp_panel(k, out, exp)
    if k == "interp":
        if min(_lens(p)) < 2:
            return _expect_err(k, out, "a series with fewer than two points")
        exp = [[interp_values(s, case["length"]) for s in row] for row in p]
        return _cmp_panel(k, out, exp, exact=False)
    if k in ("tab", "concat"):
        if not _rect(p):
            return _expect_err(k, out, "columns of unequal length over the instances")
        exp = [[[x for s in row for x in s]] for row in p]
        return _cmp_panel(k, out, exp)
    if k == "paa":
        m = case["m"]
        if m > len(p[0][0]) or m < 1:
            return _expect_err(k, out, "more intervals than time points")
        exp = [[paa_frames(s, m) for s in row] for row in p]
        return _cmp_panel(k, out, exp, exact=False)
    if k == "iseg":
        n = len(fit[0][0])
        if case["mode"] == "int":
            kk = case["k"]
            if kk > n // 2:
                return _expect_err(k, out, "more intervals than half the time points")
            bs = split_bounds(n, kk)
        else:
            bs = [tuple(x) for x in case["ivs"]]
        exp = [[row[0][a:b] for a, b in bs] for row in p]
        f = _cmp_panel(k, out, exp)
        if f and case["mode"] == "int" and "panel" in out:
            drop = [[row[0][a:b - 1] for a, b in bs] for row in p]
            if _cmp_panel(k, out, drop) is None:
                return ("interval-drops-last-point: %d points / %d intervals: first cell has %d "
                        "values, the intervals do not tile the series" % (
                            len(p[0][0]), kk, len(out["panel"][0][0])))
        return f
    if k == "slide":
        w = case["w"]
        exp = []
        for row in p:
            s = row[0]
            n = len(s)
            exp.append([[s[min(max(i + j - w // 2, 0), n - 1)] for j in range(w)]
                        for i in range(n)])
        return _cmp_panel(k, out, exp)
    return "unknown-kind"


def nontrivial(case, out):
    if "err" in out:
        return False
    n = sum(len(c) for row in out.get("panel", []) for c in row)
    return n >= 2


def shrink(case):
    c = dict(case)
    if c.get("fit") is not None:
        d = dict(c)
        d["fit"] = None
        yield d
    if c.get("cells") != "series":
        d = dict(c)
        d["cells"] = "series"
        yield d
    X = c.get("X")
    if X:
        if len(X) > 1:
            for i in range(len(X)):
                d = dict(c)
                d["X"] = X[:i] + X[i + 1:]
                yield d
        if len(X[0]) > 1 and c["kind"] in ("pad", "trunc", "interp", "tab", "concat", "paa"):
            for j in range(len(X[0])):
                d = dict(c)
                d["X"] = [row[:j] + row[j + 1:] for row in X]
                if d.get("fit") is not None:
                    d["fit"] = [row[:j] + row[j + 1:] for row in d["fit"]]
                yield d
        if max(_lens(X)) > 1:
            d = dict(c)
            d["X"] = [[s[:-1] if len(s) > 1 else s for s in row] for row in X]
            yield d
        simple = [[[float(i + 1) for i, _ in enumerate(s)] for s in row] for row in X]
        if simple != X:
            d = dict(c)
            d["X"] = simple
            yield d
    for key in ("m", "w", "k", "length", "pad_length", "lower", "upper"):
        v = c.get(key)
        if isinstance(v, int) and v > 1:
            d = dict(c)
            d[key] = v - 1
            yield d


# ------------------------------------------------------------------------------------------------
# model side


CASES_HEADER = """From Coq Require Import QArith ZArith List Bool.
Require Import SkV.Lib.Base SkV.C14.Model SkV.C14.Cases.
Import ListNotations.
Open Scope Z_scope.
"""


def _cq(x):
    return cq(x) + "%Q"


def _cser(s):
    return clist([_cq(x) for x in s])


def _cpanel(p):
    return clist([clist([_cser(s) for s in row]) for row in p])


def _cout(out):
    if "err" in out:
        return "None"
    for row in out["panel"]:
        for s in row:
            for v in s:
                if v is None or isinstance(v, str):
                    return "None"
    return "(Some %s)" % _cpanel(out["panel"])


def _cfit(case):
    return _cpanel(case["fit"] if case.get("fit") is not None else case["X"])


def _civs(ivs):
    return clist(["(%s, %s)" % (cnat(a), cnat(b)) for a, b in ivs])


def coq_case(case, out):
    k = case["kind"]
    if k in ("pad", "trunc", "interp") and case.get("cells") == "array":
        return None
    o = _cout(out)
    X = _cpanel(case["X"]) if "X" in case else None
    if k == "pad":
        return "CPad %s %s %s %s %s" % (copt(case["pad_length"], cnat), _cq(case["fill"]),
                                       _cfit(case), X, o)
    if k == "trunc":
        return "CTrunc %s %s %s %s %s" % (copt(case["lower"], cnat), copt(case["upper"], cnat),
                                         _cfit(case), X, o)
    if k == "interp":
        return "CInterp %s %s %s" % (cnat(case["length"]), X, o)
    if k == "tab":
        return "CTab %s %s" % (X, o)
    if k == "concat":
        return "CConcat %s %s" % (X, o)
    if k == "paa":
        return "CPaa %s %s %s" % (cnat(case["m"]), X, o)
    if k == "iseg":
        if case["mode"] == "int":
            return "CISegInt %s %s %s %s" % (cnat(case["k"]), _cfit(case), X, o)
        return "CISegArr %s %s %s" % (_civs(case["ivs"]), X, o)
    if k == "slide":
        return "CSlide %s %s %s" % (cnat(case["w"]), X, o)
    return None


def coq_model_term(case):
    t = coq_case(case, {"err": "x"})
    return "model_says (%s)" % t if t else "tt"


def distribution(cases, results):
    import collections
    d = collections.Counter()
    for c, r in zip(cases, results):
        o = r.get("out") or {}
        d["%s:%s" % (c["kind"], "rejected" if "err" in o else "ok")] += 1
        d["cells:%s" % c.get("cells", "-")] += 1
        if c["kind"] == "paa" and "err" not in o:
            n = len(c["X"][0][0])
            d["paa:%s" % ("m-divides-n" if n % c["m"] == 0 else "fractional-frames")] += 1
        if c["kind"] in ("pad", "trunc", "interp") and "X" in c:
            d["%s:%s" % (c["kind"], "equal" if len(set(_lens(c["X"]))) == 1 else "unequal")] += 1
    return dict(d)


def extra_coverage(cases, results, tier):
    return {"exhaustive": False,
            "exhaustive_scope": ("n <= 9, every m / window / interval count / pad length / truncation "
                                 "range / target length on fixed data: %d cases, all enumerated"
                                 % len(exhaustive_cases())) if tier == "thorough" else "thorough only"}
