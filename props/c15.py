"""C15 - panel data container conversions are lossless and mutually consistent."""
import itertools

from harness.core import cbool, clist, copt, cz, czlist

ID = "C15"
MODEL_TARGETS = ["C15/Cases.vo"]
PROOF_TARGETS = ["C15/Lemmas.vo", "C15/Proofs.vo", "C15/Long.vo", "C15/Paths.vo", "C15/Main.vo", "C15/Layout.vo",
                 "C15/History.vo", "C15/Labels.vo", "C15/Refuted.vo", "C15/Prims.vo", "C15/Gen.vo", "C15/Bridge.vo", "C15/BridgeMI.vo", "C15/BridgeAll.vo"]
OBLIGATION_FILES = ["C15/Bridge.v", "C15/BridgeMI.v", "C15/Refuted.v"]
PROPS_FILE = "C15/Props.v"
SHARD = 120
RULE = ("every typed conversion path of length 1..3 over the five containers (nested / 3-D / "
        "multi-index / long / 2-D; 108 skeletons) instantiated with a random shape, a single-instance "
        "shape and a single-column shape (n<=3, c<=3, T in 2..4; thorough: every shape <= 3x3x4), "
        "distinct half-integer values, nested start frames whose cells are float64 throughout (half "
        "of them) or int64 / float64 per cell (integer first cell, integer first variable, integer "
        "first instance, all integer, float first, random; float cells then hold proper halves), "
        "str names from a pool with unsorted / prefix / non-ASCII / "
        "empty names and the labels the long table uses itself (index, time_index, column, value, "
        "case_id, ...) or int names, Series- or ndarray-valued cells, random optional arguments "
        "(column_names, cells_as_numpy - also out of a 2-D table -, return_numpy, index level "
        "names), shuffled long tables; check_X coercions on every container; nestedness predicates "
        "on frames mixing primitive, Series, ndarray and list cells; corpus: the six inputs of the "
        "three repaired defects. non-trivial = the path ran (or was rejected as expected) on a panel "
        "with >= 2 values, predicates: frame has both kinds of cells; distinct = distinct canonical "
        "JSON case")
TRUSTED = [
    "coq/C15/Prims.v: the reading of each numpy / pandas / Python primitive the conversion functions "
    "call (reshape, swapaxes, flatten, hstack, stack, X[i, j, :], df[col] = ..., iteritems, xs, "
    "unique / groupby(level), pivot, unstack, MultiIndex.from_product, concat, assign, ffill on a "
    "column without missing values, isinstance, applymap, any) as list functions; "
    "translator/panel_c15.py (python ast -> Gallina over these primitives, fail-closed) with its "
    "static typing of the Python values (which parameter is a nested frame / 3-D array / ...; "
    "isinstance, `is None` on arguments never passed, and .ndim tests decided from these types)",
    "check_X (sktime/utils/validation/panel.py) is a hand model, tied by the correspondence run only",
    "correspondence run: exact equality of the model's output container (values, order, names, cell "
    "kind, index keys) with the canonicalised output of the real functions on every generated case "
    "- this is also what validates the primitives of Prims.v, through the Bridge lemmas that equate "
    "the generated functions with the model",
    "canonicalisation in props/c15.py (DataFrame -> nested lists + column names + index lists); "
    "values are k/2 floats compared exactly as the integers k",
]
MODELLED = [
    "instance labels (row index of nested frames, instance level, case ids) are arbitrary distinct "
    "ints or strings; strings reach the Coq model through an order-preserving integer code (the "
    "conversions use labels only through equality and order); the time index inside Series cells "
    "is the default 0..T-1 (the oracle checks the outputs have exactly this); the Bridge lemmas of "
    "the regenerated functions are stated for frames with the default row index",
    "multi-index level names, 2-D DataFrame column labels (f'{col}__{t}') and long-table column "
    "labels are checked by the Python oracle only, they are not part of the Coq containers; the "
    "statements that only compute such labels are skipped by the translator and listed in the "
    "header of build/coq/C15/Gen.v",
    "from_nested_to_3d_numpy / from_nested_to_multi_index with primitive (non-series) columns "
    "(ffill branch: translated, but the Bridge lemmas cover all-nested frames, where it is not "
    "taken) and unequal-length series are outside the property",
    "column names must be distinct (and all str or all int): duplicate labels are not modelled",
    "from_nested_to_2d_array: the `except KeyError` path (1x1 frame with a 1-point series whose "
    "index does not start at 0) and the pd.Series input branch are not modelled",
]
NOT_RUNNABLE = []


def translate(repo):
    """build/coq/C15/Gen.v: the conversion functions regenerated from data_processing.py"""
    from translator.panel_c15 import translate as tr
    return tr(repo)


# ------------------------------------------------------------------------------------------------
# typed graph of conversions

SRC = {"N>A": "N", "A>N": "A", "A>M": "A", "M>A": "M", "N>M": "N", "M>N": "M", "N>L": "N",
       "L>N": "L", "N>T": "N", "A>T": "A", "T>N": "T"}
DST = {e: e[-1] for e in SRC}
OUT_EDGES = {t: [e for e in SRC if SRC[e] == t] for t in "NAMLT"}

NAME_POOL = ["a", "b", "zz", "B", "_", "dim_0", "var_1", "var_10", "var_2", "x y", "é", "",
             "0", "A1", "column", "instance", "timepoints", "ab", "abc", "Z",
             "index", "time_index", "value", "case_id", "reading_id", "dim_id"]
# labels from_nested_to_long uses for its own columns: legal names of data columns all the same
RESERVED = ["index", "time_index", "value", "column"]
LONG_COLS = ["case_id", "reading_id", "dim_id", "value"]


def skeletons(maxlen=3):
    out = []

    def rec(tag, acc):
        if acc:
            out.append(list(acc))
        if len(acc) == maxlen:
            return
        for e in OUT_EDGES[tag]:
            rec(DST[e], acc + [e])
    for t in "NAMLT":
        rec(t, [])
    return out


def _names(rng, c, mode=None):
    mode = mode or rng.choice(["str", "str", "str", "int", "default", "sorted"])
    if mode == "int":
        return rng.sample(range(0, 13), c)
    if mode == "default":
        return ["var_%d" % i for i in range(c)]
    if mode == "sorted":
        return sorted(rng.sample(NAME_POOL, c))
    return rng.sample(NAME_POOL, c)


def _edge(rng, e, c):
    d = {"e": e}
    if e in ("A>N", "A>M", "L>N"):
        d["cn"] = _names(rng, c, rng.choice(["str", "int"])) if rng.random() < 0.45 else None
    if e in ("A>N", "M>N", "T>N"):
        d["np"] = rng.random() < 0.4
    if e == "N>T":
        d["np"] = rng.random() < 0.4
    if e in ("A>M", "N>M"):
        d["ii"] = rng.choice([None, None, "case"])
        d["ti"] = rng.choice([None, None, "t"])
    return d


LABEL_POOL = ["b", "a", "zz", "B", "_", "a1", "ab", "", "10", "9", "é", "inst 3"]


def _ilabels(rng, n, mode=None):
    """instance labels: None = the default 0..n-1; else n distinct labels (row index of a nested
    frame, level 0 of a multi-index frame, case ids of a long table)"""
    mode = mode or rng.choice(["default", "default", "perm", "ints", "strs", "ascending"])
    if mode == "default":
        return None
    if mode == "perm":
        lab = list(range(n))
        rng.shuffle(lab)
        if n > 1 and lab == sorted(lab):
            lab.reverse()
        return lab
    if mode == "ints":
        return rng.sample(range(-9, 40), n)
    if mode == "ascending":
        return sorted(rng.sample(range(-9, 40), n))
    return rng.sample(LABEL_POOL, n)


def _lab(case):
    return case.get("labels") or list(range(case["n"]))


def _dtypes(rng, n, c, mode=None):
    """storage dtype of every cell of a nested start frame: None = float64 everywhere (the usual
    case); else an n x c grid of "f" (float64) / "i" (int64).  The conversions must not care: a
    cell of integer dtype holds the same VALUES as the float cell with the same numbers."""
    mode = mode or rng.choice(["float"] * 8 + ["first-int", "first-int", "col0-int", "col0-int",
                                               "row0-int", "random", "all-int", "first-float"])
    if mode == "float":
        return None
    if mode == "all-int":
        return [["i"] * c for _ in range(n)]
    if mode == "col0-int":          # an integer-valued first variable beside real-valued ones
        g = [["i"] + ["f"] * (c - 1) for _ in range(n)]
    elif mode == "row0-int":        # the first instance integer typed, the later ones float
        g = [["i"] * c] + [["f"] * c for _ in range(n - 1)]
    elif mode == "first-float":     # the wider dtype first, narrower ones later
        g = [[rng.choice("if") for _ in range(c)] for _ in range(n)]
        g[0][0] = "f"
    else:                           # first-int / random
        g = [[rng.choice("if") for _ in range(c)] for _ in range(n)]
        if mode == "first-int":
            g[0][0] = "i"
    return g


def _apply_dtypes(case, dt):
    """store the grid and make the values fit it (a stored k stands for the value k/2): k -> 2k,
    a whole number, in "i" cells; k -> 2k+1, always a proper half, in "f" cells - so a conversion
    that squeezes a float cell into an integer container is seen; all values stay distinct"""
    if dt is None:
        return case
    case["dt"] = dt
    case["data"] = [[[2 * v if dt[i][j] == "i" else 2 * v + 1 for v in s]
                     for j, s in enumerate(inst)] for i, inst in enumerate(case["data"])]
    return case


def _mk_case(rng, start, skel, n, c, T, cx=None):
    vals = rng.sample(range(-30, 170), n * c * T)
    data = [[[vals[(i * c + j) * T + t] for t in range(T)] for j in range(c)] for i in range(n)]
    case = {"kind": "path", "start": start, "n": n, "c": c, "T": T, "data": data}
    if start in ("N", "M", "L"):
        case["names"] = _names(rng, c)
    if start == "N":
        case["cells"] = rng.choice(["S", "S", "A"])
        _apply_dtypes(case, _dtypes(rng, n, c))
    if start == "M":
        case["levels"] = rng.choice([["instances", "timepoints"], ["inst", "tp"]])
    if start == "L":
        case["shuffle"] = rng.choice([None, None, rng.randint(1, 10 ** 6)])
    if start in ("N", "M", "L"):
        lab = _ilabels(rng, n)
        if lab is not None:
            # a shuffled long table has no order of appearance: its instances are ordered by id
            case["labels"] = sorted(lab) if case.get("shuffle") else lab
    if start == "T":
        case["tdf"] = rng.random() < 0.5
    path = []
    cc = 1 if start == "T" else c
    for e in skel:
        if e == "CX":
            path.append(dict(cx))
            continue
        path.append(_edge(rng, e, cc))
        if DST[e] == "T":
            cc = 1
    case["path"] = path
    return case


def _shape(rng, how):
    n, c, T = rng.randint(1, 3), rng.randint(1, 3), rng.randint(2, 4)
    if how == "n1":
        n = 1
    elif how == "c1":
        c = 1
    elif how == "min":
        n, c, T = 1, 1, 2
    return n, c, T


def gen_cases(rng, tier):
    cases = []
    sk = skeletons()
    if tier == "quick":
        for s in sk:
            for how in ("any", "n1", "c1"):
                cases.append(_mk_case(rng, SRC[s[0]], s, *_shape(rng, how)))
        for s in rng.sample(sk, 12):
            cases.append(_mk_case(rng, SRC[s[0]], s, 1, 1, 2))
    else:
        for s in sk:
            for n, c, T in itertools.product((1, 2, 3), (1, 2, 3), (2, 3, 4)):
                cases.append(_mk_case(rng, SRC[s[0]], s, n, c, T))
    # check_X coercions: on each container, alone and inside paths
    for start in "NANAMLT":
        for np_, pd_ in ((True, False), (False, True), (False, False), (True, True)):
            cx = {"e": "CX", "np": np_, "pd": pd_}
            n, c, T = _shape(rng, rng.choice(["any", "n1", "c1"]))
            cases.append(_mk_case(rng, start, ["CX"], n, c, T, cx))
    for _ in range(24 if tier == "quick" else 200):
        start = rng.choice("NA")
        np_, pd_ = rng.choice([(True, False), (False, True), (False, False)])
        cx = {"e": "CX", "np": np_, "pd": pd_}
        mid = "A" if (start == "N" and np_) or (start == "A" and not pd_) else "N"
        tail = rng.choice([s for s in sk if SRC[s[0]] == mid and len(s) <= 2])
        lead = []
        if rng.random() < 0.4:
            lead = [rng.choice([e for e in SRC if DST[e] == start and SRC[e] in "NAM"])]
        s0 = SRC[lead[0]] if lead else start
        cases.append(_mk_case(rng, s0, lead + ["CX"] + tail, *_shape(rng, "any"), cx=cx))
    # default names with >= 11 columns sort as var_0, var_1, var_10, var_2, ... in the long table
    for cells in ("S", "A"):
        c = 11
        data = [[[(j * 2 + t) * 3 - 7 for t in range(2)] for j in range(c)]]
        cases.append({"kind": "path", "start": "N", "n": 1, "c": c, "T": 2, "data": data,
                      "names": ["var_%d" % i for i in range(c)], "cells": cells,
                      "path": [{"e": "N>L"}, {"e": "L>N", "cn": None}]})
    # names that coincide with the labels from_nested_to_long gives its own columns
    for r in RESERVED:
        c = rng.randint(1, 3)
        nm = [x for x in _names(rng, c + 1, "str") if x != r][:c]
        nm[rng.randrange(c)] = r
        cs = _mk_case(rng, "N", rng.choice([["N>L"], ["N>L", "L>N"]]), rng.randint(1, 2), c, 2)
        cs["names"] = nm
        if len(cs["path"]) == 2:
            cs["path"][1]["cn"] = None
        cases.append(cs)
    # cells that do not share one dtype, the FIRST cell holding the narrower one: an integer first
    # variable beside real-valued ones, and a univariate panel whose first series is integer typed
    for cells in ("S", "A"):
        for mode in ("col0-int", "row0-int"):
            for skel, np_ in ((["N>T"], False), (["N>T"], True), (["N>T", "T>N"], True),
                              (["N>A", "A>T"], None), (["N>A"], None), (["N>M", "M>N"], None)):
                n, c = (rng.randint(1, 3), rng.randint(2, 3)) if mode == "col0-int" else \
                    (rng.randint(2, 3), rng.randint(1, 2))
                cs = _mk_case(rng, "N", skel, n, c, rng.randint(2, 3))
                cs["cells"] = cells
                cs["data"] = [[[v // 2 for v in s_] for s_ in inst] for inst in cs["data"]] \
                    if cs.get("dt") else cs["data"]
                cs.pop("dt", None)
                _apply_dtypes(cs, _dtypes(rng, n, c, mode))
                if np_ is not None:
                    cs["path"][0]["np"] = np_
                cases.append(cs)
    # cells_as_numpy=True out of a 2-D table
    for _ in range(3):
        n, T = rng.randint(1, 3), rng.randint(2, 4)
        cs = _mk_case(rng, "T", ["T>N"], n, 1, T)
        cs["path"][0]["np"] = True
        cases.append(cs)
    # nestedness predicates
    for _ in range(50 if tier == "quick" else 400):
        nr, nc = rng.randint(1, 3), rng.randint(1, 3)
        w = rng.choice([["P"], ["P", "P", "S"], ["P", "A"], ["P", "S", "A", "O"], ["S", "A"],
                        ["P", "O"], ["P", "P", "P", "P", "S"]])
        cases.append({"kind": "pred", "ncol": nc,
                      "grid": [[rng.choice(w) for _ in range(nc)] for _ in range(nr)]})
    for what in ("ndarray3", "ndarray2", "nested_series", "list", "none"):
        cases.append({"kind": "pred_nonframe", "what": what})
    return cases


# ------------------------------------------------------------------------------------------------
# implementation side (runs in the driver subprocess)


def _enc(v):
    f = float(v) * 2.0
    if f == f and abs(f) < 1e15 and f == int(f):
        return int(f)
    return "x:%r" % float(v)


def _name_out(x):
    import numpy as np
    if isinstance(x, str):
        return x
    if isinstance(x, (bool, np.bool_)):
        return "?bool:%r" % (x,)
    if isinstance(x, (int, np.integer)):
        return int(x)
    return "?%s:%r" % (type(x).__name__, x)


def _labels(idx):
    return [_name_out(x) for x in idx]


def _build_start(case):
    import numpy as np
    import pandas as pd
    data = case["data"]
    n, c, T = case["n"], case["c"], case["T"]
    arr = np.array(data, dtype=float) / 2.0
    st = case["start"]
    if st == "A":
        return arr
    if st == "N":
        mk = (lambda v: np.array(v)) if case["cells"] == "A" else (lambda v: pd.Series(v))
        dt = case.get("dt")

        def cell(i, j):
            if dt is not None and dt[i][j] == "i":
                v = np.array([k // 2 for k in data[i][j]], dtype="int64")
                assert [2 * int(x) for x in v] == list(data[i][j]), "harness error: int cell"
                return v
            return arr[i, j, :].copy()
        cols = [pd.Series([mk(cell(i, j)) for i in range(n)], dtype=object)
                for j in range(c)]
        df = pd.concat(cols, axis=1)
        df.columns = case["names"]
        if case.get("labels"):
            df.index = list(case["labels"])
        return df
    if st == "M":
        idx = pd.MultiIndex.from_product([_lab(case), range(T)], names=case["levels"])
        rows = [[arr[i, j, t] for j in range(c)] for i in range(n) for t in range(T)]
        return pd.DataFrame(rows, index=idx, columns=case["names"])
    if st == "L":
        lab = _lab(case)
        rows = [(lab[i], case["names"][j], t, arr[i, j, t])
                for j in range(c) for i in range(n) for t in range(T)]
        if case.get("shuffle"):
            import random
            random.Random(case["shuffle"]).shuffle(rows)
        return pd.DataFrame(rows, columns=["case_id", "dim_id", "reading_id", "value"])
    if st == "T":
        flat = arr.reshape(n, c * T)
        return pd.DataFrame(flat) if case.get("tdf") else flat
    raise AssertionError(st)


def _canon(obj, tag):
    """Canonical JSON form of a container, read off with plain pandas/numpy accessors."""
    import numpy as np
    import pandas as pd
    if tag == "A":
        if not (isinstance(obj, np.ndarray) and obj.ndim == 3):
            return {"rep": "?", "type": type(obj).__name__, "ndim": getattr(obj, "ndim", None)}
        return {"rep": "A", "data": [[[_enc(v) for v in s] for s in inst] for inst in obj.tolist()]}
    if tag == "T":
        if isinstance(obj, np.ndarray) and obj.ndim == 2:
            return {"rep": "T", "labels": None, "index": None,
                    "rows": [[_enc(v) for v in r] for r in obj.tolist()]}
        if isinstance(obj, pd.DataFrame) and obj.index.nlevels == 1:
            return {"rep": "T", "labels": _labels(obj.columns), "index": _labels(obj.index),
                    "rows": [[_enc(v) for v in r] for r in obj.to_numpy().tolist()]}
        return {"rep": "?", "type": type(obj).__name__, "ndim": getattr(obj, "ndim", None)}
    if not isinstance(obj, pd.DataFrame):
        return {"rep": "?", "type": type(obj).__name__}
    if tag == "M":
        if obj.index.nlevels != 2:
            return {"rep": "?", "type": "DataFrame", "nlevels": obj.index.nlevels}
        return {"rep": "M", "cols": _labels(obj.columns), "levels": _labels(obj.index.names),
                "keys": [[_name_out(a), int(b)] for a, b in obj.index.tolist()],
                "rows": [[_enc(v) for v in r] for r in obj.to_numpy().tolist()]}
    if tag == "L":
        cols = _labels(obj.columns)
        if sorted(map(str, cols)) != sorted(LONG_COLS):
            return {"rep": "?", "type": "DataFrame", "columns": cols}
        return {"rep": "L", "columns": cols,
                "index_ok": list(obj.index) == list(range(len(obj))),
                "rows": [[_name_out(a), _name_out(b), int(c_), _enc(v)] for a, b, c_, v in zip(
                    obj["case_id"].tolist(), obj["dim_id"].tolist(), obj["reading_id"].tolist(),
                    obj["value"].tolist())]}
    if tag == "N":
        kinds = set()
        tindex_ok = True
        rows = []
        for i in range(obj.shape[0]):
            row = []
            for j in range(obj.shape[1]):
                cell = obj.iat[i, j]
                if isinstance(cell, pd.Series):
                    kinds.add("S")
                    tindex_ok = tindex_ok and list(cell.index) == list(range(len(cell)))
                    row.append([_enc(v) for v in cell.to_numpy().tolist()])
                elif isinstance(cell, np.ndarray) and cell.ndim == 1:
                    kinds.add("A")
                    row.append([_enc(v) for v in cell.tolist()])
                else:
                    kinds.add("P")
                    row.append(["x:%s" % type(cell).__name__])
            rows.append(row)
        return {"rep": "N", "cols": _labels(obj.columns),
                "kind": kinds.pop() if len(kinds) == 1 else "mixed:" + "".join(sorted(kinds)),
                "index": _labels(obj.index) if obj.index.nlevels == 1 else ["?multi"],
                "tindex_ok": tindex_ok, "rows": rows}
    raise AssertionError(tag)


def _cn(edge, c):
    cn = edge.get("cn")
    return None if cn is None else list(cn)[:c] if len(cn) >= c else list(cn)


def _apply(edge, obj, tag):
    from sktime.utils import data_processing as dp
    from sktime.utils.validation.panel import check_X
    import numpy as np
    e = edge["e"]
    if e == "CX":
        r = check_X(obj, coerce_to_numpy=edge["np"], coerce_to_pandas=edge["pd"])
        return r, ("A" if isinstance(r, np.ndarray) else "N")
    if e == "N>A":
        return dp.from_nested_to_3d_numpy(obj), "A"
    if e == "A>N":
        return dp.from_3d_numpy_to_nested(obj, column_names=_cn(edge, obj.shape[1]),
                                          cells_as_numpy=edge["np"]), "N"
    if e == "A>M":
        return dp.from_3d_numpy_to_multi_index(obj, instance_index=edge.get("ii"),
                                               time_index=edge.get("ti"),
                                               column_names=_cn(edge, obj.shape[1])), "M"
    if e == "M>A":
        a, b = obj.index.names
        return dp.from_multi_index_to_3d_numpy(obj, instance_index=a, time_index=b), "A"
    if e == "N>M":
        return dp.from_nested_to_multi_index(obj, instance_index=edge.get("ii"),
                                             time_index=edge.get("ti")), "M"
    if e == "M>N":
        return dp.from_multi_index_to_nested(obj, instance_index=obj.index.names[0],
                                             cells_as_numpy=edge["np"]), "N"
    if e == "N>L":
        return dp.from_nested_to_long(obj, "case_id", "reading_id", "dim_id"), "L"
    if e == "L>N":
        cn = edge.get("cn")
        return dp.from_long_to_nested(obj, column_names=None if cn is None else list(cn)), "N"
    if e == "N>T":
        return dp.from_nested_to_2d_array(obj, return_numpy=edge["np"]), "T"
    if e == "A>T":
        return dp.from_3d_numpy_to_2d_array(obj), "T"
    if e == "T>N":
        return dp.from_2d_array_to_nested(obj, cells_as_numpy=bool(edge.get("np"))), "N"
    raise AssertionError(e)


def run_impl(case):
    import numpy as np
    import pandas as pd
    k = case["kind"]
    if k == "path":
        obj = _build_start(case)
        tag = case["start"]
        for pos, edge in enumerate(case["path"]):
            try:
                obj, tag = _apply(edge, obj, tag)
            except (ValueError, TypeError, KeyError, IndexError, AssertionError,
                    AttributeError) as ex:
                return {"err": type(ex).__name__, "at": pos, "msg": str(ex)[:160]}
        return _canon(obj, tag)
    if k == "pred":
        from sktime.utils.data_processing import are_columns_nested, is_nested_dataframe
        mk = {"P": lambda: 1.5, "S": lambda: pd.Series([1.0, 2.0]),
              "A": lambda: np.array([1.0, 2.0]), "O": lambda: [1.0, 2.0]}
        grid = case["grid"]
        cols = []
        for j in range(case["ncol"]):
            s = pd.Series([None] * len(grid), dtype=object)
            for i in range(len(grid)):
                s.iat[i] = mk[grid[i][j]]()
            cols.append(s)
        df = pd.concat(cols, axis=1)
        df.columns = ["c%d" % j for j in range(case["ncol"])]
        got = [[("S" if isinstance(df.iat[i, j], pd.Series) else
                 "A" if isinstance(df.iat[i, j], np.ndarray) else
                 "O" if isinstance(df.iat[i, j], list) else "P")
                for j in range(df.shape[1])] for i in range(df.shape[0])]
        assert got == grid, "harness error: frame not built as specified %r" % (got,)
        return {"is_nested": bool(is_nested_dataframe(df)),
                "cols": [bool(b) for b in are_columns_nested(df)]}
    if k == "pred_nonframe":
        from sktime.utils.data_processing import is_nested_dataframe
        x = {"ndarray3": np.zeros((2, 2, 2)), "ndarray2": np.zeros((2, 2)),
             "nested_series": pd.Series([pd.Series([1.0, 2.0])]), "list": [[1.0]],
             "none": None}[case["what"]]
        return {"is_nested": bool(is_nested_dataframe(x))}
    raise AssertionError(k)


# ------------------------------------------------------------------------------------------------
# oracle: the theorems' conclusions (conversion = rendering of the canonical panel, names carried
# exactly by name-carrying containers, long table orders variables by identifier), in Python


def _default_names(c):
    return ["var_%d" % i for i in range(c)]


def _simulate(case, long_sorts_instances=False):
    """Expected final container at the level of the canonical panel (names or None, data, and
    the instance labels: carried by nested -> multi-index / long / 2-D DataFrame, reset to 0..n-1
    by every conversion that builds a new nested frame or an array).  Instances keep their
    POSITION through every conversion; with long_sorts_instances the long -> nested step instead
    orders them by case id (what the pivot does: open finding F-C15-4)."""
    data = [[list(s) for s in inst] for inst in case["data"]]
    tag = case["start"]
    names = list(case["names"]) if "names" in case else None
    st = {"kind": case.get("cells", "S"), "levels": case.get("levels"), "labels": None}
    ilab = list(case["labels"]) if case.get("labels") and tag in "NML" else None
    tindex = None
    if tag == "T":
        data = [[sum(inst, [])] for inst in data]
        st["labels"] = list(range(len(data[0][0]))) if case.get("tdf") else None
        tindex = list(range(len(data))) if case.get("tdf") else None
    for pos, edge in enumerate(case["path"]):
        e = edge["e"]
        c = len(data[0])
        if e == "CX":
            if (edge["np"] and edge["pd"]) or tag not in "NA":
                return {"err": "ValueError", "at": pos}
            if tag == "N" and edge["np"]:
                tag, names, ilab = "A", None, None
            elif tag == "A" and edge["pd"]:
                tag, names, st["kind"] = "N", _default_names(c), "S"
            continue
        assert SRC[e] == tag, "ill-typed path"
        if e in ("N>A", "M>A"):
            names = None
            ilab = None
        elif e in ("A>N", "A>M"):
            cn = _cn(edge, c)
            names = cn if cn is not None else _default_names(c)
            if e == "A>N":
                st["kind"] = "A" if edge["np"] else "S"
            else:
                st["levels"] = [edge.get("ii") or "instances", edge.get("ti") or "timepoints"]
        elif e == "N>M":
            st["levels"] = [edge.get("ii") or "instance", edge.get("ti") or "timepoints"]
        elif e == "M>N":
            st["kind"] = "A" if edge["np"] else "S"
            ilab = None
        elif e == "L>N":
            if long_sorts_instances and ilab is not None:
                data = [data[i] for i in sorted(range(len(data)), key=lambda i: ilab[i])]
            ilab = None
            order = sorted(range(c), key=lambda j: names[j])
            data = [[inst[j] for j in order] for inst in data]
            cn = edge.get("cn")
            # the identifiers the long table carries come back (sorted) unless column_names is given
            names = list(cn) if cn is not None else [names[j] for j in order]
            st["kind"] = "S"
        elif e in ("N>T", "A>T"):
            T = len(data[0][0])
            if e == "N>T" and not edge["np"]:
                st["labels"] = ["%s__%d" % (nm, t) for nm in names for t in range(T)]
                tindex = ilab if ilab is not None else list(range(len(data)))
            else:
                st["labels"] = None
                tindex = None
            data = [[sum(inst, [])] for inst in data]
            names = None
            ilab = None
        elif e == "T>N":
            names = [0]
            st["kind"] = "A" if edge.get("np") else "S"
            tindex = None
        tag = DST[e]
    n, c, T = len(data), len(data[0]), len(data[0][0])
    lab = ilab if ilab is not None else list(range(n))
    if tag == "N":
        return {"rep": "N", "cols": names, "kind": st["kind"], "rows": data, "index": lab}
    if tag == "A":
        return {"rep": "A", "data": data}
    if tag == "M":
        return {"rep": "M", "cols": names, "levels": st["levels"],
                "keys": [[lab[i], t] for i in range(n) for t in range(T)],
                "rows": [[data[i][j][t] for j in range(c)] for i in range(n) for t in range(T)]}
    if tag == "L":
        return {"rep": "L", "rows": [[lab[i], names[j], t, data[i][j][t]]
                                     for j in range(c) for i in range(n) for t in range(T)]}
    return {"rep": "T", "labels": st["labels"], "index": tindex,
            "rows": [inst[0] for inst in data]}


def _panel_of(o):
    """(n, c, T)-indexed values of a canonical container, or None if it is not rectangular."""
    try:
        if o["rep"] == "N":
            return o["rows"]
        if o["rep"] == "A":
            return o["data"]
        if o["rep"] == "T":
            return [[r] for r in o["rows"]]
    except Exception:
        return None
    return None


def _diff(exp, out, what):
    """First aspect in which the produced container departs from the expected one."""
    if out.get("rep") != exp["rep"]:
        return "wrong-container: %s expected %s got %s" % (what, exp["rep"], out)
    r = exp["rep"]

    def shape(x):
        s = []
        while isinstance(x, list):
            s.append(len(x))
            x = x[0] if x else None
        return s
    key = {"N": "rows", "A": "data", "M": "rows", "L": "rows", "T": "rows"}[r]
    ev, ov = exp[key], out[key]
    if any(isinstance(v, str) and v.startswith("x:") for v in _flat(ov)) and r != "L":
        return "values-changed: %s produced non-representable values %s" % (what, ov)
    if shape(ev) != shape(ov):
        return "shape-changed: %s expected %s got %s" % (what, shape(ev), shape(ov))
    if ev != ov:
        pe, po = _panel_of(exp), _panel_of(out)
        why = "values-changed"
        if pe is not None and po is not None:
            if sorted(map(repr, pe)) == sorted(map(repr, po)):
                why = "instance-order-changed"
            elif all(sorted(map(repr, a)) == sorted(map(repr, b)) for a, b in zip(pe, po)):
                why = "variable-order-changed"
            elif all(sorted(s) == sorted(u) for a, b in zip(pe, po) for s, u in zip(a, b)):
                why = "time-order-changed"
        elif sorted(_flat(ev), key=repr) == sorted(_flat(ov), key=repr):
            why = "order-changed"
        return "%s: %s expected %s got %s" % (why, what, ev, ov)
    if r in ("N", "M") and exp["cols"] != out["cols"]:
        return "column-names-changed: %s expected %s got %s" % (what, exp["cols"], out["cols"])
    if r == "N":
        if exp["kind"] != out["kind"]:
            return "cell-kind-changed: %s expected %s got %s" % (what, exp["kind"], out["kind"])
        if exp["index"] != out["index"]:
            return "instance-labels-changed: %s expected row index %s got %s" % (
                what, exp["index"], out["index"])
        if not out["tindex_ok"]:
            return "time-index-changed: %s a Series cell is not indexed 0..T-1" % what
    if r == "M":
        if exp["keys"] != out["keys"]:
            return "index-keys-changed: %s expected %s got %s" % (what, exp["keys"], out["keys"])
        if exp["levels"] is not None and exp["levels"] != out["levels"]:
            return "index-level-names-changed: %s expected %s got %s" % (
                what, exp["levels"], out["levels"])
    if r == "L":
        if out["columns"] != LONG_COLS:
            return "long-columns-changed: %s got %s" % (what, out["columns"])
        if not out["index_ok"]:
            return "long-index-changed: %s" % what
    if r == "T":
        if exp["labels"] != out["labels"]:
            return "table-labels-changed: %s expected %s got %s" % (
                what, exp["labels"], out["labels"])
        if exp["index"] != out["index"]:
            return "instance-labels-changed: %s expected row index %s got %s" % (
                what, exp["index"], out["index"])
    return None


def _flat(x):
    if isinstance(x, list):
        for y in x:
            for z in _flat(y):
                yield z
    else:
        yield x


def _what(case):
    return "%s%s" % (case["start"], "".join(
        " " + e["e"] + ("(np)" if e.get("np") and e["e"] != "CX" else "")
        + ("(%s%s)" % ("np" if e["np"] else "", "pd" if e["pd"] else "") if e["e"] == "CX" else "")
        for e in case["path"]))


def oracle(case, out):
    k = case["kind"]
    if k == "pred":
        grid = case["grid"]
        want_cols = [any(row[j] in "SA" for row in grid) for j in range(case["ncol"])]
        if out["cols"] != want_cols:
            return "columns-nested-predicate: grid %s expected %s got %s" % (
                grid, want_cols, out["cols"])
        if out["is_nested"] != any(want_cols):
            return "nested-predicate: grid %s expected %s got %s" % (
                grid, any(want_cols), out["is_nested"])
        return None
    if k == "pred_nonframe":
        return "nested-predicate: %s is not a DataFrame but reported nested" % case["what"] \
            if out["is_nested"] else None
    what = _what(case)
    exp = _simulate(case)
    if "err" in exp:
        if out.get("err") == exp["err"] and out.get("at") == exp["at"]:
            return None
        return "invalid-input-accepted: %s expected %s got %s" % (what, exp["err"], out)
    if "err" in out:
        # the clause names the conversion that raised, so that different conversions failing
        # are reported separately
        return "conversion-raised(%s): %s step %d %s: %s" % (
            case["path"][out["at"]]["e"], what, out["at"], out["err"], out["msg"])
    f = _diff(exp, out, what)
    if f and case.get("labels") and any(e["e"] == "L>N" for e in case["path"]) \
            and _diff(_simulate(case, long_sorts_instances=True), out, what) is None:
        # everything else as expected: only the instances come back in case-id order instead of
        # their original order (finding F-C15-4); any other departure keeps its own clause
        return ("instance-order-changed-through-long: %s instance labels %s: instances returned "
                "in the order of their sorted labels (%s)" % (what, case["labels"], f[:160]))
    return f


def nontrivial(case, out):
    if case["kind"] == "pred":
        cells = [x for r in case["grid"] for x in r]
        return any(x in "SA" for x in cells) and any(x in "PO" for x in cells)
    if case["kind"] == "pred_nonframe":
        return True
    return case["n"] * case["c"] * case["T"] >= 2


def _trim(case, n, c, T):
    d = dict(case)
    d["n"], d["c"], d["T"] = n, c, T
    d["data"] = [[s[:T] for s in inst[:c]] for inst in case["data"][:n]]
    if "names" in d:
        d["names"] = d["names"][:c]
    if d.get("labels"):
        d["labels"] = d["labels"][:n]
    if d.get("dt"):
        d["dt"] = [r[:c] for r in d["dt"][:n]]
    d["path"] = [dict(e, cn=e["cn"][:c]) if e.get("cn") else dict(e) for e in case["path"]]
    return d


def shrink(case):
    if case["kind"] == "pred":
        g = case["grid"]
        if len(g) > 1:
            for i in range(len(g)):
                yield dict(case, grid=g[:i] + g[i + 1:])
        if case["ncol"] > 1:
            for j in range(case["ncol"]):
                yield dict(case, ncol=case["ncol"] - 1, grid=[r[:j] + r[j + 1:] for r in g])
        return
    if case["kind"] != "path":
        return
    n, c, T = case["n"], case["c"], case["T"]
    if len(case["path"]) > 1:
        yield dict(case, path=case["path"][:-1])
    if n > 1:
        yield _trim(case, n - 1, c, T)
        d = dict(case, data=case["data"][1:])        # drop the FIRST instance
        if d.get("labels"):
            d["labels"] = d["labels"][1:]
        if d.get("dt"):
            d["dt"] = d["dt"][1:]
        yield _trim(d, n - 1, c, T)
    if case.get("labels"):
        yield {k: v for k, v in case.items() if k != "labels"}
    if case.get("dt"):              # the same values in float64 cells throughout
        yield {k: v for k, v in case.items() if k != "dt"}
    if c > 1:
        yield _trim(case, n, c - 1, T)
        if "names" in case:         # also try dropping the FIRST column (keeps a special last name)
            d = dict(case, data=[inst[1:] for inst in case["data"]], names=case["names"][1:])
            if d.get("dt"):
                d["dt"] = [r[1:] for r in d["dt"]]
            yield _trim(d, n, c - 1, T)
    if T > 2:
        yield _trim(case, n, c, T - 1)
    if case.get("shuffle"):
        yield dict(case, shuffle=None)
    for i, e in enumerate(case["path"]):
        for key in ("cn", "ii", "ti"):
            if e.get(key) is not None:
                p = [dict(x) for x in case["path"]]
                p[i][key] = None
                yield dict(case, path=p)


# ------------------------------------------------------------------------------------------------
# model side

CASES_HEADER = """From Coq Require Import ZArith List Bool.
Require Import SkV.Lib.Base SkV.C15.Model SkV.C15.Cases.
Import ListNotations.
Open Scope Z_scope.
"""


def _cname(x):
    if isinstance(x, str):
        if x.startswith("?"):
            raise ValueError("label of unsupported type " + x)
        return "NStr " + czlist([ord(ch) for ch in x])
    return "NInt " + cz(x)


def _cnames(l):
    return clist(["(%s)" % _cname(x) for x in l])


def _cpanel(p):
    return clist([clist([czlist(s) for s in inst]) for inst in p])


def _ckind(k):
    return {"S": "KSeries", "A": "KArray"}[k]


def _code(case):
    """instance labels as integers for the Coq model: ints as they are, str labels by their rank
    in sorted order (the conversions use labels only through equality and order)"""
    strs = sorted(x for x in (case.get("labels") or []) if isinstance(x, str))
    rank = {x: i for i, x in enumerate(strs)}

    def code(x):
        if isinstance(x, str):
            if x not in rank:
                raise ValueError("unknown instance label %r" % (x,))
            return rank[x]
        return x
    return code


def _crep(o, code=lambda x: x):
    r = o["rep"]
    if r == "N":
        body = "(mkN %s %s %s)" % (_ckind(o["kind"]), _cnames(o["cols"]), _cpanel(o["rows"]))
        idx = o.get("index")
        if idx is None or idx == list(range(len(o["rows"]))):
            return "(RN %s)" % body
        return "(RNI %s %s)" % (czlist([code(x) for x in idx]), body)
    if r == "A":
        return "(RA %s)" % _cpanel(o["data"])
    if r == "M":
        return "(RM (mkM %s %s))" % (_cnames(o["cols"]), clist(
            ["((%s, %s), %s)" % (cz(code(k[0])), cz(k[1]), czlist(row))
             for k, row in zip(o["keys"], o["rows"])]))
    if r == "L":
        return "(RL %s)" % clist(["(%s, %s, %s, %s)" % (cz(code(i)), _cname(d), cz(t), cz(v))
                                  for i, d, t, v in o["rows"]])
    if r == "T":
        return "(RT %s)" % clist([czlist(x) for x in o["rows"]])
    raise ValueError("not a container: %r" % (o,))


def _cstart(case):
    data = case["data"]
    n, c, T = case["n"], case["c"], case["T"]
    st = case["start"]
    code, lab = _code(case), _lab(case)
    if st == "N":
        return _crep({"rep": "N", "kind": case["cells"], "cols": case["names"], "rows": data,
                      "index": lab}, code)
    if st == "A":
        return _crep({"rep": "A", "data": data})
    if st == "M":
        return _crep({"rep": "M", "cols": case["names"],
                      "keys": [[lab[i], t] for i in range(n) for t in range(T)],
                      "rows": [[data[i][j][t] for j in range(c)]
                               for i in range(n) for t in range(T)]}, code)
    if st == "L":
        rows = [[lab[i], case["names"][j], t, data[i][j][t]]
                for j in range(c) for i in range(n) for t in range(T)]
        if case.get("shuffle"):
            import random
            random.Random(case["shuffle"]).shuffle(rows)
        return _crep({"rep": "L", "rows": rows}, code)
    return _crep({"rep": "T", "rows": [sum(inst, []) for inst in data]})


def _cedge(e, c):
    k = e["e"]
    cn = copt(_cn(e, c) if k != "L>N" else e.get("cn"), _cnames)
    kind = _ckind("A" if e.get("np") else "S")
    return {"N>A": "E_N_A", "A>N": "E_A_N %s %s" % (cn, kind), "A>M": "E_A_M %s" % cn,
            "M>A": "E_M_A", "N>M": "E_N_M", "M>N": "E_M_N %s" % kind, "N>L": "E_N_L",
            "L>N": "E_L_N %s" % cn, "N>T": "E_N_T", "A>T": "E_A_T", "T>N": "E_T_N %s" % kind,
            "CX": "E_CheckX %s %s" % (cbool(e.get("np")), cbool(e.get("pd")))}[k]


def _cpath(case):
    c = 1 if case["start"] == "T" else case["c"]
    out = []
    for e in case["path"]:
        out.append("(%s)" % _cedge(e, c))
        if e["e"] in ("N>T", "A>T"):
            c = 1
    return clist(out)


def coq_case(case, out):
    k = case["kind"]
    if k == "pred":
        cell = {"P": "CPrim 3", "S": "CSer [2; 4]", "A": "CArr [2; 4]", "O": "CObj"}
        return "CPred (mkF %d%%nat %s) %s %s" % (
            case["ncol"], clist([clist(["(%s)" % cell[x] for x in row]) for row in case["grid"]]),
            cbool(out["is_nested"]), clist([cbool(b) for b in out["cols"]]))
    if k != "path":
        return None
    if "err" in out:
        if out["err"] != "ValueError":
            return None          # the oracle has reported it; nothing to compare
        o = "None"
    else:
        if out.get("rep") == "?" or out.get("kind", "S") not in ("S", "A") or \
                any(isinstance(v, str) and str(v).startswith("x:") for v in _flat(
                    out.get("rows", out.get("data")))):
            return None          # not a container of the expected type: reported by the oracle
        try:
            o = "(Some %s)" % _crep(out, _code(case))
        except ValueError:
            return None
    return "CPath %s %s %s" % (_cstart(case), _cpath(case), o)


def coq_model_term(case):
    if case["kind"] == "pred":
        return "0"
    if case["kind"] != "path":
        return "0"
    return "run_path %s %s" % (_cpath(case), _cstart(case))


def distribution(cases, results):
    import collections
    d = collections.Counter()
    for c, r in zip(cases, results):
        o = r.get("out") or {}
        if c["kind"] == "path":
            d["start:%s" % c["start"]] += 1
            d["len:%d" % len(c["path"])] += 1
            d["shape:n=%d" % c["n"]] += 1
            d["shape:c=%d" % min(c["c"], 4)] += 1
            d["end:%s" % (o.get("rep") or "raised")] += 1
            for e in c["path"]:
                d["edge:%s" % e["e"]] += 1
            if c.get("names") and all(isinstance(x, int) for x in c["names"]):
                d["names:int"] += 1
            if c.get("cells") == "A":
                d["cells:ndarray"] += 1
            if c.get("shuffle"):
                d["long:shuffled"] += 1
            dt = c.get("dt")
            if c["start"] == "N":
                kinds = set(x for r in dt for x in r) if dt else {"f"}
                d["cell-dtypes:%s" % ("float" if kinds == {"f"} else "int" if kinds == {"i"}
                                      else "mixed-int-first" if dt[0][0] == "i"
                                      else "mixed-float-first")] += 1
            lab = c.get("labels")
            d["instance-labels:%s" % (
                "default" if not lab else "str" if isinstance(lab[0], str)
                else "ascending" if lab == sorted(lab) else "int-unsorted")] += 1
        else:
            d["kind:%s" % c["kind"]] += 1
    return dict(d)


def extra_coverage(cases, results, tier):
    return {"exhaustive": False,
            "exhaustive_scope": ("every typed path of length <= 3 (%d skeletons) x every shape "
                                 "n,c in 1..3, T in 2..4 with random options" % len(skeletons()))
            if tier == "thorough" else "thorough only",
            "path_skeletons": len(skeletons())}
