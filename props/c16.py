"""C16 - fitted panel estimators treat instances independently and ignore the container."""
from fractions import Fraction as Fr

from harness.core import clist, cnat, copt, cq, cz

ID = "C16"
MODEL_TARGETS = ["C16/Cases.vo"]
PROOF_TARGETS = ["C16/Proofs.vo", "C16/Prog.vo", "C16/Gen.vo", "C16/Bridge.vo"]
OBLIGATION_FILES = ["C16/Bridge.v"]
PROPS_FILE = "C16/Props.v"
SHARD = 40
PER_CASE_TIMEOUT = 150
RULE = ("one case = one estimator fitted ONCE by the real code, then applied to a test batch (3-6 "
        "instances, optionally with a duplicated instance) and to variants of it: 2 random "
        "permutations (row labels kept / reset), EVERY single row, a sub-selection with repeats, the "
        "batch with shuffled row labels, the batch as a 3-D array, one row as a (1,c,T) array, the "
        "estimator re-fitted on the 3-D training array, and the batch again at the end; cell kind x row "
        "index: the batch as a nested frame with pd.Series cells under permuted-0..n-1 / string row "
        "labels and with np.ndarray cells under default / permuted / arbitrary-integer / string labels, "
        "its .iloc permutation, sub-selection and last single row with ndarray cells (labels kept), and "
        "the estimator re-fitted on the training frame with ndarray or Series cells under permuted / "
        "string labels (targets positional); each case runs a rotating half of the label kinds. "
        "kind=closed: the 11 closed-form transformers of C14 on small explicit panels (values small "
        "integers / quarters, unequal lengths where supported, fitted on the batch or on a separate "
        "panel, parameters at and around the acceptance boundary); kind=learned: every other "
        "runnable panel transformer / classifier / regressor on generated sine+noise problems "
        "(12-24 time points, 1-3 variables, 2-3 classes, column names var_i / dim_i, configurations "
        "drawn per case), plus for the dictionary-based estimators a 'same vocabulary, different "
        "proportions' family (series made of slow / fast sine segments in different proportions and "
        "orders: bags with the same words and different counts) and a 'flat stretch' family (data=flat: "
        "integer / quarter valued lively series of amplitude 2-20 in which instances hold an exactly "
        "constant stretch - level 0, +-0.25 .. +-5, any position, length from 2 points to the whole "
        "series - with at least one NON-FIRST instance holding a non-zero stretch at least as long as "
        "the estimator's window right after an instance with ordinary variance; SFA directly (norm "
        "on / off, windows 4-16), IndividualBOSS / IndividualTDE / SAX with the same windows, BOSSEnsemble "
        "/ ContractableBOSS (min_window 18) and MUSE with whole-series stretches, a rotating 6 of the "
        "other learned estimators, and each closed-form transformer once); in addition the build regenerates the row-flow table of all 52 apply-time "
        "methods (Gen.v) and checks it in Coq. non-trivial = the batch was accepted, has >= 2 pairwise different output "
        "rows and at least one non-identity permutation was run; distinct = distinct canonical JSON case")
TRUSTED = [
    "translator/rowwise_c16.py (row-flow extractor, fail closed): an abstract interpreter over the "
    "Python ast of every transform / predict / predict_proba of the anchored panel estimators; it "
    "classifies each statement into the panel-program language of coq/C16/Prog.v or marks the method "
    "not-translated.  Its scoping / data-flow rules (kinds P, N, IDX, ROW, PANEL, B; no stores to self; "
    "row-loop-carried values are batch data; validation statements excluded) are trusted; the "
    "instance-axis bookkeeping (axis numbers, index tuples, allocation shapes, row-loop accesses) is "
    "re-done by `compile` in Coq on the emitted terms (Bridge.gen_table_ok), and the methods that must "
    "be in the language are pinned (Bridge.expected_are_translated)",
    "panel programs: the per-row functions, vectorised operations and fitted members are OPAQUE symbols "
    "(their bodies are not translated); assumed: opaque callees are pure functions of their arguments, "
    "an operation called with axis=k acts independently along the other axes, fitted members "
    "(clf.predict, self.pca.transform, self.clf.predict_proba, SFA members with their [bags] output "
    "convention) are row-wise, batch-independent operands broadcast along non-instance axes, loops "
    "over batch-independent ranges run at least once; a program denotes the result when no exception "
    "is raised (validation statements may read the batch)",
    "hand-written Gallina model; the closed-form transformers are C14's definitions (imported from "
    "coq/C14/Model.v, tied to the code by C14's and by this run's in-Coq recomputation of every batch "
    "and every variant output); containers are C15's definitions (coq/C15/Model.v) and its proved "
    "round-trip / check_X lemmas",
    "props/c16.py driver_init: sklearn 1.7 ForestClassifier/ForestRegressor.__init__ wrapped to accept "
    "the removed `base_estimator=` keyword (same harness-side wrapper as C17) so that the interval "
    "forests can be constructed; order-sensitive test-double series transformers for the row "
    "transformers; nothing in /repo is patched",
    "float64 rounding is outside the model: outputs are exact rationals compared with tolerance "
    "|a-b| <= 1e-9 * (1 + |a|) (in Coq, and by the Python oracle)",
]
MODELLED = [
    "learned estimators (SAX, SFA, random interval segmenter / feature extractor, plateau finder, "
    "derivative slope, DWT, slope, HOG1D, matrix profile, PCA, shapelet transforms, Rocket, fitted "
    "parameter extractor, BOSS family, MUSE, IndividualTDE, interval forests, column ensemble, forest "
    "regressor): the per-instance function is ABSTRACT; theorems 1-7 hold for every such function and "
    "the claim that the code is of that form is sampled by the correspondence run, not proved",
    "an estimator's dependence on row labels / column labels is modelled as absent (est_apply's f sees "
    "values only); the run varies row labels (kept, reset, shuffled) and column names (var_i, dim_i)",
    "nested DataFrames are exercised with pd.Series cells AND with np.ndarray cells, under default, "
    "permuted, arbitrary-integer and string row labels, at fit and at apply time; a refusal of ndarray "
    "cells (MUSE, FittedParamExtractor: open findings) is a finding, a different VALUE is a violation",
    "the empty batch and instances without variables are outside the theorems' domain (check_X "
    "requires at least one instance and one column)",
    "ContractedShapeletTransform is wall-clock contracted: re-fitting is not reproducible, so "
    "container-at-fit is not compared for it (permutation / single / sub-selection / container at "
    "apply are)",
]
NOT_RUNNABLE = [
    "MiniRocket, MiniRocketMultivariate: _PPV is a numba @vectorize ufunc; the numba stub of the "
    "compat layer calls it on arrays ('truth value of an array is ambiguous')",
    "Catch22, TSFreshFeatureExtractor, TSFreshRelevantFeatureExtractor, CanonicalIntervalForest, DrCIF, "
    "Catch22ForestClassifier: soft dependencies catch22 / tsfresh not installed",
    "ColumnTransformer, FeatureUnion (series_as_features.compose): subclass sklearn private API "
    "(_iter(replace_strings=), _transform_one(params)) that changed in sklearn 1.7",
    "SFA(binning_method='information-gain'), WEASEL, TemporalDictionaryEnsemble: pass "
    "max_depth=np.log2(alphabet_size) (a float) to DecisionTreeClassifier; sklearn 1.7 rejects it",
    "KNeighborsTimeSeriesClassifier, ElasticEnsemble, ProximityForest/Tree/Stump, ShapeDTW: import "
    "sklearn.neighbors._base._check_weights (removed)",
    "ShapeletTransformClassifier, ROCKETClassifier, MrSEQL, HIVECOTEV1: the shapelet_based package "
    "__init__ imports the uncompiled mrseql extension",
    "ComposableTimeSeriesForestClassifier / Regressor: abstract under sklearn 1.7 "
    "(_set_oob_score_and_attributes)",
    "(run with test doubles, among them transformers that return their input or a view of it) "
    "SeriesToSeriesRowTransformer / SeriesToPrimitivesRowTransformer around sktime's own series "
    "transformers other than MeanTransformer: they call pandas methods on the ndarray the row "
    "transformer passes (run with test doubles instead)",
]

QUARTERS = [-2.0, -1.0, -0.5, 0.0, 0.25, 0.5, 1.0, 1.5, 2.0, 3.0, 4.0, 5.0, 7.0, 9.0]
CLOSED = ["pad", "trunc", "interp", "tab", "concat", "paa", "iseg_int", "iseg_arr", "slide",
          "rows2s", "rows2p"]
LEARNED_T = ["sax", "sfa", "riseg", "rife", "plateau", "dslope", "dwt", "slope", "hog1d", "mp", "pca",
             "shapelet", "cshapelet", "rocket", "fpe", "tab_f", "pad_f", "rowview"]
LEARNED_C = ["boss", "cboss", "iboss", "itde", "muse", "tsf", "rise", "stsf", "colens"]
LEARNED_R = ["tsfreg"]


# ------------------------------------------------------------------------------------------------
# generators


def _vals(rng, n):
    mode = rng.choice(["int", "int", "quarter", "ramp"])
    if mode == "int":
        return [float(rng.randint(-4, 9)) for _ in range(n)]
    if mode == "ramp":
        a, b = rng.randint(-3, 3), rng.choice([-2, -1, 1, 2, 3])
        return [float(a + b * i + (1 if rng.random() < 0.2 else 0)) for i in range(n)]
    return [rng.choice(QUARTERS) for _ in range(n)]


def _panel(rng, shape, n_inst, n_cols, nmin=1, nmax=7, n=None):
    if shape == "equal":
        n = n or rng.randint(nmin, nmax)
        lens = [[n] * n_cols for _ in range(n_inst)]
    elif shape == "rect":
        per = [rng.randint(nmin, nmax) for _ in range(n_cols)]
        lens = [list(per) for _ in range(n_inst)]
    else:
        lens = [[rng.randint(nmin, nmax) for _ in range(n_cols)] for _ in range(n_inst)]
    return [[_vals(rng, ln) for ln in row] for row in lens]


def _lens(p):
    return [len(s) for row in p for s in row]


def _variants(rng, n):
    """permutations / sub-selection of a batch of n instances (positions)."""
    perms = []
    if n >= 2:
        for _ in range(2):
            p = list(range(n))
            for _ in range(6):
                rng.shuffle(p)
                if p != list(range(n)):
                    break
            perms.append(p)
        if rng.random() < 0.3:
            perms[1] = list(reversed(range(n)))
    k = rng.randint(1, n + 1)
    sub = [rng.randrange(n) for _ in range(k)]
    return perms, sub


def _paa_last_frame_lost(n, m):
    """does PAA's float bookkeeping (frame length n/m) leave the last frame open after the last
    point?  (the code then closes it in its 'lost due to double imprecision' branch; state carried
    over from one instance to the next shows exactly on these (n, m))"""
    fl, size, cur = n / m, 0, 0
    for _ in range(n):
        rem = fl - size
        size = size + 1 if rem > 1 else size + rem
        if size == fl:
            cur += 1
            size = 1 - rem
    return cur == m - 1


def _gen_closed(rng, t):
    n_inst = rng.choice([2, 3, 3, 4])
    c = {"kind": "closed", "t": t, "fit": None}
    if t == "pad":
        X = _panel(rng, rng.choice(["unequal", "unequal", "equal"]), n_inst, rng.choice([1, 1, 2]))
        mx = max(_lens(X))
        r = rng.random()
        if r < 0.55:
            pl = None
        else:
            pl = rng.choice([mx, mx + 1, mx + 3, max(1, mx - 1)])
        if rng.random() < 0.35:
            fit = _panel(rng, "unequal", rng.choice([1, 2, 3]), len(X[0]), nmax=8)
            if rng.random() < 0.7:       # mostly long enough
                fit[0][0] = _vals(rng, mx + rng.choice([0, 1, 2]))
            c["fit"] = fit
        c.update(X=X, pad_length=pl, fill=rng.choice([0.0, 0.0, -1.0, 2.5]))
    elif t == "trunc":
        X = _panel(rng, rng.choice(["unequal", "unequal", "equal"]), n_inst, rng.choice([1, 1, 2]),
                   nmin=2)
        mn = min(_lens(X))
        r = rng.random()
        if r < 0.45:
            lower, upper = None, None
        elif r < 0.65:
            lower, upper = rng.choice([mn, max(1, mn - 1), 1, mn + 1]), None
        else:
            lower = rng.randint(0, mn)
            upper = rng.choice([mn, mn, max(lower, mn - 1), lower + 1, mn + 1])
        if rng.random() < 0.35:
            fit = _panel(rng, "unequal", rng.choice([1, 2, 3]), len(X[0]), nmin=1)
            if rng.random() < 0.7:       # mostly short enough
                fit[0][0] = _vals(rng, max(1, mn - rng.choice([0, 1])))
            c["fit"] = fit
        c.update(X=X, lower=lower, upper=upper)
    elif t == "interp":
        X = _panel(rng, rng.choice(["unequal", "equal"]), n_inst, rng.choice([1, 1, 2]),
                   nmin=1 if rng.random() < 0.1 else 2)
        c.update(X=X, length=rng.choice([1, 2, 3, 4, 5, 6, 7, 9]))
    elif t in ("tab", "concat"):
        X = _panel(rng, rng.choice(["equal", "rect", "rect", "unequal"]), n_inst,
                   rng.choice([1, 2, 2, 3]), nmax=5)
        c.update(X=X)
    elif t == "paa":
        n = rng.randint(2, 11)
        X = _panel(rng, "equal", n_inst, rng.choice([1, 1, 2]), n=n)
        nondiv = [m for m in range(2, n) if n % m]
        lossy = [m for m in nondiv if _paa_last_frame_lost(n, m)]
        r = rng.random()
        if lossy and r < 0.45:
            m = rng.choice(lossy)      # the float running sums do not close the last frame
        elif nondiv and r < 0.7:
            m = rng.choice(nondiv)
        else:
            m = rng.choice([1, 2, 3, n, max(1, n - 1), rng.randint(1, n), n + 1])
        c.update(X=X, m=m)
    elif t == "iseg_int":
        n = rng.randint(4, 10)
        X = _panel(rng, "equal", n_inst, 1, n=n)
        k = rng.choice([1, 2, 2, 3, n // 2, n // 2 + 1])
        if rng.random() < 0.35:
            nf = n + rng.choice([-2, -1, 1, 2])
            c["fit"] = _panel(rng, "equal", rng.choice([1, 2]), 1, n=max(2, nf))
        c.update(X=X, k=max(1, k))
    elif t == "iseg_arr":
        n = rng.randint(3, 9)
        X = _panel(rng, "equal", n_inst, 1, n=n)
        ivs = []
        for _ in range(rng.randint(1, 3)):
            a = rng.randint(0, n - 1)
            ivs.append([a, rng.randint(a + 1, n)])
        c.update(X=X, ivs=ivs)
    elif t == "slide":
        n = rng.randint(2, 7)
        X = _panel(rng, "equal", n_inst, 1, n=n)
        c.update(X=X, w=rng.choice([1, 2, 3, 3, 4, 5, n, n + 1]))
    elif t == "rows2s":
        X = _panel(rng, "equal", n_inst, rng.choice([1, 2]), nmin=2)
        f = rng.choice([["affine", rng.choice([2.0, -1.0, 0.5]), rng.choice([0.0, 1.0, -3.0])],
                        ["cumsum"], ["reverse"], ["identity"], ["reverse_view"]])
        c.update(X=X, f=f)
    elif t == "rows2p":
        X = _panel(rng, "equal", n_inst, rng.choice([1, 2, 3]), nmin=2)
        c.update(X=X, g=rng.choice(["mean", "weighted"]))
    X = c["X"]
    if rng.random() < 0.25 and len(X) >= 2:       # a repeated instance
        X[-1] = [list(s) for s in X[0]]
    c["perms"], c["sub"] = _variants(rng, len(X))
    c["labels"] = rng.choice(["range", "shuffled"])
    return c


def _gen_learned(rng, est):
    c = {"kind": "learned", "est": est, "seed": rng.randint(0, 10 ** 6), "rs": rng.randint(0, 50),
         "n_train": rng.choice([8, 10, 12]), "n_test": rng.choice([3, 4, 5, 5, 6]),
         "m": rng.choice([12, 16, 20, 24]), "ncols": 1, "k": rng.choice([2, 2, 3]),
         "noise": rng.choice([0.2, 0.6, 1.2]), "colnames": rng.choice(["var", "dim"]),
         "dup": rng.random() < 0.25, "labels": rng.choice(["range", "shuffled"]), "round": None,
         "ylabels": rng.choice(["int", "int", "str"])}
    cfg = {}
    if est == "sax":
        cfg = {"word_length": rng.choice([2, 4]), "alphabet_size": rng.choice([3, 4]),
               "window_size": rng.choice([6, 8])}
    elif est == "sfa":
        cfg = {"word_length": rng.choice([2, 4]), "alphabet_size": rng.choice([2, 4]),
               "window_size": rng.choice([6, 8]), "norm": rng.random() < 0.5,
               "remove_repeat_words": rng.random() < 0.5, "bigrams": rng.random() < 0.3,
               "pandas": rng.random() < 0.3}
    elif est == "riseg":
        cfg = {"n_intervals": rng.choice([2, 3, "sqrt"])}
    elif est == "rife":
        cfg = {"n_intervals": rng.choice([2, 3]),
               "feats": rng.choice([["mean"], ["mean", "std"], ["std", "slope"], ["mean", "std", "slope"]])}
    elif est == "plateau":
        c["round"] = 0
        cfg = {"value": rng.choice([0.0, 1.0, -1.0]), "min_length": rng.choice([1, 2])}
    elif est == "dslope":
        c["ncols"] = rng.choice([1, 2])
    elif est == "dwt":
        cfg = {"num_levels": rng.choice([0, 1, 2, 3])}
        c["ncols"] = rng.choice([1, 2])
    elif est == "slope":
        cfg = {"num_intervals": rng.choice([2, 3, 4])}
        c["ncols"] = rng.choice([1, 2])
    elif est == "hog1d":
        cfg = {"num_intervals": rng.choice([1, 2]), "num_bins": rng.choice([4, 8])}
        c["ncols"] = rng.choice([1, 2])
    elif est == "mp":
        cfg = {"m": rng.choice([4, 5, 6])}
    elif est == "pca":
        cfg = {"n_components": rng.choice([1, 2, 3])}
    elif est in ("shapelet", "cshapelet"):
        cfg = {"min_len": 3, "max_len": rng.choice([4, 5]), "per_class": rng.choice([2, 3])}
        c["m"] = rng.choice([12, 16])
        c["n_train"] = 8
    elif est == "rocket":
        cfg = {"num_kernels": rng.choice([4, 6, 8])}
        c["ncols"] = rng.choice([1, 2])
    elif est == "fpe":
        cfg = {"param": "initial_level"}
    elif est in ("tab_f", "pad_f"):
        c["ncols"] = rng.choice([1, 2, 3])
    elif est == "rowview":
        cfg = {"how": rng.choice(["identity", "head", "stride", "reversed"]), "k": rng.choice([2, 3, 5])}
        c["ncols"] = rng.choice([1, 2])
        c["dup"] = False
    elif est == "boss":
        cfg = {"max_ensemble_size": rng.choice([2, 3, 4])}
    elif est == "cboss":
        cfg = {"n_parameter_samples": 8, "max_ensemble_size": rng.choice([3, 4])}
    elif est == "iboss":
        cfg = {"window_size": rng.choice([6, 8, 10]), "word_length": rng.choice([4, 6]),
               "norm": rng.random() < 0.5}
    elif est == "itde":
        cfg = {"window_size": rng.choice([6, 8]), "word_length": rng.choice([4, 6]),
               "norm": rng.random() < 0.5, "levels": rng.choice([1, 2])}
    elif est == "muse":
        c["ncols"] = rng.choice([1, 2])
        c["m"] = rng.choice([12, 16])
    elif est in ("tsf", "tsfreg"):
        cfg = {"n_estimators": rng.choice([3, 4, 5])}
    elif est == "rise":
        cfg = {"n_estimators": 4, "min_interval": 6, "acf_lag": 5}
        c["m"] = rng.choice([16, 20, 24])
    elif est == "stsf":
        cfg = {"n_estimators": rng.choice([3, 4])}
    elif est == "colens":
        mem = rng.choice([["tsf", "iboss"], ["iboss", "tsf", "rise"], ["rise", "tsf"], ["boss", "tsf"]])
        cfg = {"members": mem}
        c["ncols"] = len(mem)
        c["m"] = rng.choice([16, 20])
    c["cfg"] = cfg
    c["perms"], c["sub"] = _variants(rng, c["n_test"])
    return c


MOTIF_ESTS = ["iboss"] * 8 + ["boss"] * 3 + ["cboss"] * 3 + ["itde"] * 3 + ["sax", "sax", "sfa", "sfa",
                                                                          "muse"]


def _gen_motif(rng, est):
    """same vocabulary, different proportions: every series is made of the same two shapes (a slow
    and a fast sine period of 10 points) in different proportions / orders, so that the bags of
    different instances hold the same words with different counts - sensitive to bag-level caching
    or de-duplication keyed on the set of words"""
    c = _gen_learned(rng, est)
    segs = rng.choice([6, 8])
    c.update(data="motif", segs=segs, m=10 * segs, ncols=1, k=2, round=None,
             n_train=rng.choice([6, 8]), n_test=rng.choice([4, 5, 6]), dup=rng.random() < 0.3,
             noise=rng.choice([0.0, 0.0, 0.01]))
    if est == "iboss":
        c["cfg"] = rng.choice([{"window_size": 10, "word_length": 8, "norm": False},
                               {"window_size": 10, "word_length": 2, "norm": False},
                               {"window_size": 10, "word_length": 4, "norm": rng.random() < 0.5},
                               {"window_size": 20, "word_length": 4, "norm": False}])
    elif est == "itde":
        c["cfg"] = {"window_size": 10, "word_length": rng.choice([2, 4]), "norm": False, "levels": 1}
    elif est == "sax":
        c["cfg"] = {"word_length": rng.choice([2, 4]), "alphabet_size": rng.choice([3, 4]),
                    "window_size": 10}
    elif est == "sfa":
        c["cfg"] = {"word_length": rng.choice([2, 4]), "alphabet_size": 4, "window_size": 10,
                    "norm": False, "remove_repeat_words": False, "bigrams": False,
                    "pandas": rng.random() < 0.3}
    elif est == "boss":
        c["cfg"] = {"max_ensemble_size": rng.choice([2, 3])}
    c["perms"], c["sub"] = _variants(rng, c["n_test"])
    return c


FLAT_DICT_ESTS = ["sfa"] * 7 + ["iboss"] * 6 + ["boss"] * 2 + ["cboss"] * 2 + ["itde"] * 3 + ["sax", "muse"]
FLAT_OTHER_ESTS = ["riseg", "rife", "plateau", "dslope", "dwt", "slope", "hog1d", "mp", "pca", "rocket",
                   "tab_f", "pad_f", "rowview", "tsf", "rise", "colens", "tsfreg", "fpe", "stsf", "shapelet"]
FLAT_LEVELS = [1.0, -1.0, 1.0, -1.0, 0.5, -0.5, 2.0, -2.0, 3.0, -3.0, 5.0, 0.25, 0.0]


def _gen_flat(rng, est):
    """flat stretches: integer / quarter valued 'lively' series (exact float arithmetic) in which
    some instances hold an exactly constant stretch (zero-variance sliding windows) at some level,
    position and length - up to the whole series.  At least one instance that is NOT first has a
    stretch at a non-zero level that is at least as long as the estimator's window, and the
    instance before it has ordinary variance there: per-window statistics (std, mean) that are
    carried over from one instance to the next show exactly on such batches"""
    c = _gen_learned(rng, est)
    dictionary = est in ("sfa", "iboss", "boss", "cboss", "itde", "sax", "muse")
    big = est in ("boss", "cboss", "muse")
    m = rng.choice([24, 32, 40]) if big else rng.choice([16, 20, 24, 32])
    if est == "rise":
        m = rng.choice([24, 32])
    w = rng.choice([4, 8, 8, 8, 6, 10, 16])      # powers of two: 1/w is exact, so are mean and std
    wl = rng.choice([2, 4])
    if w == 4:
        wl = 2       # word_length + 2 (norm) must stay within the window's Fourier coefficients
    norm = rng.random() < 0.3
    c.update(data="flat", m=m, round=None, k=2, dup=rng.random() < 0.2,
             n_train=rng.choice([8, 10, 12]), n_test=rng.choice([2, 3, 3, 4, 5]),
             amp=rng.choice([2, 5, 10, 20, 20, 20]), valkind=rng.choice(["int", "int", "quarter"]))
    if dictionary:
        c["ncols"] = 1
    if est == "sfa":
        c["cfg"] = {"word_length": wl, "alphabet_size": rng.choice([2, 4, 4]), "window_size": w,
                    "norm": norm, "remove_repeat_words": rng.random() < 0.4,
                    "bigrams": rng.random() < 0.2, "pandas": rng.random() < 0.3}
    elif est == "iboss":
        c["cfg"] = {"window_size": w, "word_length": wl, "norm": norm}
    elif est == "itde":
        c["cfg"] = {"window_size": w, "word_length": wl, "norm": norm, "levels": rng.choice([1, 2])}
    elif est == "sax":
        c["cfg"] = {"word_length": wl, "alphabet_size": rng.choice([3, 4]), "window_size": w}
    elif est == "mp":
        c["cfg"] = {"m": rng.choice([4, 6])}
    elif est in ("boss", "cboss"):
        # members' word lengths go up to 16: windows of at least 18 points keep word_length + 2
        # within the window's Fourier coefficients (otherwise SFA._create_word indexes past them)
        m = rng.choice([32, 40])
        c["m"] = m
        c["cfg"] = dict(c["cfg"], min_window=18)
    need = m if big else w      # ensemble members pick their own windows: whole-series stretches
    n = c["n_test"]

    def stretch(min_len):
        ln = m if rng.random() < 0.3 else rng.randint(min(min_len, m), m)
        return [rng.randint(0, m - ln), ln, rng.choice(FLAT_LEVELS)]
    flats = [stretch(rng.choice([2, need, need])) if rng.random() < 0.35 else None for _ in range(n)]
    j = rng.randint(1, n - 1)              # the guaranteed one: not first, after a lively instance
    lvl = rng.choice([v for v in FLAT_LEVELS if v != 0.0])
    ln = m if (big or rng.random() < 0.3) else rng.randint(need, m)
    flats[j] = [rng.randint(0, m - ln), ln, lvl]
    flats[j - 1] = None
    if j == n - 1:
        c["dup"] = False      # the duplicate would overwrite the guaranteed stretch
    c["flats"] = flats
    c["trflats"] = [stretch(2) if rng.random() < 0.15 else None for _ in range(c["n_train"])]
    c["perms"], c["sub"] = _variants(rng, n)
    return c


def _expected_methods():
    """the pinned list of coq/C16/Bridge.v (expected_translated)"""
    import os
    import re
    here = os.path.dirname(os.path.dirname(os.path.abspath(__file__)))
    with open(os.path.join(here, "coq", "C16", "Bridge.v")) as f:
        src = f.read()
    m = re.search(r"Definition expected_translated : list string := \[(.*?)\]\.", src, re.S)
    if not m:
        raise RuntimeError("expected_translated not found in coq/C16/Bridge.v")
    return re.findall(r'"([^"]+)"', m.group(1))


def translate(repo):
    """fail closed: a method that must be in the panel-program language and is not any more is a
    broken tie, reported with the extractor's reason (Bridge.expected_are_translated is the second
    line of defence)"""
    from translator import rowwise_c16
    from translator.pyz import Unsupported
    rows = rowwise_c16.extract(repo)
    status = {k: (st, p) for k, st, p, _, _ in rows}
    gone = []
    for name in _expected_methods():
        st, why = status.get(name, ("no", "the method no longer exists in the anchored files"))
        if st != "ok":
            gone.append("%s left the panel-program language: %s" % (name, why))
    if gone:
        raise Unsupported("; ".join(gone))
    return {"C16/Gen.v": rowwise_c16.render(rows)}


def method_table(repo=None):
    """(translated, sampled-only) methods of the regenerated table, for the evidence"""
    import os
    from translator import rowwise_c16
    rows = rowwise_c16.extract(repo or os.environ.get("VERIF_REPO", "/repo"))
    done = {k: {"delegates_to": d, "assumes": a} for k, st, _, d, a in rows if st == "ok"}
    rest = {k: p for k, st, p, _, _ in rows if st != "ok"}
    return done, rest


def gen_cases(rng, tier):
    cases = []
    mult = 1 if tier == "quick" else 12
    for t in CLOSED:
        for _ in range(22 * mult):
            cases.append(_gen_closed(rng, t))
    slow = {"shapelet", "cshapelet", "stsf", "muse"}
    for est in LEARNED_T + LEARNED_C + LEARNED_R:
        for _ in range((3 if est in slow else 7) * mult):
            cases.append(_gen_learned(rng, est))
    for _ in range(mult):
        for est in MOTIF_ESTS:
            cases.append(_gen_motif(rng, est))
    for _ in range(mult):       # flat stretches (appended last: the earlier streams stay as they were)
        for est in FLAT_DICT_ESTS + rng.sample(FLAT_OTHER_ESTS, 6):
            cases.append(_gen_flat(rng, est))
        for t in CLOSED:      # the closed family with a constant stretch in an instance that is not first
            c = _gen_closed(rng, t)
            X = c["X"]
            j = rng.randint(1, len(X) - 1)
            lvl = rng.choice(FLAT_LEVELS)
            for s in X[j]:
                ln = rng.randint(1, len(s))
                a = rng.randint(0, len(s) - ln)
                s[a:a + ln] = [lvl] * ln
            c["flat"] = j
            cases.append(c)
    return cases


# ------------------------------------------------------------------------------------------------
# implementation side (runs in the driver subprocess)

_DOUBLES = {}


def driver_init():
    import numpy as np
    import sklearn.ensemble._forest as F
    from sktime.transformations.base import (_SeriesToPrimitivesTransformer,
                                             _SeriesToSeriesTransformer)

    def wrap(cls):
        orig = cls.__init__
        if getattr(orig, "_c17_wrapped", False) or getattr(orig, "_c16_wrapped", False):
            return

        def init(self, estimator=None, n_estimators=100, *, base_estimator=None, **kw):
            if base_estimator is not None and estimator is None:
                estimator = base_estimator
            orig(self, estimator, n_estimators=n_estimators, **kw)
            self.base_estimator = estimator
        init._c16_wrapped = True
        cls.__init__ = init
    wrap(F.ForestClassifier)
    wrap(F.ForestRegressor)

    class Affine(_SeriesToSeriesTransformer):
        _tags = {"fit-in-transform": True}

        def __init__(self, a=1.0, b=0.0):
            self.a = a
            self.b = b
            super(Affine, self).__init__()

        def transform(self, Z, X=None):
            self.check_is_fitted()
            return self.a * np.asarray(Z, dtype=float) + self.b

    class Cumsum(_SeriesToSeriesTransformer):
        _tags = {"fit-in-transform": True}

        def transform(self, Z, X=None):
            self.check_is_fitted()
            return np.cumsum(np.asarray(Z, dtype=float), axis=0)

    class Reverse(_SeriesToSeriesTransformer):
        _tags = {"fit-in-transform": True}

        def transform(self, Z, X=None):
            self.check_is_fitted()
            return np.asarray(Z, dtype=float)[::-1].copy()

    class View(_SeriesToSeriesTransformer):
        """returns its input or a VIEW of it (no copy): identity / head / stride / reversed"""
        _tags = {"fit-in-transform": True}

        def __init__(self, how="identity", k=2):
            self.how = how
            self.k = k
            super(View, self).__init__()

        def transform(self, Z, X=None):
            self.check_is_fitted()
            if self.how == "head":
                return Z[: self.k]
            if self.how == "stride":
                return Z[::2]
            if self.how == "reversed":
                return Z[::-1]
            return Z

    class Weighted(_SeriesToPrimitivesTransformer):
        def transform(self, Z, X=None):
            self.check_is_fitted()
            Z = np.asarray(Z, dtype=float)
            w = np.arange(1, Z.shape[0] + 1, dtype=float).reshape((-1,) + (1,) * (Z.ndim - 1))
            return np.sum(Z * w, axis=0)

    _DOUBLES.update({"affine": Affine, "cumsum": Cumsum, "reverse": Reverse, "weighted": Weighted,
                     "view": View})


def _nested(rows, colnames="var", index=None, cells="series"):
    """nested DataFrame; cells: pd.Series ("series") or np.ndarray ("array") in every cell"""
    import numpy as np
    import pandas as pd
    pre = "var_" if colnames == "var" else "dim_"

    def cell(v):
        return pd.Series(v, dtype=float) if cells == "series" else np.asarray(v, dtype=float)
    d = {}
    for j in range(len(rows[0])):
        vals = np.empty(len(rows), dtype=object)      # keeps 1-point cells as arrays / Series
        for i, r in enumerate(rows):
            vals[i] = cell(r[j])
        d["%s%d" % (pre, j)] = pd.Series(vals, dtype=object)
    df = pd.DataFrame(d)
    for j, c in enumerate(df.columns):
        for i in range(len(rows)):
            assert len(df.iloc[i, j]) == len(rows[i][j])
    if index is not None:
        df.index = index
    return df


def _row_labels(how, n, seed=0):
    """row index of a frame: a permutation of 0..n-1, arbitrary integers, strings"""
    import random as _r
    r = _r.Random(1000 + seed + n)
    if how == "perm":
        p = list(range(n))
        for _ in range(5):
            r.shuffle(p)
            if p != list(range(n)) or n < 2:
                break
        return p
    if how == "int":
        return r.sample(range(-20, 400), n)
    if how == "str":
        return ["s%d" % v for v in r.sample(range(100), n)]
    return None


def _equal_len(rows):
    return len(set(len(s) for r in rows for s in r)) == 1


def _to3d(rows):
    import numpy as np
    return np.array(rows, dtype=float)


def _problem(case):
    """deterministic sine + noise problem: train rows, labels / targets, test rows"""
    import numpy as np
    r = np.random.RandomState(case["seed"])
    m, k, nc = case["m"], case["k"], case["ncols"]
    t = np.arange(m)

    def inst(c):
        cols = []
        for j in range(nc):
            v = (np.sin(2 * np.pi * (1 + c) * t / m + 0.7 * j) * (1 + 0.3 * c) + (c - 1) * t / m
                 + case["noise"] * r.normal(size=m))
            if case.get("round") is not None:
                v = np.round(v, case["round"])
            cols.append([float(x) for x in v])
        return cols
    ctr = [i % k for i in range(case["n_train"])]
    cte = [int(r.randint(0, k)) for _ in range(case["n_test"])]
    if case.get("data") == "flat":
        amp, q = case["amp"], (4.0 if case.get("valkind") == "quarter" else 1.0)
        step = max(1, amp // 3)

        def lively(c, flat):
            cols = []
            for j in range(nc):
                v = r.randint(-amp, amp + 1, size=m).astype(float)
                v[: m // 2] += c * step
                v = v / q
                if flat is not None:
                    a, ln, lvl = flat
                    v[a:a + ln] = lvl + (j if lvl != 0.0 else 0)
                cols.append([float(x) for x in v])
            return cols
        tr = [lively(c, f) for c, f in zip(ctr, case["trflats"])]
        te = [lively(c, f) for c, f in zip(cte, case["flats"])]
    elif case.get("data") == "motif":
        S = case["segs"]
        tt = np.arange(10)
        slow, fast = np.sin(2 * np.pi * tt / 10), np.sin(2 * np.pi * tt / 5)

        def motif(n_slow, slow_first):
            parts = [slow] * n_slow + [fast] * (S - n_slow)
            if not slow_first:
                parts = parts[::-1]
            v = np.concatenate(parts) + case["noise"] * r.normal(size=10 * S)
            return [[float(x) for x in v]]
        # class 0: mostly slow, class 1: mostly fast; the test panel mixes all proportions
        tr = [motif(int(r.randint(S // 2 + 1, S)) if c == 0 else int(r.randint(1, S // 2)), True)
              for c in ctr]
        props = list(range(1, S))
        r.shuffle(props)
        te = [motif(int(props[j % len(props)]), bool(r.randint(0, 2)))
              for j in range(case["n_test"])]
    else:
        tr = [inst(c) for c in ctr]
        te = [inst(c) for c in cte]
    if case.get("dup") and len(te) >= 2:
        te[-1] = [list(s) for s in te[0]]
    ytr = np.array(ctr)
    if case.get("ylabels") == "str":
        ytr = np.array([["b", "a", "C"][c] for c in ctr])
    yreg = r.normal(size=case["n_train"]) * 3
    return tr, ytr, yreg, te


def _make_clf(name, cfg, rs):
    if name == "boss":
        from sktime.classification.dictionary_based._boss import BOSSEnsemble
        return BOSSEnsemble(max_ensemble_size=cfg.get("max_ensemble_size", 3),
                            min_window=cfg.get("min_window", 10), random_state=rs)
    if name == "cboss":
        from sktime.classification.dictionary_based._cboss import ContractableBOSS
        return ContractableBOSS(n_parameter_samples=cfg.get("n_parameter_samples", 8),
                                max_ensemble_size=cfg.get("max_ensemble_size", 4),
                                min_window=cfg.get("min_window", 10), random_state=rs)
    if name == "iboss":
        from sktime.classification.dictionary_based._boss import IndividualBOSS
        return IndividualBOSS(window_size=cfg.get("window_size", 8), word_length=cfg.get("word_length", 4),
                              norm=cfg.get("norm", False), random_state=rs)
    if name == "itde":
        from sktime.classification.dictionary_based._tde import IndividualTDE
        return IndividualTDE(window_size=cfg.get("window_size", 8), word_length=cfg.get("word_length", 4),
                             norm=cfg.get("norm", False), levels=cfg.get("levels", 1), random_state=rs)
    if name == "muse":
        from sktime.classification.dictionary_based._muse import MUSE
        return MUSE(random_state=rs)
    if name == "tsf":
        from sktime.classification.interval_based._tsf import TimeSeriesForestClassifier
        return TimeSeriesForestClassifier(n_estimators=cfg.get("n_estimators", 3), random_state=rs)
    if name == "rise":
        from sktime.classification.interval_based._rise import RandomIntervalSpectralForest
        return RandomIntervalSpectralForest(n_estimators=cfg.get("n_estimators", 4),
                                            min_interval=cfg.get("min_interval", 6),
                                            acf_lag=cfg.get("acf_lag", 5), random_state=rs)
    if name == "stsf":
        from sktime.classification.interval_based._stsf import SupervisedTimeSeriesForest
        return SupervisedTimeSeriesForest(n_estimators=cfg.get("n_estimators", 3), random_state=rs)
    if name == "colens":
        from sktime.classification.compose._column_ensemble import ColumnEnsembleClassifier
        return ColumnEnsembleClassifier([("m%d" % j, _make_clf(n, {}, rs + j), [j])
                                         for j, n in enumerate(cfg["members"])])
    raise AssertionError(name)


def _make_learned(case):
    """-> (factory, role) with role in transform / classify / regress"""
    import numpy as np
    est, cfg, rs = case["est"], case["cfg"], case["rs"]
    if est in LEARNED_C:
        return (lambda: _make_clf(est, cfg, rs)), "classify"
    if est == "tsfreg":
        from sktime.regression.interval_based._tsf import TimeSeriesForestRegressor
        return (lambda: TimeSeriesForestRegressor(n_estimators=cfg["n_estimators"], random_state=rs)), \
            "regress"
    if est == "sax":
        from sktime.transformations.panel.dictionary_based._sax import SAX
        return (lambda: SAX(word_length=cfg["word_length"], alphabet_size=cfg["alphabet_size"],
                            window_size=cfg["window_size"])), "transform"
    if est == "sfa":
        from sktime.transformations.panel.dictionary_based._sfa import SFA
        return (lambda: SFA(word_length=cfg["word_length"], alphabet_size=cfg["alphabet_size"],
                            window_size=cfg["window_size"], norm=cfg["norm"],
                            remove_repeat_words=cfg["remove_repeat_words"], bigrams=cfg["bigrams"],
                            return_pandas_data_series=cfg["pandas"])), "transform"
    if est == "riseg":
        from sktime.transformations.panel.segment import RandomIntervalSegmenter
        return (lambda: RandomIntervalSegmenter(n_intervals=cfg["n_intervals"], random_state=rs)), \
            "transform"
    if est == "rife":
        from sktime.transformations.panel.summarize._extract import RandomIntervalFeatureExtractor
        from sktime.utils.slope_and_trend import _slope
        fm = {"mean": np.mean, "std": np.std, "slope": _slope}
        return (lambda: RandomIntervalFeatureExtractor(
            n_intervals=cfg["n_intervals"], features=[fm[f] for f in cfg["feats"]],
            random_state=rs)), "transform"
    if est == "plateau":
        from sktime.transformations.panel.summarize._extract import PlateauFinder
        return (lambda: PlateauFinder(value=cfg["value"], min_length=cfg["min_length"])), "transform"
    if est == "dslope":
        from sktime.transformations.panel.summarize._extract import DerivativeSlopeTransformer
        return (lambda: DerivativeSlopeTransformer()), "transform"
    if est == "dwt":
        from sktime.transformations.panel.dwt import DWTTransformer
        return (lambda: DWTTransformer(num_levels=cfg["num_levels"])), "transform"
    if est == "slope":
        from sktime.transformations.panel.slope import SlopeTransformer
        return (lambda: SlopeTransformer(num_intervals=cfg["num_intervals"])), "transform"
    if est == "hog1d":
        from sktime.transformations.panel.hog1d import HOG1DTransformer
        return (lambda: HOG1DTransformer(num_intervals=cfg["num_intervals"],
                                         num_bins=cfg["num_bins"])), "transform"
    if est == "mp":
        from sktime.transformations.panel.matrix_profile import MatrixProfile
        return (lambda: MatrixProfile(m=cfg["m"])), "transform"
    if est == "pca":
        from sktime.transformations.panel.pca import PCATransformer
        return (lambda: PCATransformer(n_components=cfg["n_components"])), "transform"
    if est == "shapelet":
        from sktime.transformations.panel.shapelets import ShapeletTransform
        return (lambda: ShapeletTransform(
            min_shapelet_length=cfg["min_len"], max_shapelet_length=cfg["max_len"],
            max_shapelets_to_store_per_class=cfg["per_class"], random_state=rs, verbose=0)), "transform"
    if est == "cshapelet":
        from sktime.transformations.panel.shapelets import ContractedShapeletTransform
        return (lambda: ContractedShapeletTransform(
            time_contract_in_mins=0.005, min_shapelet_length=cfg["min_len"],
            max_shapelet_length=cfg["max_len"], max_shapelets_to_store_per_class=cfg["per_class"],
            random_state=rs, verbose=0)), "transform"
    if est == "rocket":
        from sktime.transformations.panel.rocket._rocket import Rocket
        return (lambda: Rocket(num_kernels=cfg["num_kernels"], random_state=rs)), "transform"
    if est == "fpe":
        from sktime.forecasting.exp_smoothing import ExponentialSmoothing
        from sktime.transformations.panel.summarize._extract import FittedParamExtractor
        return (lambda: FittedParamExtractor(ExponentialSmoothing(), [cfg["param"]])), "transform"
    if est == "rowview":
        from sktime.transformations.panel.compose import SeriesToSeriesRowTransformer
        return (lambda: SeriesToSeriesRowTransformer(_DOUBLES["view"](cfg["how"], cfg["k"]))), \
            "transform"
    if est == "tab_f":
        from sktime.transformations.panel.reduce import Tabularizer
        return (lambda: Tabularizer()), "transform"
    if est == "pad_f":
        from sktime.transformations.panel.padder import PaddingTransformer
        return (lambda: PaddingTransformer()), "transform"
    raise AssertionError(est)


def _make_closed(case):
    import numpy as np
    t = case["t"]
    if t == "pad":
        from sktime.transformations.panel.padder import PaddingTransformer
        return lambda: PaddingTransformer(pad_length=case["pad_length"], fill_value=case["fill"])
    if t == "trunc":
        from sktime.transformations.panel.truncation import TruncationTransformer
        return lambda: TruncationTransformer(lower=case["lower"], upper=case["upper"])
    if t == "interp":
        from sktime.transformations.panel.interpolate import TSInterpolator
        return lambda: TSInterpolator(case["length"])
    if t == "tab":
        from sktime.transformations.panel.reduce import Tabularizer
        return lambda: Tabularizer()
    if t == "concat":
        from sktime.transformations.panel.compose import ColumnConcatenator
        return lambda: ColumnConcatenator()
    if t == "paa":
        from sktime.transformations.panel.dictionary_based._paa import PAA
        return lambda: PAA(num_intervals=case["m"])
    if t == "iseg_int":
        from sktime.transformations.panel.segment import IntervalSegmenter
        return lambda: IntervalSegmenter(intervals=case["k"])
    if t == "iseg_arr":
        from sktime.transformations.panel.segment import IntervalSegmenter
        return lambda: IntervalSegmenter(intervals=np.array(case["ivs"]))
    if t == "slide":
        from sktime.transformations.panel.segment import SlidingWindowSegmenter
        return lambda: SlidingWindowSegmenter(window_length=case["w"])
    if t == "rows2s":
        from sktime.transformations.panel.compose import SeriesToSeriesRowTransformer
        f = case["f"]
        if f[0] in ("identity", "reverse_view"):      # no copy: the input itself / a reversed view
            return lambda: SeriesToSeriesRowTransformer(
                _DOUBLES["view"]("identity" if f[0] == "identity" else "reversed"))
        return lambda: SeriesToSeriesRowTransformer(_DOUBLES[f[0]](*f[1:]))
    if t == "rows2p":
        from sktime.transformations.panel.compose import SeriesToPrimitivesRowTransformer
        from sktime.transformations.series.summarize import MeanTransformer
        return lambda: SeriesToPrimitivesRowTransformer(
            MeanTransformer() if case["g"] == "mean" else _DOUBLES["weighted"]())
    raise AssertionError(t)


class _Table:
    """exact rationals of the float64 outputs, hash-consed"""

    def __init__(self):
        self.vals = []
        self.index = {}

    def add(self, x):
        import math
        x = float(x)
        if math.isnan(x):
            key = "nan"
        elif math.isinf(x):
            key = "inf" if x > 0 else "-inf"
        else:
            n, d = x.as_integer_ratio()
            key = (n, d)
        if key not in self.index:
            self.index[key] = len(self.vals)
            self.vals.append(list(key) if isinstance(key, tuple) else key)
        return self.index[key]


_BAGS = [False]      # set by run_impl: the estimator's cells are word -> count bags (SFA)


def _is_seq(v):
    import numpy as np
    import pandas as pd
    return isinstance(v, (pd.Series, np.ndarray, list, tuple))


def _canon(out, tab, classes=None):
    """rows -> cells -> table indices"""
    import numpy as np
    import pandas as pd
    if isinstance(out, list) and len(out) == 1 and isinstance(out[0], list):      # SFA bags
        return [[[tab.add(v) for kv in sorted(b.items()) for v in kv]] for b in out[0]]
    if isinstance(out, pd.DataFrame):
        n, c = out.shape
        cells = [[out.iloc[i, j] for j in range(c)] for i in range(n)]
        if n and c and all(isinstance(v, dict) or hasattr(v, "items") and not _is_seq(v)
                           for row in cells for v in row):
            return [[[tab.add(x) for kv in sorted(dict(v).items()) for x in kv] for v in row]
                    for row in cells]
        if any(_is_seq(v) for row in cells for v in row):
            res = []
            for row in cells:
                r = []
                for v in row:
                    if _BAGS[0] and isinstance(v, pd.Series):
                        # a bag of words (SFA, return_pandas_data_series): word -> count
                        r.append([tab.add(x) for kv in sorted(v.items()) for x in kv])
                    elif _is_seq(v):
                        r.append([tab.add(x) for x in np.asarray(v, dtype=float).ravel()])
                    else:
                        r.append([tab.add(v)])
                res.append(r)
            return res
        return [[[tab.add(v) for v in row]] for row in cells]
    a = np.asarray(out)
    if classes is not None and a.ndim == 1:
        lut = {repr(c): i for i, c in enumerate(classes)}
        return [[[tab.add(lut.get(repr(v), -1))]] for v in a]
    if a.ndim == 1:
        return [[[tab.add(v)]] for v in a]
    if a.ndim == 2:
        return [[[tab.add(v) for v in row]] for row in a]
    return [[[tab.add(v) for v in col] for col in inst] for inst in a]


ERRS = (ValueError, TypeError, IndexError, KeyError, NotImplementedError, AttributeError,
        ZeroDivisionError, AssertionError)


def _apply(est, role, X, tab):
    if role == "transform":
        return _canon(est.transform(X), tab)
    if role == "regress":
        return _canon(est.predict(X), tab)
    P = _canon(est.predict_proba(X), tab)
    y = _canon(est.predict(X), tab, classes=list(est.classes_))
    if len(P) != len(y):
        return [p + [["row-count", len(P), len(y)]] for p in P]
    return [p + q for p, q in zip(P, y)]


def _labels(case, n):
    if case.get("labels") == "shuffled":
        base = [17, 3, 11, 5, 8, 29, 2, 13, 23, 7]
        return base[:n] if n <= len(base) else list(range(100, 100 + n))
    return None


def run_impl(case):
    import numpy as np
    closed = case["kind"] == "closed"
    cn = case.get("colnames", "var")
    if closed:
        mk, role = _make_closed(case), "transform"
        te = case["X"]
        tr = case["fit"] if case.get("fit") is not None else te
        y = None
    else:
        mk, role = _make_learned(case)
        tr, ytr, yreg, te = _problem(case)
        y = yreg if role == "regress" else ytr
    n = len(te)
    _BAGS[0] = case.get("est") == "sfa"
    tab = _Table()
    out = {"role": role, "n": n, "runs": []}
    Xtr = _nested(tr, cn)
    Xte = _nested(te, cn, index=_labels(case, n))
    try:
        est = mk()
        est.fit(Xtr, y)
    except ERRS as e:
        out["fit_err"] = "%s: %s" % (type(e).__name__, str(e)[:160])
        out["table"] = []
        return out
    try:
        out["batch"] = _apply(est, role, Xte, tab)
    except ERRS as e:
        out["batch"] = None
        out["batch_err"] = "%s: %s" % (type(e).__name__, str(e)[:160])

    def run(tag, idx, f):
        r = {"tag": tag, "idx": list(idx)}
        try:
            r["rows"] = f()
        except ERRS as e:
            r["rows"] = None
            r["err"] = "%s: %s" % (type(e).__name__, str(e)[:160])
        out["runs"].append(r)

    ident = list(range(n))
    for j, p in enumerate(case["perms"]):
        if j % 2 == 0:
            run("perm%d" % j, p, lambda: _apply(est, role, Xte.iloc[p], tab))
        else:
            run("perm%d" % j, p, lambda: _apply(est, role, Xte.iloc[p].reset_index(drop=True), tab))
    for i in range(n):
        if i % 2 == 0:
            run("single%d" % i, [i], lambda: _apply(est, role, Xte.iloc[[i]], tab))
        else:
            run("single%d" % i, [i],
                lambda: _apply(est, role, Xte.iloc[[i]].reset_index(drop=True), tab))
    sub = case["sub"]
    run("sub", sub, lambda: _apply(est, role, Xte.iloc[sub].reset_index(drop=True), tab))
    run("relabel", ident, lambda: _apply(est, role, _nested(te, cn, index=list(range(50, 50 + n))), tab))
    sd = case.get("seed", 0) if isinstance(case.get("seed", 0), int) else 0
    # row index x cell kind: the result may depend on neither (rows are positional)
    # (each case runs a rotating half of the label kinds, all cases together cover the grid)
    rot = (sd + n + len(case["sub"])) % 4
    kinds4 = ["default", "perm", "int", "str"]
    run("relabel_" + ("perm", "str")[rot % 2], ident,
        lambda: _apply(est, role, _nested(te, cn, index=_row_labels(("perm", "str")[rot % 2], n, sd)),
                       tab))
    for how in (kinds4[rot], kinds4[(rot + 1) % 4]):
        run("arr_" + how, ident,
            lambda: _apply(est, role, _nested(te, cn, index=_row_labels(how, n, sd),
                                              cells="array"), tab))
    Xarr = _nested(te, cn, index=_labels(case, n), cells="array")
    if case["perms"]:
        p0 = case["perms"][0]
        run("arr_iloc_perm", p0, lambda: _apply(est, role, Xarr.iloc[p0], tab))
    run("arr_iloc_sub", sub, lambda: _apply(est, role, Xarr.iloc[sub], tab))
    j1 = n - 1
    run("arr_iloc_single", [j1], lambda: _apply(est, role, Xarr.iloc[[j1]], tab))
    if _equal_len(te):
        run("3d_apply", ident, lambda: _apply(est, role, _to3d(te), tab))
        j = n // 2
        run("single3d", [j], lambda: _apply(est, role, _to3d(te)[j:j + 1], tab))
    if _equal_len(tr) and case.get("est") != "cshapelet":
        def fit3d():
            e2 = mk()
            e2.fit(_to3d(tr), y)
            return _apply(e2, role, Xte, tab)
        run("3d_fit", ident, fit3d)
        r3 = out["runs"][-1]
        if out.get("batch") is not None and not _same(tab.vals, out["batch"], r3.get("rows")):
            # control: is fitting reproducible at all?
            def refit():
                e2 = mk()
                e2.fit(_nested(tr, cn), y)
                return _apply(e2, role, Xte, tab)
            run("refit_control", ident, refit)
    if case.get("est") != "cshapelet":
        ntr = len(tr)
        for tag, cells, how in ((("fit_arr_perm", "array", "perm"), ("fit_ser_str", "series", "str"),
                                 ("fit_arr_str", "array", "str"), ("fit_ser_perm", "series", "perm"))[rot],):
            def fitv():
                e2 = mk()
                e2.fit(_nested(tr, cn, index=_row_labels(how, ntr, sd), cells=cells), y)
                return _apply(e2, role, Xte, tab)
            run(tag, ident, fitv)
    run("again", ident, lambda: _apply(est, role, Xte, tab))
    out["table"] = tab.vals
    return out


# ------------------------------------------------------------------------------------------------
# oracle: the theorems' conclusions restated on the implementation's outputs


def _fr(v):
    if isinstance(v, list):
        return Fr(v[0], v[1])
    return v      # "nan" / "inf" / "-inf"


def _vclose(tbl, a, b):
    if a == b:
        return True
    x, y = _fr(tbl[a]), _fr(tbl[b])
    if isinstance(x, str) or isinstance(y, str):
        return x == y
    return abs(x - y) <= Fr(1, 10 ** 9) * (1 + abs(x))


def _row_same(tbl, ra, rb):
    if len(ra) != len(rb):
        return False
    for ca, cb in zip(ra, rb):
        if len(ca) != len(cb):
            return False
        for a, b in zip(ca, cb):
            if isinstance(a, str) or isinstance(b, str):
                if a != b:
                    return False
            elif not _vclose(tbl, a, b):
                return False
    return True


def _same(tbl, A, B):
    if A is None or B is None or len(A) != len(B):
        return False
    return all(_row_same(tbl, a, b) for a, b in zip(A, B))


def _tied(tbl, row):
    """classifier row = [proba cell, pred cell]: is the maximal probability attained twice?"""
    if len(row) != 2:
        return False
    ps = [_fr(tbl[i]) for i in row[0]]
    if not ps or any(isinstance(p, str) for p in ps):
        return False
    return sum(1 for p in ps if p == max(ps)) > 1


CLAUSE = {"perm": "permutation-equivariance", "single": "single-instance-differs-from-batch-row",
          "sub": "sub-selection", "relabel": "row-order", "3d_apply": "container-dependence-at-apply",
          "single3d": "container-dependence-at-apply", "3d_fit": "container-dependence-at-fit",
          "again": "apply-changes-fitted-state", "arr_": "container-dependence-at-apply",
          "fit_": "container-dependence-at-fit"}


def _clause(tag):
    for k in ("single3d", "3d_apply", "3d_fit", "arr_", "fit_", "perm", "single", "sub", "relabel",
              "again"):
        if tag.startswith(k):
            return CLAUSE[k]
    return None


def oracle(case, out):
    if "fit_err" in out:
        return None
    tbl = out["table"]
    B = out.get("batch")
    who = case.get("est") or case.get("t")
    if B is None:
        return None       # the batch itself was refused: nothing to relate (closed: see the model)
    n = out["n"]
    if len(B) != n:
        return "row-count: %s returned %d rows for a batch of %d instances" % (who, len(B), n)
    if any(isinstance(c, list) and c and c[0] == "row-count" for r in B for c in r):
        return "row-count: %s predict and predict_proba disagree on the number of rows" % who
    runs = out["runs"]
    control = [r for r in runs if r["tag"] == "refit_control"]
    fit_reproducible = not control or _same(tbl, B, control[0].get("rows"))
    late = []
    for r in runs:
        cl = _clause(r["tag"])
        if cl is None:
            continue
        if r["tag"] == "3d_fit" and not fit_reproducible:
            continue
        rows = r.get("rows")
        if rows is None:
            msg = "%s: %s run '%s' raised %s although the batch was accepted" % (
                cl, who, r["tag"], r.get("err"))
            if r["tag"].startswith("arr_") or r["tag"].startswith("fit_arr"):
                # a frame with ndarray cells is refused: reported after every other comparison of
                # the case (a wrong VALUE elsewhere must not hide behind a refusal)
                late.append(msg)
                continue
            return msg
        idx = r["idx"]
        if len(rows) != len(idx):
            return "row-count: %s run '%s' returned %d rows for %d instances" % (
                who, r["tag"], len(rows), len(idx))
        exp = [B[i] for i in idx]
        bad = [k for k in range(len(idx)) if not _row_same(tbl, exp[k], rows[k])]
        if not bad:
            continue
        k = bad[0]
        # classifier: only the predicted label differs, on rows whose maximal probability is tied
        if out["role"] == "classify" and all(
                _tied(tbl, exp[j]) and _row_same(tbl, [exp[j][0]], [rows[j][0]]) for j in bad):
            late.append("%s/predict-on-tied-row: %s run '%s': instance %d has tied maximal "
                        "probabilities and gets another label than in the batch" % (
                            cl, who, r["tag"], idx[k]))
            continue
        # the expected rows are all there, in another order
        if len(rows) >= 2:
            left = list(range(len(exp)))
            for row in rows:
                hit = [j for j in left if _row_same(tbl, exp[j], row)]
                if not hit:
                    break
                left.remove(hit[0])
            else:
                return "row-order: %s run '%s': the expected rows come in another order (row %d)" % (
                    who, r["tag"], k)
        return "%s: %s run '%s': output row %d differs from batch row %d" % (
            cl, who, r["tag"], k, idx[k])
    if late:
        return late[0]
    return None


def nontrivial(case, out):
    B = out.get("batch")
    if not B or len(B) < 2:
        return False
    tbl = out["table"]
    distinct = any(not _row_same(tbl, B[0], b) for b in B[1:])
    return distinct and any(p != sorted(p) for p in case["perms"])


def shrink(case):
    c = dict(case)
    if len(c["perms"]) > 1:
        for i in range(len(c["perms"])):
            d = dict(c)
            d["perms"] = c["perms"][:i] + c["perms"][i + 1:]
            yield d
    if len(c["sub"]) > 1:
        d = dict(c)
        d["sub"] = c["sub"][:-1]
        yield d
    if c["kind"] == "learned":
        if c["n_test"] > 2:
            d = dict(c)
            d["n_test"] = c["n_test"] - 1
            n = d["n_test"]
            d["perms"] = [[i for i in p if i < n] for p in c["perms"]]
            d["sub"] = [i for i in c["sub"] if i < n] or [0]
            if c.get("flats") is not None:
                d["flats"] = c["flats"][:n]
            yield d
        if c.get("data") == "flat":
            for key in ("flats", "trflats"):
                for i, f in enumerate(c[key]):
                    if f is not None:
                        d = dict(c)
                        d[key] = c[key][:i] + [None] + c[key][i + 1:]
                        yield d
        for key, lo in (("n_train", 6), ("m", 12)):
            if c[key] > lo:
                d = dict(c)
                d[key] = max(lo, c[key] - 2)
                yield d
        if c.get("dup"):
            d = dict(c)
            d["dup"] = False
            yield d
        if c.get("labels") != "range":
            d = dict(c)
            d["labels"] = "range"
            yield d
    else:
        X = c["X"]
        if len(X) > 2:
            for i in range(len(X)):
                d = dict(c)
                d["X"] = X[:i] + X[i + 1:]
                n = len(d["X"])
                remap = lambda j: j if j < i else j - 1       # noqa: E731
                d["perms"] = [[remap(j) for j in p if j != i] for p in c["perms"]]
                d["sub"] = [remap(j) for j in c["sub"] if j != i] or [0]
                yield d
        if c.get("fit") is not None:
            d = dict(c)
            d["fit"] = None
            yield d
        if c.get("labels") != "range":
            d = dict(c)
            d["labels"] = "range"
            yield d


# ------------------------------------------------------------------------------------------------
# model side

CASES_HEADER = """From Coq Require Import QArith List Bool ZArith.
Require Import SkV.Lib.Base SkV.C14.Model SkV.C16.Model SkV.C16.Cases.
Import ListNotations.
Open Scope Z_scope.
"""


def _cqv(x):
    return cq(Fr(x)) + "%Q"


def _cser(s):
    return clist([_cqv(v) for v in s])


def _cpanel(p):
    return clist([clist([_cser(s) for s in row]) for row in p])


def _cipanel(rows):
    return clist([clist([clist([cz(i) for i in cell]) for cell in row]) for row in rows])


def _cidx(idx):
    return clist([cnat(i) for i in idx])


def _crun(r):
    return "(%s, %s)" % (_cidx(r["idx"]), copt(r.get("rows"), _cipanel))


def _ctable(tbl):
    return clist([cq(v) + "%Q" for v in tbl])


def _onat(v):
    return copt(v, cnat)


def _ctconf(case):
    t = case["t"]
    if t == "pad":
        return "(TPad %s %s)" % (_onat(case["pad_length"]), _cqv(case["fill"]))
    if t == "trunc":
        return "(TTrunc %s %s)" % (_onat(case["lower"]), _onat(case["upper"]))
    if t == "interp":
        return "(TInterp %s)" % cnat(case["length"])
    if t == "tab":
        return "TTab"
    if t == "concat":
        return "TConcat"
    if t == "paa":
        return "(TPaa %s)" % cnat(case["m"])
    if t == "iseg_int":
        return "(TISegInt false %s)" % cnat(case["k"])
    if t == "iseg_arr":
        return "(TISegArr %s)" % clist(["(%s, %s)" % (cnat(a), cnat(b)) for a, b in case["ivs"]])
    if t == "slide":
        return "(TSlide %s)" % cnat(case["w"])
    if t == "rows2s":
        f = case["f"]
        if f[0] == "affine":
            return "(TRowS2S (SAffine %s %s))" % (_cqv(f[1]), _cqv(f[2]))
        if f[0] == "identity":
            return "(TRowS2S (SAffine %s %s))" % (_cqv(1), _cqv(0))
        return "(TRowS2S %s)" % ("SCumsum" if f[0] == "cumsum" else "SReverse")
    if t == "rows2p":
        return "(TRowS2P %s)" % ("PMean" if case["g"] == "mean" else "PWeighted")
    raise AssertionError(t)


def _has_special(out):
    return any(isinstance(v, str) for v in out.get("table", []))


def _well_formed(rows):
    return rows is None or all(isinstance(i, int) for r in rows for c in r for i in c)


def coq_case(case, out):
    if "fit_err" in out or _has_special(out):
        return None
    runs = [r for r in out["runs"] if _clause(r["tag"]) is not None]
    control = [r for r in out["runs"] if r["tag"] == "refit_control"]
    if control and not _same(out["table"], out.get("batch"), control[0].get("rows")):
        runs = [r for r in runs if r["tag"] != "3d_fit"]       # fitting is not reproducible
    if not _well_formed(out.get("batch")) or not all(_well_formed(r.get("rows")) for r in runs):
        return None
    if case["kind"] == "closed":
        pfit = case["fit"] if case.get("fit") is not None else case["X"]
        return "CClosed %s %s %s %s %s %s" % (
            _ctconf(case), _cpanel(pfit), _cpanel(case["X"]), _ctable(out["table"]),
            copt(out.get("batch"), _cipanel), clist([_crun(r) for r in runs]))
    if out.get("batch") is None:
        return None
    return "CMeta %s %s %s" % (_ctable(out["table"]), _cipanel(out["batch"]),
                               clist([_crun(r) for r in runs]))


def coq_model_term(case):
    if case["kind"] == "closed":
        pfit = case["fit"] if case.get("fit") is not None else case["X"]
        t = _ctconf(case)
        terms = ["tapply %s (tfit %s %s) %s" % (t, t, _cpanel(pfit), _cpanel(case["X"]))]
        for p in case["perms"][:1]:
            terms.append("tapply %s (tfit %s %s) (pick %s %s)" % (
                t, t, _cpanel(pfit), _cidx(p), _cpanel(case["X"])))
        return "(%s)" % ", ".join(terms)
    n = case["n_test"]
    return "(%s)" % ", ".join("pick %s (seq 0 %s)" % (_cidx(p), cnat(n))
                              for p in (case["perms"] + [case["sub"]]))


def extra_coverage(cases, results, tier):
    try:
        done, rest = method_table()
    except Exception as e:      # the build step reports a failing translator as a broken tie
        return {"row_flow_extractor": "failed: %s" % e}
    return {"row_flow_translated_methods": len(done), "row_flow_sampled_only_methods": len(rest),
            "row_flow_translated": done, "row_flow_sampled_only": rest}


def distribution(cases, results):
    import collections
    d = collections.Counter()
    try:
        done, rest = method_table()
        for k in done:
            d["method:%s:proved-row-wise-by-construction" % k] = 1
        for k, why in rest.items():
            d["method:%s:sampled-only (%s)" % (k, why[:90])] = 1
    except Exception:
        pass
    for c, r in zip(cases, results):
        o = r.get("out") or {}
        who = c.get("est") or c.get("t")
        if "fit_err" in o:
            d["%s:fit-refused" % who] += 1
            continue
        d["%s:%s" % (who, "batch-refused" if o.get("batch") is None else "ran")] += 1
        for rr in o.get("runs", []):
            tag = rr["tag"].rstrip("0123456789")
            d["run:%s:%s" % (tag, "raised" if rr.get("rows") is None else "ok")] += 1
        if any(rr["tag"] == "refit_control" for rr in o.get("runs", [])):
            d["%s:3d-fit-differs-control-run" % who] += 1
        if _has_special(o):
            d["%s:nan-or-inf-in-output(not compared in Coq)" % who] += 1
    return dict(d)
