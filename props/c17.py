"""C17 - classifiers return well-formed probabilities consistent with their predictions."""
from fractions import Fraction

from harness.core import clist, cq, cz, czlist

ID = "C17"
MODEL_TARGETS = ["C17/Cases.vo"]
PROOF_TARGETS = ["C17/Gen.vo", "C17/Proofs.vo", "C17/Bridge.vo", "C17/CheckSound.vo", "C17/Sites.vo",
                 "C17/BridgeSites.vo"]
OBLIGATION_FILES = ["C17/Bridge.v", "C17/BridgeSites.v"]
PROPS_FILE = "C17/Props.v"
SHARD = 40
PER_CASE_TIMEOUT = 180
RULE = ("one case = one classifier fitted once on a generated tiny problem (8-14 training instances, "
        "12-24 time points (BOSSEnsemble: 20-24 points with min_window = 18, see NOT_RUNNABLE), 2..4 classes, labels int 0..k-1 / non-contiguous negative ints / strings / "
        "numeric strings whose sorted order differs from first appearance, class sizes balanced or "
        "skewed, three noise levels, random_state over ints (and None for forests), y as array or "
        "Series), evaluated on 5 fresh instances: BOSSEnsemble, ContractableBOSS, IndividualBOSS, "
        "MUSE, ColumnEnsembleClassifier (2-3 members of different kinds on their own columns; extra cases "
        "whose estimators list contains a 'drop' entry, an entry without columns, an unused column with "
        "remainder='drop', or a remainder estimator), "
        "TimeSeriesForestClassifier, RandomIntervalSpectralForest, SupervisedTimeSeriesForest, "
        "TimeSeriesForestRegressor; every runnable classifier on training panels of identical and "
        "near-identical series with conflicting labels (no unanimous member); time series forest classifier / regressor on data whose level is large "
        "relative to its spread (1e4..1e9), with tiny spreads, constant series or mixed levels, every "
        "feature of every tree compared with the two-pass mean / std / slope; refit histories (the same object fitted on problem A, then on problem B "
        "with another label set / type / number of classes; clauses after the last fit) for every one of "
        "them; extra SupervisedTimeSeriesForest problems that are small and balanced so "
        "that bootstrap bags miss classes (trees with fewer classes than the forest), three of them "
        "pinned in corpus/C17; plus function-level cases: BaseClassifier.predict/score on a "
        "scripted probability matrix with ties, _slope on random series, _transform on random "
        "series/intervals, _get_intervals with a scripted rng. non-trivial = ran without error and "
        "(for classifiers) at least one probability row or member vote is not unanimous, or k >= 3; "
        "distinct = distinct canonical JSON case")
TRUSTED = [
    "translator/slope_c17.py (Python ast -> Gallina for _slope, fail-closed); validated on every run "
    "because the regenerated gen_slope is proved equal to the model (Bridge.v) and compared with the "
    "implementation on random series",
    "translator/combine_c17.py on the symbolic executor translator/symexec_c19.py (fail-closed: the "
    "predict_proba / predict / score functions of the runnable classifiers, _transform and "
    "_get_intervals are executed on symbolic values and the returned value is translated): the numpy "
    "reading it encodes - np.sum(list of matrices, axis=0) = entry-wise sum over members, a vector of "
    "ones times a scalar = that scalar broadcast, np.searchsorted of a sorted sub-list = positions of "
    "its labels, votes[i, class_dictionary[label]] += w = weight_for, check_X / squeeze = the same "
    "series, delayed(f)(args) = f(args) - is trusted; the regenerated definitions are proved equal to "
    "the model (BridgeSites.v) and the model is compared with the running code",
    "props/c17.py driver_init: sklearn 1.7 ForestClassifier/ForestRegressor.__init__ wrapped to accept "
    "the removed `base_estimator=` keyword (mapped to `estimator=`, attribute `base_estimator` set) so "
    "that the interval forests can be constructed; nothing in /repo is patched",
    "the harness reads the fitted members' outputs with the members' own public methods "
    "(member.predict / predict_proba, sklearn tree.predict_proba and tree.classes_ on the forest's own "
    "_transform output - for SupervisedTimeSeriesForest the three _transform blocks (series, "
    "periodogram, first difference) concatenated by the harness in the order of "
    "_predict_proba_for_estimator, whose own result is compared too -, MUSE's fitted pipeline on its "
    "own _transform_words output)",
]
MODELLED = [
    "the fitted members (BOSS 1-NN members, decision trees, MUSE's logistic pipeline, column-ensemble "
    "members, RISE/STSF feature transforms) are oracles: their outputs are data, only the combination "
    "(vote counting / weighting / normalisation, averaging, column order, arg-max decoding, score) is "
    "modelled and proved; for learned members nothing about their accuracy is claimed",
    "float64 rounding is outside the model: comparison with tolerance 1e-9; forest features are "
    "stored as float32 by the code: tolerance 1e-5 * max(1, |value|); std is compared through its "
    "square (variance) in Coq and directly (two-pass float64) in the Python oracle; series levels are "
    "generated up to 1e9 in magnitude: the code's _slope (moment form in float64) has an absolute "
    "error of about 1e-16 * level, inside the tolerance there, beyond it from about 1e10 (notes/C17.md, O-2)",
    "tie rule: the model's predict is classes_[first arg-max] (np.argmax); the property only demands "
    "A maximal label, so the run accepts any label attaining the row maximum (BOSS/cBOSS choose at "
    "random among maxima); how often the implementation agrees with first-max is reported in the "
    "distribution, not enforced",
    "MUSE.predict is the logistic pipeline's own predict (decision function), not arg-max of its "
    "predict_proba: accepted if within 1e-9 of the row maximum",
    "random_state=None is not used for the BOSS family: IndividualBOSS breaks 1-NN distance ties with "
    "the global numpy RNG, so a member's vote is not reproducible between the ensemble's call and "
    "the harness's call",
    "labels: Python int and str only (float labels are refused by sklearn's LogisticRegression / "
    "trees as 'continuous'; mixed types cannot be sorted by numpy)",
]
NOT_RUNNABLE = [
    "BOSSEnsemble on series shorter than 18 points (= max(word_lengths) + 2), or with a min_window "
    "below that bound: not generated, because for a window w < 18 the ensemble may store a word "
    "length larger than min(16, w - 2·norm), the one its member's SFA transformer was built with, and "
    "SFA._create_word (an @njit function) then reads dft[i] / breakpoints[i] past the end of the "
    "arrays - garbage under the real numba, IndexError under the harness's numba stub; an "
    "environment-dependent artefact that says nothing about C17's sentences (notes/C17.md, O-1)",
    "TemporalDictionaryEnsemble, WEASEL: SFA(binning_method='information-gain') passes "
    "max_depth=np.log2(alphabet_size) (a float) to DecisionTreeClassifier; sklearn 1.7 parameter "
    "validation rejects it (and the Cython builder needs an int)",
    "KNeighborsTimeSeriesClassifier, ElasticEnsemble, ProximityForest, ShapeDTW: import "
    "sklearn.neighbors._base._check_weights (removed)",
    "shapelet_based (ShapeletTransformClassifier, ROCKETClassifier, MrSEQL): package __init__ imports "
    "the uncompiled mrseql extension",
    "ComposableTimeSeriesForestClassifier: abstract under sklearn 1.7 (_set_oob_score_and_attributes)",
    "CanonicalIntervalForest, DrCIF: need the soft dependency catch22 (not installed); HIVECOTEV1: imports "
    "the shapelet package",
]


def translate(repo):
    from translator import combine_c17, slope_c17
    out = dict(slope_c17.translate(repo))
    out.update(combine_c17.translate(repo))
    return out


# ------------------------------------------------------------------------------------------------
# case generation

CLFS = ["boss", "cboss", "iboss", "muse", "colens", "tsf", "rise", "stsf"]
# BOSSEnsemble problems are generated with series of at least this many points and the ensemble is
# built with min_window = this bound, so that EVERY window w it tries gives the SFA transformer the
# full word length: SFA.word_length = min(word_lengths[0] = 16, w - 2 [norm=True drops the first
# coefficient pair]) = 16 iff w >= 18.  Below it BOSSEnsemble.fit may store, through
# _set_word_len(best_word_len), a word length (a LABEL from [16, 14, 12, 10, 8]) that is larger than
# what the member's transformer was built with, and SFA._create_word then indexes past the DFT row
# and the breakpoint table (see notes/C17.md, observation O-1; outside property C17).  The driver
# re-derives the bound from the class (word_lengths, norm_options) and refuses shorter problems.
BOSS_MIN_SERIES = 18
LABELSETS = {
    "int01": [0, 1, 2, 3],
    "intgap": [7, -3, 1000, 42],
    "str": ["b", "a", "zz", "C"],
    "strnum": ["9", "10", "2", "100"],
}


# looked up by the extra cases only (not drawn by rng.choice(sorted(LABELSETS))): string labels whose
# FIRST class (in sorted order) is the shortest, so that an output array allocated with the first
# label's width would truncate every other label (seed C17-a)
LABELSETS_ALL = dict(LABELSETS, strlen=["bbbb", "a", "dddddd", "cc"])


def _sizes(rng, k, n):
    """k class sizes summing to about n, each >= 2; balanced or skewed."""
    if rng.random() < 0.45:
        base = [n // k] * k
        for i in range(n - sum(base)):
            base[i] += 1
        return base
    sizes = [2] * k
    for _ in range(max(0, n - 2 * k)):
        sizes[rng.choice([0, 0, 0] + list(range(k)))] += 1
    rng.shuffle(sizes)
    return sizes


def gen_cases(rng, tier):
    cases = []
    nprob = 22 if tier == "quick" else 120
    for p in range(nprob):
        for name in CLFS + ["tsfreg"]:
            k = rng.choice([2, 2, 3, 3, 4])
            n = rng.randint(max(8, 2 * k), 14)
            forest = name in ("tsf", "rise", "stsf", "tsfreg")
            c = {"kind": "clf", "clf": name, "seed": rng.randint(0, 10 ** 6), "k": k,
                 "labelset": rng.choice(sorted(LABELSETS)), "sizes": _sizes(rng, k, n),
                 "n_test": 5, "m": rng.randint(18, 24) if forest else
                 rng.randint(BOSS_MIN_SERIES + 2, 24) if name == "boss" else rng.randint(12, 16),
                 "noise": rng.choice([0.3, 1.0, 2.5]),
                 "rs": rng.choice([0, 1, 7, 42, 123, None]) if forest else rng.choice([0, 1, 7, 42, 123]),
                 "ycont": rng.choice(["array", "series"]),
                 "unseen_test_label": rng.random() < 0.25}
            if name == "colens":
                c["members"] = rng.choice([["iboss", "tsf"], ["tsf", "iboss", "cboss"],
                                           ["muse", "iboss"], ["boss", "tsf"], ["rise", "tsf", "iboss"]])
                c["m"] = rng.randint(BOSS_MIN_SERIES + 2, 24)
            if name == "tsfreg":
                c["kind"] = "reg"
            cases.append(c)
    for _ in range(40 if tier == "quick" else 300):
        k = rng.choice([2, 3, 4])
        n = rng.randint(1, 7)
        vals = [0, 1, 1, 2, 3, 4]
        rows = []
        for _i in range(n):
            r = [rng.choice(vals) for _j in range(k)]
            if sum(r) == 0:
                r[rng.randrange(k)] = 1
            rows.append([[v, sum(r)] for v in r])
        ls = rng.choice(sorted(LABELSETS))
        labels = LABELSETS_ALL[ls][:k]
        cases.append({"kind": "basepredict", "labelset": ls, "k": k, "rows": rows,
                      "ytest": [rng.choice(labels) for _i in range(n)]})
    for _ in range(60 if tier == "quick" else 500):
        n = rng.choice([2, 2, 3, 4, 5, 8, 13])
        cases.append({"kind": "slope", "ys": [[rng.randint(-40, 40), rng.choice([1, 2, 4, 8])]
                                              for _i in range(n)],
                      "axis": rng.choice([0, 1])})
    for _ in range(40 if tier == "quick" else 300):
        m = rng.randint(6, 14)
        ivs = []
        for _j in range(rng.randint(1, 3)):
            s = rng.randint(0, m - 3)
            e = rng.randint(s + 2, m)
            ivs.append([s, e])
        cases.append({"kind": "feat", "x": [[rng.randint(-64, 64), rng.choice([1, 2, 4, 8, 16])]
                                            for _i in range(m)], "ivs": ivs})
    for _ in range(40 if tier == "quick" else 300):
        sl = rng.randint(5, 30)
        mi = rng.randint(1, min(5, sl - 1))
        ni = rng.randint(1, 5)
        cases.append({"kind": "intervals", "ni": ni, "mi": mi, "sl": sl,
                      "draws": [rng.randint(0, 10 ** 6) for _i in range(2 * ni)]})
    # SupervisedTimeSeriesForest fits every tree on a bootstrap bag; on small balanced problems
    # (no class below the average, so no balancing cases are added) a bag misses a class in about
    # half of the forests: such a tree knows fewer classes than the forest (F-C17-1, repaired)
    for _ in range(12 if tier == "quick" else 80):
        k = rng.choice([3, 3, 4])
        cases.append({"kind": "clf", "clf": "stsf", "seed": rng.randint(0, 10 ** 6), "k": k,
                      "labelset": rng.choice(sorted(LABELSETS)), "sizes": [rng.choice([2, 3])] * k,
                      "n_test": 3, "m": rng.randint(18, 24), "noise": rng.choice([0.3, 1.0, 2.5]),
                      "rs": rng.choice([0, 1, 7, 42, 123]), "ycont": rng.choice(["array", "series"]),
                      "unseen_test_label": rng.random() < 0.25})
    # column ensembles whose `estimators` list has entries that are never fitted ('drop', an empty
    # column selection), columns nobody uses (remainder='drop') or a remainder estimator: the
    # probabilities are the mean over the FITTED members, whatever the length of the list
    for i in range(14 if tier == "quick" else 70):
        k = rng.choice([2, 3, 3, 4])
        n = rng.randint(max(8, 2 * k), 12)
        mem = rng.choice([["iboss", "tsf"], ["tsf", "iboss"], ["iboss", "tsf", "iboss"], ["tsf", "tsf"]])
        spec = [{"drop": rng.randint(0, 5)}, {"empty": rng.randint(0, 5)}, {"extra_col": True},
                {"remainder": rng.choice(["iboss", "tsf"])}, {"drop": rng.randint(0, 5), "empty": rng.randint(0, 5)},
                {"drop": rng.randint(0, 5), "remainder": "iboss"}, {"drop": rng.randint(0, 5), "extra_col": True}][i % 7]
        cases.append({"kind": "clf", "clf": "colens", "seed": rng.randint(0, 10 ** 6), "k": k,
                      "labelset": rng.choice(sorted(LABELSETS)), "sizes": _sizes(rng, k, n), "n_test": 3,
                      "m": rng.randint(18, 22), "noise": rng.choice([0.3, 1.0, 2.5]),
                      "rs": rng.choice([0, 1, 7, 42, 123]), "ycont": rng.choice(["array", "series"]),
                      "unseen_test_label": rng.random() < 0.25, "members": mem, "spec": spec})
    # column ensembles whose columns are specified by NAME, predicted on a frame that presents the
    # same variables in ANOTHER ORDER: a member must read the variable the user named (seed C17-d);
    # also by position with a reordered frame (then positions are what the user asked for)
    for i in range(12 if tier == "quick" else 60):
        k = rng.choice([2, 3, 3, 4])
        n = rng.randint(max(8, 2 * k), 12)
        mem = rng.choice([["iboss", "tsf"], ["tsf", "iboss"], ["iboss", "tsf", "iboss"], ["tsf", "tsf", "iboss"]])
        spec = [{"by_name": True, "reorder": rng.randint(0, 99)}, {"by_name": True, "reorder": rng.randint(0, 99)},
                {"by_name": True}, {"reorder": rng.randint(0, 99)},
                {"by_name": True, "reorder": rng.randint(0, 99), "drop": rng.randint(0, 5)},
                {"by_name": True, "reorder": rng.randint(0, 99), "empty": rng.randint(0, 5)}][i % 6]
        cases.append({"kind": "clf", "clf": "colens", "seed": rng.randint(0, 10 ** 6), "k": k,
                      "labelset": rng.choice(sorted(LABELSETS)), "sizes": _sizes(rng, k, n), "n_test": 4,
                      "m": rng.randint(18, 22), "noise": rng.choice([1.0, 2.5]),
                      "rs": rng.choice([0, 1, 7, 42, 123]), "ycont": rng.choice(["array", "series"]),
                      "unseen_test_label": rng.random() < 0.25, "members": mem, "spec": spec})
    # level / scale of the data for the forests whose trees see mean / std / slope of intervals: a level
    # of 1e4..1e9 with unit or tiny spread, constant series, a mix of levels in one panel (a one-pass
    # variance E[y^2] - mean^2 cancels there: seed C17-f)
    for i in range(16 if tier == "quick" else 80):
        name = ["tsf", "tsfreg"][i % 2]
        k = rng.choice([2, 3])
        n = rng.randint(max(8, 2 * k), 12)
        lv = [{"levels": [1e8], "spreads": [1.0]}, {"levels": [1e9], "spreads": [1.0]},
              {"levels": [1e6], "spreads": [1.0, 1e-2]}, {"levels": [1e4, 1e8], "spreads": [1.0]},
              {"levels": [1e8], "spreads": [1.0, 0.0]}, {"levels": [0.0, 1e9], "spreads": [1.0, 1e-3]},
              {"levels": [1e7], "spreads": [3.0]}, {"levels": [-1e8, 1e8], "spreads": [1.0]}][(i // 2) % 8]
        c = {"kind": "clf", "clf": name, "seed": rng.randint(0, 10 ** 6), "k": k,
             "labelset": rng.choice(sorted(LABELSETS)), "sizes": _sizes(rng, k, n), "n_test": 5,
             "m": rng.randint(18, 24), "noise": rng.choice([0.3, 1.0]), "rs": rng.choice([0, 1, 7, 42, 123]),
             "ycont": rng.choice(["array", "series"]), "unseen_test_label": False, "level": lv}
        if name == "tsfreg":
            c["kind"] = "reg"
        cases.append(c)
    # duplicate / near-duplicate series with conflicting labels, for every runnable classifier: no member
    # can be unanimous on them (impure tree leaves, tied 1-NN distances), so predict must really be
    # tied to predict_proba (seed C17-g: the forest's predict counts one vote per tree)
    for i in range(40 if tier == "quick" else 200):
        name = "tsf" if i % 2 == 0 else CLFS[(i // 2) % len(CLFS)]
        forest = name in ("tsf", "rise", "stsf")
        k = rng.choice([2, 2, 3, 4])
        m = rng.randint(18, 24) if forest else rng.randint(BOSS_MIN_SERIES + 2, 24) if name in ("boss", "colens") \
            else rng.randint(12, 16)
        groups = _dup_groups(rng, k, m, big=forest or name == "muse")
        c = {"kind": "clf", "clf": name, "seed": rng.randint(0, 10 ** 6), "k": k,
             "labelset": rng.choice(sorted(LABELSETS)),
             "sizes": [sum(g["counts"][cl] for g in groups) for cl in range(k)],
             "n_test": len(groups) + rng.choice([0, 1]), "m": m, "noise": rng.choice([0.3, 1.0]),
             "rs": rng.choice([0, 1, 7, 42, 123]), "ycont": rng.choice(["array", "series"]),
             "unseen_test_label": False,
             "dup": {"groups": groups, "jitter": rng.choice([0.0, 0.0, 1e-9])}}
        if name == "colens":
            c["members"] = rng.choice([["iboss", "tsf"], ["tsf", "iboss", "cboss"], ["rise", "tsf", "iboss"]])
        cases.append(c)
    # refit histories: the SAME estimator object is fitted on problem A and then on problem B
    # (another label set, label type and / or number of classes); every clause is checked after the
    # LAST fit - nothing of the first problem (classes, lookups, members) may survive (seed C17-e)
    for i in range(27 if tier == "quick" else 108):
        name = (CLFS + ["tsfreg"])[i % 9]
        k = rng.choice([2, 2, 3])
        n = rng.randint(max(8, 2 * k), 12)
        forest = name in ("tsf", "rise", "stsf", "tsfreg")
        ls = rng.choice(sorted(LABELSETS))
        how = i % 3          # 0: other label set and more classes, 1: same labels plus more, 2: other type, fewer
        ka = [rng.choice([3, 4]), rng.choice([k + 1, 4]), 2][how]
        lsa = ls if how == 1 else rng.choice([x for x in sorted(LABELSETS) if x != ls])
        c = {"kind": "clf", "clf": name, "seed": rng.randint(0, 10 ** 6), "k": k, "labelset": ls,
             "sizes": _sizes(rng, k, n), "n_test": 4,
             "m": rng.randint(18, 24) if forest else rng.randint(BOSS_MIN_SERIES + 2, 24) if name in ("boss", "colens")
             else rng.randint(12, 16),
             "noise": rng.choice([0.3, 1.0, 2.5]), "rs": rng.choice([0, 1, 7, 42, 123]),
             "ycont": rng.choice(["array", "series"]), "unseen_test_label": rng.random() < 0.25,
             "prefit": {"k": ka, "labelset": lsa, "sizes": _sizes(rng, ka, rng.randint(max(8, 2 * ka), 12)),
                        "seed": rng.randint(0, 10 ** 6)}}
        if name == "colens":
            c["members"] = rng.choice([["iboss", "tsf"], ["tsf", "iboss", "cboss"], ["boss", "tsf"]])
        if name == "tsfreg":
            c["kind"] = "reg"
        cases.append(c)
    # the vote counters with string labels of different lengths, the shortest first in classes_
    for i in range(8 if tier == "quick" else 40):
        k = rng.choice([3, 4])
        n = rng.randint(max(8, 2 * k), 12)
        name = ["boss", "cboss", "iboss", "muse"][i % 4]
        cases.append({"kind": "clf", "clf": name, "seed": rng.randint(0, 10 ** 6), "k": k, "labelset": "strlen",
                      "sizes": _sizes(rng, k, n), "n_test": 5,
                      "m": rng.randint(BOSS_MIN_SERIES + 2, 24) if name == "boss" else rng.randint(12, 16),
                      "noise": rng.choice([0.3, 1.0]), "rs": rng.choice([0, 1, 7, 42, 123]),
                      "ycont": rng.choice(["array", "series"]), "unseen_test_label": False})
    # ContractableBOSS weights a member by (leave-one-out train accuracy)^4 measured on a 70 %
    # subsample: with two instances per class most left-out instances have no neighbour of their own
    # class, so members with accuracy 0 - and ensembles made of such members only - occur
    # (F-C17-2, repaired: the weights must not all be zero)
    for _ in range(10 if tier == "quick" else 60):
        k = rng.choice([3, 4, 4])
        cases.append({"kind": "clf", "clf": "cboss", "seed": rng.randint(0, 10 ** 6), "k": k,
                      "labelset": rng.choice(sorted(LABELSETS)), "sizes": [2] * k, "n_test": 3,
                      "m": rng.randint(12, 16), "noise": rng.choice([0.3, 1.0, 2.5]),
                      "rs": rng.choice([0, 1, 7, 42, 123]), "ycont": rng.choice(["array", "series"]),
                      "unseen_test_label": rng.random() < 0.25})
    # BOSSEnsemble with a SMALL cap on the number of members (max_ensemble_size 1, 2, 3) crossed with
    # the accuracy threshold (class default / 0.5): the cap is reached while the windows are searched
    # and a later window that beats the weakest member evicts it, so the ensemble that votes is not
    # the list of everything that was ever admitted (seed C17-i).  Appended after every other stream:
    # the earlier cases of every seed are unchanged.  min_window / series length as for every
    # BOSSEnsemble problem (BOSS_MIN_SERIES).
    for i in range(18 if tier == "quick" else 90):
        k = rng.choice([2, 2, 3])
        n = rng.randint(max(8, 2 * k), 14)
        cases.append({"kind": "clf", "clf": "boss", "seed": rng.randint(0, 10 ** 6), "k": k,
                      "labelset": rng.choice(sorted(LABELSETS)), "sizes": _sizes(rng, k, n), "n_test": 5,
                      "m": rng.randint(BOSS_MIN_SERIES + 2, 24), "noise": rng.choice([0.3, 1.0, 2.5]),
                      "rs": rng.choice([0, 1, 7, 42, 123]), "ycont": rng.choice(["array", "series"]),
                      "unseen_test_label": rng.random() < 0.25,
                      "boss": {"cap": 1 + i % 3, "threshold": [None, 0.5][(i // 3) % 2]}})
    return cases


# ------------------------------------------------------------------------------------------------
# implementation side


def driver_init():
    """sklearn 1.7 renamed ForestClassifier(base_estimator=) to estimator=; sktime 0.6.0 passes the
    old keyword.  Accept it (harness side; /repo is untouched)."""
    import sklearn.ensemble._forest as F

    def wrap(cls):
        orig = cls.__init__
        if getattr(orig, "_c17_wrapped", False):
            return

        def init(self, estimator=None, n_estimators=100, *, base_estimator=None, **kw):
            if base_estimator is not None and estimator is None:
                estimator = base_estimator
            orig(self, estimator, n_estimators=n_estimators, **kw)
            self.base_estimator = estimator
        init._c17_wrapped = True
        cls.__init__ = init
    wrap(F.ForestClassifier)
    wrap(F.ForestRegressor)


def _lab(v):
    """canonical, typed label"""
    import numpy as np
    if isinstance(v, (bool, np.bool_)):
        return ["o", repr(v)]
    if isinstance(v, (int, np.integer)):
        return ["i", int(v)]
    if isinstance(v, str):
        return ["s", str(v)]
    return ["o", repr(v)]


def _ratio(x):
    import math
    x = float(x)
    if math.isnan(x) or math.isinf(x):
        return None
    n, d = x.as_integer_ratio()
    return [n, d]


def _problem(case, ncols=1):
    """Deterministic tiny panel problem: (X_train nested, y_train list, X_test nested, y_test list)."""
    import numpy as np
    import pandas as pd
    r = np.random.RandomState(case["seed"])
    k, m = case["k"], case["m"]
    labels = LABELSETS_ALL[case["labelset"]][:k]
    t = np.arange(m)

    def series(c):
        f = 1 + c
        return (np.sin(2 * np.pi * f * t / m + 0.5 * c) * (1 + 0.3 * c) + (c - 1) * t / m
                + case["noise"] * r.normal(size=m))
    cls_train = [c for c, s in enumerate(case["sizes"]) for _ in range(s)]
    r.shuffle(cls_train)
    cls_test = [int(r.randint(0, k)) for _ in range(case["n_test"])]

    # data dimension level / scale: y = level + spread * (the series above); a level that is large
    # relative to the spread (raw counters, timestamps), tiny spreads, constant series (spread 0),
    # or a mix of levels within one panel
    lv = case.get("level")
    r2 = np.random.RandomState(case["seed"] + 7)

    def scaled(v):
        if lv is None:
            return v
        level = lv["levels"][r2.randint(len(lv["levels"]))]
        spread = lv["spreads"][r2.randint(len(lv["spreads"]))]
        return level + spread * v

    def panel(cls):
        return pd.DataFrame({"dim_%d" % j: [pd.Series(scaled(series(c))) for c in cls] for j in range(ncols)})
    if case.get("dup"):
        return _dup_problem(case, ncols, series, labels)
    Xtr, Xte = panel(cls_train), panel(cls_test)
    ytr = [labels[c] for c in cls_train]
    yte = [labels[c] for c in cls_test]
    if case.get("unseen_test_label"):
        yte[0] = "never" if isinstance(labels[0], str) else 999999
    return Xtr, ytr, Xte, yte


def _dup_problem(case, ncols, series, labels):
    """data dimension duplicates with conflicting labels: the training panel consists of GROUPS of
    identical series (optionally with a jitter far below float32 resolution); a group is a class
    prototype, possibly changed on its last `tail` points only (a near-duplicate of another group,
    indistinguishable on every interval that ends before the tail), and carries `counts[c]` copies
    labelled with class c - so members cannot have pure leaves / unanimous neighbours.  The test
    instances are the group series themselves."""
    import numpy as np
    import pandas as pd
    dp, m = case["dup"], case["m"]
    r3 = np.random.RandomState(case["seed"] + 11)
    cols = []
    for _ in range(ncols):
        protos = [series(c) for c in range(case["k"])]
        gs = []
        for g in dp["groups"]:
            v = protos[g["base"]].copy()
            if g["tail"]:
                v[m - g["tail"]:] += g["shift"]
            gs.append(v)
        cols.append(gs)
    train = [(gi, c) for gi, g in enumerate(dp["groups"]) for c, cnt in enumerate(g["counts"]) for _ in range(cnt)]
    train = [train[i] for i in r3.permutation(len(train))]
    test = [i % len(dp["groups"]) for i in range(case["n_test"])]

    def inst(j, gi):
        v = cols[j][gi].copy()
        if dp.get("jitter"):
            v = v + dp["jitter"] * r3.normal(size=m)
        return pd.Series(v)

    def panel(gis):
        return pd.DataFrame({"dim_%d" % j: [inst(j, gi) for gi in gis] for j in range(ncols)})
    Xtr, Xte = panel([gi for gi, _ in train]), panel(test)
    ytr = [labels[c] for _, c in train]
    yte = [labels[max(range(case["k"]), key=lambda c: dp["groups"][gi]["counts"][c])] for gi in test]
    return Xtr, ytr, Xte, yte


def _dup_groups(rng, k, m, big):
    """groups for _dup_problem: for some prototypes p a group of identical series with conflicting
    labels (class p vs another class at various ratios, exact ties included) and a near-duplicate of
    it (different on the last `tail` points only) that belongs to the other class; plain groups so
    that every class occurs at least twice"""
    mixes = [(11, 9), (6, 4), (3, 2), (5, 5), (7, 3), (4, 3), (9, 8)] if big else [(3, 2), (2, 2), (4, 3), (4, 2)]

    def counts(**kw):
        return [kw.get("c%d" % c, 0) for c in range(k)]
    groups, seen = [], [0] * k
    conflicted = [0] + [p for p in range(1, k) if big and rng.random() < 0.6]
    for p in conflicted:
        a, b = rng.choice(mixes)
        other = rng.choice([c for c in range(k) if c != p])
        groups.append({"base": p, "tail": 0, "shift": 0.0, "counts": counts(**{"c%d" % p: a, "c%d" % other: b})})
        nb = rng.choice([a + b, a, b + 1]) if big else rng.choice([2, 3])
        groups.append({"base": p, "tail": rng.choice([2, 3, 3, 4, 5, m // 3]), "shift": rng.choice([1.5, -2.0, 0.75]),
                       "counts": counts(**{"c%d" % other: nb})})
        seen[p] += a
        seen[other] += b + nb
    for c in range(k):
        if seen[c] < 2 or (c not in conflicted and rng.random() < 0.5):
            cs = {"c%d" % c: rng.choice([3, 4, 6]) if big else 2}
            if rng.random() < 0.4:
                cs["c%d" % ((c + 1) % k)] = 2 if big else 1
            groups.append({"base": c, "tail": 0, "shift": 0.0, "counts": counts(**cs)})
    return groups


def _ycont(y, how):
    import numpy as np
    import pandas as pd
    return pd.Series(y) if how == "series" else np.array(y)


def _boss_min_window():
    """smallest window for which every word-length label BOSSEnsemble may store fits the member's
    SFA transformer: SFA.word_length = min(word_length, window_size - (2 if norm else 0))"""
    from sktime.classification.dictionary_based._boss import BOSSEnsemble
    probe = BOSSEnsemble()
    return max(probe.word_lengths) + (2 if True in probe.norm_options else 0)


def _make(name, rs, m=None, boss=None):
    if name == "boss":
        from sktime.classification.dictionary_based._boss import BOSSEnsemble
        mw = _boss_min_window()
        if m is not None and m < mw:
            raise _FitRefused("BOSSEnsemble: series of %d points, shorter than the %d points below which "
                              "SFA._create_word indexes past its DFT buffer (not generated)" % (m, mw))
        if boss:
            # small caps (generated dimension): the cap is reached during fit and later windows
            # compete with the weakest member; threshold None = the class default
            kw = {} if boss.get("threshold") is None else {"threshold": boss["threshold"]}
            return BOSSEnsemble(max_ensemble_size=boss["cap"], min_window=mw, random_state=rs, **kw)
        return BOSSEnsemble(max_ensemble_size=3 + (rs or 0) % 3, min_window=mw, random_state=rs)
    if name == "cboss":
        from sktime.classification.dictionary_based._cboss import ContractableBOSS
        return ContractableBOSS(n_parameter_samples=8, max_ensemble_size=4, random_state=rs)
    if name == "iboss":
        from sktime.classification.dictionary_based._boss import IndividualBOSS
        return IndividualBOSS(window_size=8 + (rs or 0) % 3, word_length=4 + 2 * ((rs or 0) % 2),
                              norm=bool((rs or 0) % 2), random_state=rs)
    if name == "muse":
        from sktime.classification.dictionary_based._muse import MUSE
        return MUSE(random_state=rs)
    if name == "tsf":
        from sktime.classification.interval_based._tsf import TimeSeriesForestClassifier
        return TimeSeriesForestClassifier(n_estimators=3 + (rs or 0) % 3, random_state=rs)
    if name == "rise":
        from sktime.classification.interval_based._rise import RandomIntervalSpectralForest
        return RandomIntervalSpectralForest(n_estimators=4, min_interval=6, acf_lag=5, random_state=rs)
    if name == "stsf":
        from sktime.classification.interval_based._stsf import SupervisedTimeSeriesForest
        return SupervisedTimeSeriesForest(n_estimators=4, random_state=rs)
    raise AssertionError(name)


def _member_rows(name, clf, X):
    """Per-member outputs on panel X, read with the members' own methods.
    -> ("votes", [(weight, [label per instance])...]) or ("rows", [matrix per member])"""
    import numpy as np
    from sktime.utils.data_processing import from_nested_to_3d_numpy
    if name == "boss":
        return "votes", [(1.0, list(m.predict(X))) for m in clf.classifiers]
    if name == "cboss":
        return "votes", [(float(w), list(m.predict(X))) for m, w in zip(clf.classifiers, clf.weights)]
    if name == "iboss":
        return "votes", [(1.0, list(clf.predict(X)))]
    if name == "muse":
        return "rows", [np.asarray(clf.clf.predict_proba(clf._transform_words(X)))]
    X2 = from_nested_to_3d_numpy(X).squeeze(1)
    # forests: every tree's OWN predict_proba on the forest's own feature transform, with the
    # tree's OWN classes_ (a tree fitted on a bootstrap bag may know fewer classes than the forest)
    if name == "tsf":
        from sktime.series_as_features.base.estimators.interval_based._tsf import _transform
        return "trees", [(list(e.classes_), np.asarray(e.predict_proba(_transform(X2, iv))))
                         for e, iv in zip(clf.estimators_, clf.intervals_)]
    if name == "rise":
        from sktime.classification.interval_based import _rise
        return "trees", [(list(e.classes_),
                          np.asarray(e.predict_proba(_rise._transform(X2, clf.intervals[i], clf.lags[i]))))
                         for i, e in enumerate(clf.estimators_)]
    if name == "stsf":
        from scipy import signal
        _, X_p = signal.periodogram(X2)
        X_d = np.diff(X2, 1)
        out = []
        for i in range(clf.n_estimators):
            iv, e = clf.intervals_[i], clf.estimators_[i]
            feats = np.concatenate((clf._transform(X2, iv[0]), clf._transform(X_p, iv[1]),
                                    clf._transform(X_d, iv[2])), axis=1)
            out.append((list(e.classes_), np.asarray(e.predict_proba(feats))))
        return "trees", out
    raise AssertionError(name)


def _stsf_method_rows(clf, X):
    """SupervisedTimeSeriesForest._predict_proba_for_estimator per tree (what predict_proba sums)."""
    import numpy as np
    from scipy import signal
    from sktime.utils.data_processing import from_nested_to_3d_numpy
    X2 = from_nested_to_3d_numpy(X).squeeze(1)
    _, X_p = signal.periodogram(X2)
    X_d = np.diff(X2, 1)
    return [np.asarray(clf._predict_proba_for_estimator(X2, X_p, X_d, clf.intervals_[i],
                                                        clf.estimators_[i]))
            for i in range(clf.n_estimators)]


def _tsf_feats_all(est, X):
    """every tree's _transform output on every instance, with the raw series and the intervals"""
    from sktime.series_as_features.base.estimators.interval_based._tsf import _transform
    from sktime.utils.data_processing import from_nested_to_3d_numpy
    X2 = from_nested_to_3d_numpy(X).squeeze(1)
    return {"X": [[float(v) for v in row] for row in X2],
            "trees": [{"ivs": [[int(a), int(b)] for a, b in iv],
                       "rows": [[float(v) for v in row] for row in _transform(X2, iv)]}
                      for iv in est.intervals_]}


def _tsf_feats(clf, X, limit=2):
    """_transform rows of the first instances for every tree, with the raw series and intervals."""
    from sktime.series_as_features.base.estimators.interval_based._tsf import _transform
    from sktime.utils.data_processing import from_nested_to_3d_numpy
    X2 = from_nested_to_3d_numpy(X).squeeze(1)
    out = []
    for iv in clf.intervals_[:2]:
        Xt = _transform(X2, iv)
        for i in range(min(limit, X2.shape[0])):
            out.append({"x": [_ratio(v) for v in X2[i]], "ivs": [[int(a), int(b)] for a, b in iv],
                        "row": [_ratio(v) for v in Xt[i]]})
    return out


# fit-time refusals that are outside this property (it speaks about FITTED classifiers); anything
# else raised by fit is reported
KNOWN_FIT_REFUSALS = [
    ("MUSE", "0 feature(s)"),   # chi-squared word selection kept no word on uninformative data
]


class _FitRefused(Exception):
    pass


def _fit(clf, X, y):
    try:
        clf.fit(X, y)
    except ValueError as e:
        for who, what in KNOWN_FIT_REFUSALS:
            if what in str(e) and who in repr(clf):
                raise _FitRefused("%s: %s" % (who, what))
        raise


def _prefit(est, case, ncols=1, regression=False):
    """history `fit on problem A, then fit the SAME object on problem B`: the earlier fit (another
    label set / label type / number of classes, same series length) must leave nothing behind"""
    pre = case.get("prefit")
    if not pre:
        return
    import numpy as np
    a = dict(case, **pre)
    a["unseen_test_label"] = False
    XA, yA, _x, _y = _problem(a, ncols=ncols)
    if regression:
        est.fit(XA, np.random.RandomState(a["seed"] + 1).normal(size=len(yA)) * 3)
    else:
        _fit(est, XA, _ycont(yA, case["ycont"]))


def _run_clf(case):
    import numpy as np
    name = case["clf"]
    if name == "colens":
        from sktime.classification.compose._column_ensemble import (ColumnEnsembleClassifier,
                                                                    _get_column)
        mem = case["members"]
        spec = case.get("spec") or {}
        # entries of the estimators list that are never fitted: the documented 'drop' specifier and an
        # entry whose column selection is empty; columns nobody uses (remainder='drop') or that go to
        # a remainder estimator
        extra = 1 if (spec.get("extra_col") or spec.get("remainder")) else 0
        Xtr, ytr, Xte, yte = _problem(case, ncols=len(mem) + extra)
        # column specifications by position, or (spec by_name) by the NAME of the variable; with names
        # the test frame may present the same variables in another order (spec reorder)
        def colspec(j):
            return ["dim_%d" % j] if spec.get("by_name") else [j]
        ests = [("m%d" % j, _make(n, (case["rs"] or 0) + j, case["m"]), colspec(j)) for j, n in enumerate(mem)]
        if spec.get("reorder") is not None:
            perm = list(Xte.columns)
            np.random.RandomState(spec["reorder"]).shuffle(perm)
            if perm == list(Xte.columns):
                perm = perm[1:] + perm[:1]
            Xte = Xte[perm]
        if spec.get("drop") is not None:
            ests.insert(spec["drop"] % (len(ests) + 1), ("dropped", "drop", [spec["drop"] % len(mem)]))
        if spec.get("empty") is not None:
            ests.insert(spec["empty"] % (len(ests) + 1), ("nocols", _make("iboss", 77, case["m"]), []))
        rem = _make(spec["remainder"], (case["rs"] or 0) + 11, case["m"]) if spec.get("remainder") else "drop"
        clf = ColumnEnsembleClassifier(ests, remainder=rem)
        _prefit(clf, case, ncols=len(mem) + extra)
        _fit(clf, Xtr, _ycont(ytr, case["ycont"]))
        kind = "rows"
        # the FITTED members on THEIR columns of the test frame: the columns the USER specified in
        # `estimators` (not what the fitted object recorded in estimators_: a specification that the
        # code resolved to training positions would hide a wrong column at prediction time); only
        # the remainder has no user specification (positions computed by fit)
        user_cols = {nm: col for nm, _e, col in ests}
        members = [np.asarray(e.predict_proba(_get_column(Xte, user_cols.get(nm, col))))
                   for nm, e, col in clf.estimators_]
        colens_info = {"n_spec": len(ests), "n_fitted": len(clf.estimators_),
                       "want_fitted": len(mem) + (1 if spec.get("remainder") else 0),
                       "fitted_cols": [[c if isinstance(c, str) else int(c) for c in col]
                                       for _, _, col in clf.estimators_],
                       "test_columns": [str(c) for c in Xte.columns]}
    else:
        Xtr, ytr, Xte, yte = _problem(case)
        clf = _make(name, case["rs"], case["m"], case.get("boss"))
        _prefit(clf, case)
        _fit(clf, Xtr, _ycont(ytr, case["ycont"]))
        kind, members = _member_rows(name, clf, Xte)
    try:
        proba = np.asarray(clf.predict_proba(Xte))
    except ValueError as e:
        if kind != "trees":
            raise
        import traceback
        tb = traceback.extract_tb(e.__traceback__)[-1]
        return {"err": "%s: %s (%s:%d)" % (type(e).__name__, str(e)[:100], tb.filename.split("/")[-1],
                                           tb.lineno),
                "where": "predict_proba of the fitted forest; classes_=%s, the trees' own classes_=%s" % (
                    [_lab(v)[1] for v in clf.classes_], [[_lab(v)[1] for v in tc] for tc, _ in members])}
    pred_err = None
    try:
        pred = clf.predict(Xte)
        score = clf.score(Xte, _ycont(yte, case["ycont"]))
    except ValueError as e:
        if np.isfinite(np.asarray(proba, dtype=float)).all():
            raise
        # predict on top of non-finite probabilities: report the probabilities (oracle: proba-range)
        pred, score, pred_err = [], float("nan"), "%s: %s" % (type(e).__name__, str(e)[:120])
    out = {"ytrain": [_lab(v) for v in ytr], "ytest": [_lab(v) for v in yte],
           "classes": [_lab(v) for v in clf.classes_], "shape": list(proba.shape),
           "proba": [[_ratio(v) for v in row] for row in proba] if proba.ndim == 2 else None,
           "pred": [_lab(v) for v in pred], "pred_shape": list(np.shape(pred)),
           "score": _ratio(score), "mkind": kind,
           "tie": "near" if name == "muse" else "any"}
    if pred_err:
        out["pred_err"] = pred_err
    if name == "colens":
        out["colens"] = colens_info
    if kind == "votes":
        out["members"] = [[_ratio(w), [_lab(v) for v in votes]] for w, votes in members]
    elif kind == "trees":
        out["members"] = [[[_lab(v) for v in tc], [[_ratio(v) for v in row] for row in np.atleast_2d(m)]]
                          for tc, m in members]
        out["member_shapes"] = [list(np.shape(m)) for _, m in members]
        if name == "stsf" and hasattr(clf, "_predict_proba_for_estimator"):
            # (an extra observation through the private per-tree method, as long as it exists under
            #  this name; the property-level clauses do not depend on it)
            out["method_rows"] = [[[_ratio(v) for v in row] for row in np.atleast_2d(m)]
                                  for m in _stsf_method_rows(clf, Xte)]
    else:
        out["members"] = [[[_ratio(v) for v in row] for row in np.atleast_2d(m)] for m in members]
        out["member_shapes"] = [list(np.shape(m)) for m in members]
    if name == "tsf":
        out["feat"] = _tsf_feats(clf, Xte)
        out["feat_all"] = _tsf_feats_all(clf, Xte)
    return out


def _run_reg(case):
    import numpy as np
    from sktime.regression.interval_based._tsf import TimeSeriesForestRegressor
    from sktime.series_as_features.base.estimators.interval_based._tsf import _transform
    from sktime.utils.data_processing import from_nested_to_3d_numpy
    Xtr, ytr, Xte, yte = _problem(case)
    r = np.random.RandomState(case["seed"] + 1)
    y = r.normal(size=len(ytr)) * 3
    reg = TimeSeriesForestRegressor(n_estimators=3 + (case["rs"] or 0) % 3, random_state=case["rs"])
    _prefit(reg, case, regression=True)
    reg.fit(Xtr, y)
    X2 = from_nested_to_3d_numpy(Xte).squeeze(1)
    trees = [np.asarray(e.predict(_transform(X2, iv))) for e, iv in zip(reg.estimators_, reg.intervals_)]
    pred = np.asarray(reg.predict(Xte))
    return {"trees": [[_ratio(v) for v in t] for t in trees], "pred": [_ratio(v) for v in pred],
            "pred_shape": list(pred.shape), "n": int(X2.shape[0]), "feat_all": _tsf_feats_all(reg, Xte)}


def _run_basepredict(case):
    import numpy as np
    import pandas as pd
    from sklearn.preprocessing import LabelEncoder
    from sktime.classification.base import BaseClassifier
    labels = LABELSETS_ALL[case["labelset"]][:case["k"]]
    rows = np.array([[a / b for a, b in row] for row in case["rows"]], dtype=float)

    class Scripted(BaseClassifier):
        def predict_proba(self, X):
            return rows[: X.shape[0]]
    clf = Scripted()
    clf.label_encoder = LabelEncoder().fit(np.array(labels))
    clf.classes_ = clf.label_encoder.classes_
    clf._is_fitted = True
    n = len(rows)
    X = pd.DataFrame({"dim_0": [pd.Series(np.arange(4.0) + i) for i in range(n)]})
    pred = clf.predict(X)
    score = clf.score(X, np.array(case["ytest"]))
    return {"ytrain": [_lab(v) for v in labels], "ytest": [_lab(v) for v in case["ytest"]],
            "classes": [_lab(v) for v in clf.classes_], "shape": list(rows.shape),
            "proba": [[_ratio(v) for v in row] for row in rows],
            "pred": [_lab(v) for v in pred], "pred_shape": list(np.shape(pred)),
            "score": _ratio(score), "mkind": "rows", "tie": "any",
            "members": [[[_ratio(v) for v in row] for row in rows]],
            "member_shapes": [list(rows.shape)]}


class _ScriptedRng:
    def __init__(self, draws):
        self.draws = list(draws)

    def randint(self, high):
        if high <= 0:
            raise ValueError("high <= 0")
        return self.draws.pop(0) % high


def run_impl(case):
    import numpy as np
    k = case["kind"]
    try:
        if k == "clf":
            return _run_clf(case)
        if k == "reg":
            return _run_reg(case)
        if k == "basepredict":
            return _run_basepredict(case)
        if k == "slope":
            from sktime.utils.slope_and_trend import _slope
            ys = np.array([a / b for a, b in case["ys"]], dtype=float)
            other = np.linspace(-1.0, 2.0, len(ys))
            if case["axis"] == 1:
                v = _slope(np.vstack([other, ys]), axis=1)
                return {"slope": _ratio(v[1]), "shape": list(v.shape)}
            v = _slope(np.vstack([other, ys]).T, axis=0)
            return {"slope": _ratio(v[1]), "shape": list(v.shape)}
        if k == "feat":
            from sktime.series_as_features.base.estimators.interval_based._tsf import _transform
            x = np.array([a / b for a, b in case["x"]], dtype=float)
            X = np.vstack([x[::-1], x])
            Xt = _transform(X, np.array(case["ivs"], dtype=int))
            return {"row": [_ratio(v) for v in Xt[1]], "shape": list(Xt.shape)}
        if k == "intervals":
            from sktime.series_as_features.base.estimators.interval_based._tsf import _get_intervals
            iv = _get_intervals(case["ni"], case["mi"], case["sl"], _ScriptedRng(case["draws"]))
            return {"ivs": [[int(a), int(b)] for a, b in iv]}
        raise AssertionError(k)
    except _FitRefused as e:
        return {"fit_refused": str(e)}
    except (ValueError, TypeError, IndexError, KeyError, AttributeError, ZeroDivisionError,
            FloatingPointError, NotImplementedError) as e:
        import traceback
        tb = traceback.extract_tb(e.__traceback__)[-1]
        return {"err": "%s: %s (%s:%d)" % (type(e).__name__, str(e)[:160],
                                           tb.filename.split("/")[-1], tb.lineno)}


# ------------------------------------------------------------------------------------------------
# oracle: the theorems' conclusions restated on the implementation's output


def _f(r):
    return None if r is None else r[0] / r[1]


def _lkey(lab):
    return (0, lab[1]) if lab[0] == "i" else (1, lab[1]) if lab[0] == "s" else (2, lab[1])


def _clf_oracle(case, out):
    if out.get("proba") is None:
        return "proba-shape: predict_proba returned an array of shape %s" % (out.get("shape"),)
    ytrain, classes = out["ytrain"], out["classes"]
    want = sorted({tuple(l) for l in ytrain}, key=_lkey)
    n = len(out["ytest"])
    if out["shape"] != [n, len(want)]:
        return "proba-shape: %s for %d instances and %d training classes" % (out["shape"], n, len(want))
    if [tuple(c) for c in classes] != want:
        return "classes-not-sorted-training-labels: classes_=%s training labels=%s" % (classes, want)
    P = [[_f(v) for v in row] for row in out["proba"]]
    for i, row in enumerate(P):
        if any(v is None or v < 0 or v > 1 for v in row):
            extra = ""
            if out["mkind"] == "votes":
                extra = "; members' weights %s" % [_f(w) for w, _ in out["members"]]
            if out.get("pred_err"):
                extra += "; predict raises %s" % out["pred_err"]
            return "proba-range: instance %d row %s%s" % (i, [v if v is not None else "nan" for v in row], extra)
        if abs(sum(row) - 1) > 1e-9:
            extra = ""
            if out.get("colens"):
                ci = out["colens"]
                rows_i = [[_f(v) for v in m[i]] for m in out["members"] if i < len(m)]
                if rows_i and all(len(r) == len(row) and None not in r for r in rows_i):
                    exp = [sum(r[j] for r in rows_i) / len(rows_i) for j in range(len(row))]
                    if any(abs(a - b) > 1e-9 for a, b in zip(exp, row)):
                        return ("column-ensemble-not-mean-of-fitted-members: instance %d got %s (sums to %r), the "
                                "%d fitted members (of %d entries in `estimators`) give %s" % (
                                    i, row, sum(row), ci["n_fitted"], ci["n_spec"], exp))
                extra = " (%d fitted members, %d entries in `estimators`)" % (ci["n_fitted"], ci["n_spec"])
            return "proba-row-sum: instance %d row %s sums to %r%s" % (i, row, sum(row), extra)
    # the combination of the members' own outputs
    if out["mkind"] == "votes":
        ws = [_f(w) for w, _ in out["members"]]
        if any(w is None or w < 0 for w in ws) or not sum(ws) > 0:
            return "member-weights: %s" % ws
        for i in range(n):
            exp = [sum(w for w, (_, votes) in zip(ws, out["members"]) if votes[i] == c) / sum(ws)
                   for c in classes]
            if any(abs(a - b) > 1e-9 for a, b in zip(exp, P[i])):
                return ("proba-not-normalised-votes: instance %d got %s, members' votes %s with "
                        "weights %s give %s" % (i, P[i], [v[i] for _, v in out["members"]], ws, exp))
    elif out["mkind"] == "trees":
        # each tree: one column per class of ITS OWN classes_ (sorted, a subset of the forest's);
        # the forest's column for class c is the mean of the trees' own probabilities for c
        placed = []
        for t, ((tc, rows), shp) in enumerate(zip(out["members"], out["member_shapes"])):
            if shp != [n, len(tc)]:
                return "tree-proba-shape: tree %d returned %s for %d instances and %d classes" % (
                    t, shp, n, len(tc))
            if any(c not in classes for c in tc) or len({tuple(c) for c in tc}) != len(tc):
                return "tree-classes-not-among-classes_: tree %d has %s, forest has %s" % (t, tc, classes)
            placed.append([[(_f(rows[i][tc.index(c)]) if c in tc else 0.0) for c in classes]
                           for i in range(n)])
        for i in range(n):
            exp = [sum(pl[i][j] for pl in placed) / len(placed) for j in range(len(classes))]
            if any(abs(a - b) > 1e-9 for a, b in zip(exp, P[i])):
                return ("proba-not-mean-of-trees-placed-by-their-classes: instance %d got %s, the "
                        "trees (classes %s) give %s" % (i, P[i], [[c[1] for c in tc] for tc, _ in
                                                                  out["members"]], exp))
        for t, m in enumerate(out.get("method_rows", [])):
            got = [[_f(v) for v in row] for row in m]
            if got != placed[t]:
                return ("tree-row-not-placed-by-tree-classes: _predict_proba_for_estimator of tree %d "
                        "(classes %s) returned %s, expected %s" % (
                            t, [c[1] for c in out["members"][t][0]], got[:1], placed[t][:1]))
    else:
        ci = out.get("colens")
        if ci and (ci["n_fitted"] != ci["want_fitted"] or ci["n_fitted"] != len(out["members"])):
            return ("column-ensemble-fitted-members: %d members fitted, expected %d (of %d entries in "
                    "`estimators`; 'drop' entries and entries without columns are not members)" % (
                        ci["n_fitted"], ci["want_fitted"], ci["n_spec"]))
        if any(s != [n, len(want)] for s in out["member_shapes"]):
            return "member-proba-shape: %s" % (out["member_shapes"],)
        for i in range(n):
            rows = [[_f(v) for v in m[i]] for m in out["members"]]
            exp = [sum(r[j] for r in rows) / len(rows) for j in range(len(want))]
            if any(abs(a - b) > 1e-9 for a, b in zip(exp, P[i])):
                if out.get("colens"):
                    ci = out["colens"]
                    return ("column-ensemble-not-mean-of-fitted-members: instance %d got %s, the %d fitted "
                            "members (of %d entries in `estimators`) give %s" % (
                                i, P[i], ci["n_fitted"], ci["n_spec"], exp))
                return "proba-not-mean-of-members: instance %d got %s, members give %s" % (i, P[i], exp)
    # predictions
    if out.get("pred_err"):
        return "predict-error: %s" % out["pred_err"]
    if out["pred_shape"] != [n]:
        return "predict-shape: %s for %d instances" % (out["pred_shape"], n)
    slack = 1e-9 if out["tie"] == "near" else 0.0
    for i, p in enumerate(out["pred"]):
        if p not in classes:
            return "predict-not-a-training-label: instance %d got %s, classes_=%s" % (i, p, classes)
        if P[i][classes.index(p)] + slack < max(P[i]):
            return "predict-not-maximal: instance %d predicted %s with p=%r but the row is %s" % (
                i, p, P[i][classes.index(p)], P[i])
    hits = sum(1 for p, y in zip(out["pred"], out["ytest"]) if p == y)
    if out["score"] is None or abs(_f(out["score"]) - hits / n) > 1e-12:
        return "score-not-fraction-correct: score=%r but %d of %d predictions match" % (
            _f(out["score"]), hits, n)
    for f in out.get("feat", []):
        e = _feat_oracle([_f(v) for v in f["x"]], f["ivs"], [_f(v) for v in f["row"]])
        if e:
            return e
    if out.get("feat_all"):
        return _feat_all_oracle(out["feat_all"])
    return None


def _feat_all_oracle(fa):
    """the features the fitted trees are fed are mean / std / slope of the fitted intervals by their
    two-pass definitions in float64 (tolerance 1e-5: the code stores float32)"""
    import math
    for t, tree in enumerate(fa["trees"]):
        for i, row in enumerate(tree["rows"]):
            if any(math.isnan(v) or math.isinf(v) for v in row):
                return "tsf-feature-not-finite: tree %d instance %d row %s" % (t, i, row[:6])
            e = _feat_oracle(fa["X"][i], tree["ivs"], row)
            if e:
                return e + " (tree %d, instance %d, series level %.6g)" % (t, i, sum(fa["X"][i]) / len(fa["X"][i]))
    return None


def _feat_oracle(x, ivs, row):
    import numpy as np
    if len(row) != 3 * len(ivs) or any(v is None for v in row):
        return "tsf-feature-shape: %d values for %d intervals" % (len(row), len(ivs))
    for j, (s, e) in enumerate(ivs):
        w = np.array(x[s:e], dtype=float)
        t = np.arange(1, len(w) + 1, dtype=float)
        sl = float(((t - t.mean()) * (w - w.mean())).sum() / ((t - t.mean()) ** 2).sum())
        exp = [float(w.mean()), float(np.sqrt(((w - w.mean()) ** 2).mean())), sl]
        for name, a, b in zip(("mean", "std", "slope"), exp, row[3 * j:3 * j + 3]):
            if abs(a - b) > 1e-5 * max(1.0, abs(a), abs(b)):
                return "tsf-feature-%s: interval [%d,%d) got %r expected %r" % (name, s, e, b, a)
    return None


def oracle(case, out):
    k = case["kind"]
    if "err" in out:
        return "unexpected-error: %s%s" % (out["err"], " [%s]" % out["where"] if "where" in out else "")
    if "fit_refused" in out:
        return None
    if k in ("clf", "basepredict"):
        return _clf_oracle(case, out)
    if k == "reg":
        n = out["n"]
        if out["pred_shape"] != [n]:
            return "predict-shape: %s for %d instances" % (out["pred_shape"], n)
        for i in range(n):
            ts = [_f(t[i]) for t in out["trees"]]
            p = _f(out["pred"][i])
            if p is None or abs(p - sum(ts) / len(ts)) > 1e-9 * max(1.0, abs(p)):
                return "regressor-not-mean-of-trees: instance %d got %r, trees give %s" % (i, p, ts)
        if out.get("feat_all"):
            return _feat_all_oracle(out["feat_all"])
        return None
    if k == "slope":
        ys = [a / b for a, b in case["ys"]]
        n = len(ys)
        tm, ym = (n + 1) / 2, sum(ys) / n
        exp = sum((t - tm) * (y - ym) for t, y in zip(range(1, n + 1), ys)) / sum(
            (t - tm) ** 2 for t in range(1, n + 1))
        v = _f(out["slope"])
        if out["shape"] != [2]:
            return "slope-shape: %s" % (out["shape"],)
        if v is None or abs(v - exp) > 1e-9 * max(1.0, abs(exp)):
            return "slope-not-least-squares: got %r expected %r for %s" % (v, exp, ys)
        return None
    if k == "feat":
        if out["shape"] != [2, 3 * len(case["ivs"])]:
            return "tsf-feature-shape: %s" % (out["shape"],)
        return _feat_oracle([a / b for a, b in case["x"]], case["ivs"], [_f(v) for v in out["row"]])
    if k == "intervals":
        ivs = out["ivs"]
        if len(ivs) != case["ni"]:
            return "intervals-count: %d for n_intervals=%d" % (len(ivs), case["ni"])
        for s, e in ivs:
            if not (0 <= s and s + case["mi"] <= e <= case["sl"]):
                return "interval-outside-series-or-too-short: [%d,%d) min %d length %d" % (
                    s, e, case["mi"], case["sl"])
        return None
    return "unknown-kind"


def nontrivial(case, out):
    if "err" in out or "fit_refused" in out:
        return False
    if case["kind"] == "clf":
        if case["k"] >= 3:
            return True
        return any(v is not None and v[0] not in (0, v[1]) for row in out.get("proba") or [] for v in row)
    return True


def shrink(case):
    c = dict(case)
    if c["kind"] in ("clf", "reg"):
        if c.get("prefit"):
            yield {k: v for k, v in c.items() if k != "prefit"}
        if c.get("dup"):
            gs = c["dup"]["groups"]
            if c["dup"].get("jitter"):
                yield dict(c, dup=dict(c["dup"], jitter=0.0))
            for gi, g in enumerate(gs):
                for cl, cnt in enumerate(g["counts"]):
                    if cnt > 1 and c["sizes"][cl] > 2:
                        g2 = dict(g, counts=g["counts"][:cl] + [cnt - 1] + g["counts"][cl + 1:])
                        sz = c["sizes"][:cl] + [c["sizes"][cl] - 1] + c["sizes"][cl + 1:]
                        yield dict(c, sizes=sz, dup=dict(c["dup"], groups=gs[:gi] + [g2] + gs[gi + 1:]))
        if c["n_test"] > 1:
            yield dict(c, n_test=c["n_test"] - 1)
            yield dict(c, n_test=1)
        if c.get("unseen_test_label"):
            yield dict(c, unseen_test_label=False)
        for i, s in enumerate(c["sizes"]):
            if s > 2:
                d = dict(c)
                d["sizes"] = c["sizes"][:i] + [s - 1] + c["sizes"][i + 1:]
                yield d
        if c["labelset"] != "int01":
            yield dict(c, labelset="int01")
        if c["ycont"] != "array":
            yield dict(c, ycont="array")
        if c["noise"] != 0.3:
            yield dict(c, noise=0.3)
    elif c["kind"] == "basepredict":
        n = len(c["rows"])
        for i in range(n):
            if n > 1:
                yield dict(c, rows=c["rows"][:i] + c["rows"][i + 1:],
                           ytest=c["ytest"][:i] + c["ytest"][i + 1:])
    elif c["kind"] == "slope":
        if len(c["ys"]) > 2:
            for i in range(len(c["ys"])):
                yield dict(c, ys=c["ys"][:i] + c["ys"][i + 1:])
        for i, (a, b) in enumerate(c["ys"]):
            if b != 1 or abs(a) > 3:
                yield dict(c, ys=c["ys"][:i] + [[a // (2 * b) if abs(a) > 3 else a, 1]] + c["ys"][i + 1:])
    elif c["kind"] == "feat":
        if len(c["ivs"]) > 1:
            for i in range(len(c["ivs"])):
                yield dict(c, ivs=c["ivs"][:i] + c["ivs"][i + 1:])
    elif c["kind"] == "intervals":
        if c["ni"] > 1:
            yield dict(c, ni=c["ni"] - 1, draws=c["draws"][2:])
            yield dict(c, ni=c["ni"] - 1, draws=c["draws"][:-2])


# ------------------------------------------------------------------------------------------------
# model side

CASES_HEADER = """From Coq Require Import QArith List Bool ZArith.
Require Import SkV.C17.Model SkV.C17.Cases.
Import ListNotations.
Open Scope Z_scope.
"""


def _cq(x):
    return cq(x) + "%Q"


def _zl(zs):
    """list Z literal inside a file whose open scope is Q_scope"""
    return czlist(zs) + "%Z"


def _civs(ivs):
    return clist(["(%s, %s)%%Z" % (cz(a), cz(b)) for a, b in ivs])


def _clab(lab):
    if lab[0] == "i":
        return "(LInt %s%%Z)" % cz(lab[1])
    if lab[0] == "s":
        return "(LStr %s)" % _zl([ord(ch) for ch in lab[1]])
    return "(LStr %s)" % _zl([-1] + [ord(ch) for ch in lab[1]])   # foreign type: matches nothing


def _cqs(rs):
    return clist([_cq(r) for r in rs])


def _has_nan(out):
    def bad(rows):
        return any(v is None for row in rows for v in row)
    if out.get("proba") is None or bad(out["proba"]) or out.get("score") is None:
        return True
    if out["mkind"] == "votes":
        return any(w is None for w, _ in out["members"])
    if out["mkind"] == "trees":
        return any(bad(m) for _, m in out["members"])
    return any(bad(m) for m in out["members"])


def _cclf(out):
    n = len(out["pred"])
    if _has_nan(out) or len(out["proba"]) != n:
        return None
    insts = []
    for i in range(n):
        if out["mkind"] == "votes":
            mem = "(IVotes %s)" % clist(["(%s, %s)" % (_clab(votes[i]), _cq(w))
                                         for w, votes in out["members"] if i < len(votes)])
        elif out["mkind"] == "trees":
            mem = "(ITrees %s)" % clist(["(%s, %s)" % (clist([_clab(c) for c in tc]), _cqs(m[i]))
                                         for tc, m in out["members"] if i < len(m)])
        else:
            mem = "(IRows %s)" % clist([_cqs(m[i]) for m in out["members"] if i < len(m)])
        insts.append("(mkinst %s %s %s)" % (mem, _cqs(out["proba"][i]), _clab(out["pred"][i])))
    return "(mkclf %s %s %s %s %s %s)" % (
        clist([_clab(l) for l in out["ytrain"]]), clist([_clab(l) for l in out["classes"]]),
        "NearMax" if out["tie"] == "near" else "AnyMax", clist(insts),
        clist([_clab(l) for l in out["ytest"]]), _cq(out["score"]))


def _cfeat(f):
    if any(v is None for v in f["row"]):
        return None
    return "(%s, %s, %s)" % (_cqs(f["x"]), _civs(f["ivs"]), _cqs(f["row"]))


def coq_case(case, out):
    k = case["kind"]
    if "err" in out or "fit_refused" in out:
        return None
    if k in ("clf", "basepredict"):
        c = _cclf(out)
        if c is None:
            return None
        feats = [_cfeat(f) for f in out.get("feat", [])]
        if any(f is None for f in feats):
            return None
        return "CClf %s %s" % (c, clist(feats))
    if k == "reg":
        n = out["n"]
        if any(v is None for v in out["pred"]) or len(out["pred"]) != n:
            return None
        return "CReg %s" % clist(["(%s, %s)" % (_cqs([t[i] for t in out["trees"]]), _cq(out["pred"][i]))
                                  for i in range(n)])
    if k == "slope":
        if out["slope"] is None:
            return None
        return "CSlope %s %s" % (_cqs(case["ys"]), _cq(out["slope"]))
    if k == "feat":
        if any(v is None for v in out["row"]):
            return None
        return "CFeat %s %s %s" % (_cqs(case["x"]), _civs(case["ivs"]), _cqs(out["row"]))
    if k == "intervals":
        return "CIntervals %d%%nat %s%%Z %s%%Z %s %s" % (
            case["ni"], cz(case["mi"]), cz(case["sl"]), _zl(case["draws"]), _civs(out["ivs"]))
    return None


def coq_model_term(case):
    """Replay files: the model's outputs need the members' outputs, which only exist after running
    the implementation; re-run it here is not possible (no sktime in the main process), so the
    replay shows the closed-form kinds only."""
    k = case["kind"]
    if k == "slope":
        return "(Qred (code_slope %s), Qred (ols_slope %s))" % (_cqs(case["ys"]), _cqs(case["ys"]))
    if k == "feat":
        return "map Qred (tsf_features %s %s)" % (_civs(case["ivs"]), _cqs(case["x"]))
    if k == "intervals":
        return "get_intervals %d%%nat %s%%Z %s%%Z %s" % (case["ni"], cz(case["mi"]), cz(case["sl"]),
                                                       _zl(case["draws"]))
    if k == "basepredict":
        labels = LABELSETS_ALL[case["labelset"]][:case["k"]]
        cl = clist([_clab(_lab(v)) for v in labels])
        return "map (fun r => predict_label (classes_of label_leb label_eqb %s) r) %s" % (
            cl, clist([_cqs(r) for r in case["rows"]]))
    return "tt"


def distribution(cases, results):
    import collections
    d = collections.Counter()
    for c, r in zip(cases, results):
        o = r.get("out") or {}
        key = c.get("clf", c["kind"])
        d["%s:%s" % (key, "error" if "err" in o else "fit-refused" if "fit_refused" in o else "ran")] += 1
        if c.get("clf") == "cboss" and o.get("mkind") == "votes":
            ws = [_f(w) for w, _ in o["members"]]
            if ws and max(w or 0 for w in ws) < 1e-6:
                d["cboss-ensembles-of-zero-accuracy-members-only"] += 1
            elif any((w or 0) < 1e-6 for w in ws):
                d["cboss-ensembles-with-a-zero-accuracy-member"] += 1
        if c.get("dup"):
            d["duplicate-series-with-conflicting-labels:%s" % ("error" if "err" in o else "ran")] += 1
        if c.get("level"):
            d["level-scale-case:%s" % ("error" if "err" in o else "ran")] += 1
        if c.get("prefit"):
            d["refit-history:%s" % ("error" if "err" in o else "fit-refused" if "fit_refused" in o else "ran")] += 1
        if o.get("colens") and c.get("spec"):
            d["colens-with-" + "+".join(sorted(c["spec"]))] += 1
            if o["colens"]["n_fitted"] < o["colens"]["n_spec"]:
                d["colens-with-fewer-fitted-members-than-entries"] += 1
        if o.get("mkind") == "trees":
            short = sum(1 for tc, _ in o["members"] if len(tc) < len(o["classes"]))
            d["forests-with-a-tree-that-missed-a-class" if short else "forests-all-trees-saw-all-classes"] += 1
            d["trees-that-missed-a-class"] += short
        if c["kind"] in ("clf", "basepredict") and o.get("proba"):
            d["classes=%d" % len(o["classes"])] += 1
            d["labels=%s" % c["labelset"]] += 1
            for i, row in enumerate(o["proba"]):
                vals = [_f(v) for v in row]
                if any(v is None for v in vals):
                    continue
                d["instances"] += 1
                mx = max(vals)
                if sum(1 for v in vals if v == mx) > 1:
                    d["rows-with-tied-maximum"] += 1
                if any(0 < v < 1 for v in vals):
                    d["rows-with-fractional-probability"] += 1
                if i < len(o["pred"]) and o["pred"][i] == o["classes"][vals.index(mx)]:
                    d["prediction-is-first-maximum"] += 1
    return dict(d)
