"""C18 - time-series files round-trip and all file formats parse to the same panel."""
import json
import os

from harness.core import cbool, clist, copt, cstr, cz

ID = "C18"
MODEL_TARGETS = ["C18/Cases.vo"]
PROOF_TARGETS = ["C18/Gen.vo", "C18/Bridge.vo", "C18/Proofs.vo", "C18/History.vo",
                 "C18/Alphabet.vo"]
OBLIGATION_FILES = ["C18/Bridge.v"]
PROPS_FILE = "C18/Props.v"
SHARD = 40
PER_CASE_TIMEOUT = 120
RULE = ("roundtrip: random univariate equal-length panels (1-6 instances, length 1-30, value regimes: "
        "small ints, big ints, unit floats, 1e-6..1e9 mixed magnitudes per series / per panel, negative, "
        "exact decimals), 0-4 class labels incl. mixed case / digits / punctuation; every third panel "
        "2-5 labels over the WHOLE label alphabet (printable ASCII without ':' and '?') built around "
        "one special character, all 30 of them in turn (c vs c# vs c#1 vs #c ...), a few non-ASCII "
        "(Python side only); 40% of the other panels: class values BY TYPE with a falsy member - "
        "ints incl. 0, floats incl. 0.0 / -0.0, booleans, the empty and white-space-only string - "
        "handed over as a list of Python values, a list of numpy scalars or an ndarray; comment absent / "
        "short / wrapping / containing tag look-alikes, equal_length + series_length headers in all "
        "four combinations, mixed-case problem names; written by the real writer, loaded by the real "
        "loader, the written lines re-parsed by the model inside Coq.  ts_lines: hand-built .ts files "
        "with one structured deviation each (tag case, blank lines, indentation, unknown tags, missing "
        "tag, tag after data, bad Boolean, missing value '?', non-numeric token, multivariate, "
        "unequal length, ...), model verdict vs loader verdict; hand-built and 22 random .arff / .tsv "
        "files with multi-character labels and multi-digit values.  EVERY such file, every bundled "
        "excerpt and every written round-trip file is also loaded with its lines terminated "
        "differently (no final newline, CRLF, CRLF without final newline, trailing blank lines, "
        "blanks around every line): same parse.  file: every bundled .ts/.arff/.tsv "
        "file, header + first/last instances, model vs loader.  formats: every bundled dataset with "
        ">= 2 formats, all instances compared in Python, excerpts inside Coq.  split: every "
        "load_<dataset>, 3 splits x 2 return forms.  history: per loader 2-6 HISTORIES of 2-4 loader "
        "calls on the same dataset inside one process (split in None/train/test, both return forms, "
        "60% repeating the previous split), with in-place edits of an earlier result by the caller in "
        "between (drop first row, overwrite first label, replace / edit in place the first nested "
        "series, add a column); the pattern load(train) ; load(train, return_X_y=True) for every "
        "loader; every call compared with the same call made FIRST in a fresh process, with the pure "
        "function of the two files, and the caller's objects re-read at the end.  Every bundled-data "
        "case runs in a forked copy of a driver process that never called a loader.  non-trivial = accepted file with >= 2 instances "
        "(or a rejection for ts_lines); distinct = distinct canonical JSON case")
TRUSTED = [
    "translator/tsformat.py (Python ast -> site facts: writer header items, parser startswith chain, "
    "separators, split order, decorators / global statements of the loader functions; fail-closed; "
    "the modelled fragments of data_io.py / base.py are pinned "
    "by the sha256 of their ast.unparse text) - validated on every run through Bridge.v",
    "modelled Python str semantics on ASCII bytes: strip / lower / startswith / split(one char) / "
    "`in` / replace('?', 'NaN'); float() acceptance as a decimal-literal grammar (no '_' grouping, no "
    "non-ASCII digits) and its value as the exact rational of the literal (compared with the loaded "
    "double at relative 1e-15); text-file iteration = the list of lines the harness reads back",
    "pandas Series.to_string (the tokens the writer prints) and textwrap.wrap (comment wrapping) are "
    "inputs of the model writer: the harness calls them exactly as the writer does and the model is "
    "checked to reproduce the written file byte for byte from them",
]
MODELLED = [
    "pandas.read_csv inside load_from_ucr_tsv_to_dataframe (hand model: split on TAB, first field = "
    "class value, equal field counts; dtype inference of the class column not modelled, labels "
    "compared through str())",
    "timestamped .ts branch, relational (multivariate) .arff branch: outside the quantifier, model "
    "answers Err and no such case is generated (bundled BasicMotions.arff is compared in Python only)",
    "pd.DataFrame / pd.concat assembly in _load_dataset: rows = list, concat = append (tied by the "
    "split cases on every bundled dataset)",
    "Python object identity / aliasing in the history model: the objects a caller holds are a list of "
    "values, a load appends a freshly computed value, an edit rewrites one position (that the real "
    "loader shares nothing between results is what the history cases sample; the source-side tie is "
    "the pinned body of _load_dataset plus `no decorator, no global statement` on the loaders)",
    "precision clause ('values equal to the precision the writer prints') is checked by the Python "
    "oracle only: |float(printed token) - original| <= half a unit of the last printed digit",
]
NOT_RUNNABLE = []

DATA = "sktime/datasets/data"
SPLIT_K = 20
LOADERS = ["load_gunpoint", "load_arrow_head", "load_italy_power_demand", "load_basic_motions",
           "load_japanese_vowels", "load_osuleaf", "load_acsf1"]
LOADER_NAME = {"load_gunpoint": "GunPoint", "load_arrow_head": "ArrowHead",
               "load_italy_power_demand": "ItalyPowerDemand", "load_basic_motions": "BasicMotions",
               "load_japanese_vowels": "JapaneseVowels", "load_osuleaf": "OSULeaf",
               "load_acsf1": "ACSF1"}


def translate(repo):
    from translator import tsformat
    return tsformat.translate(repo)


def _repo():
    return os.environ.get("VERIF_REPO", "/repo")


# ------------------------------------------------------------------------------------------------
# generators (main process: no pandas / sktime here)

LABEL_POOLS = [["1", "2"], ["Aa", "b"], ["ClassA", "classB", "CLASS_C"], ["0", "1", "2", "3"],
               ["x", "Y", "zZ"], ["pos", "NEG"], ["a-b", "c.d", "E+f", "g/h"], ["-1", "1"],
               ["Gun", "Point"], ["T"], ["standing", "Running", "WALKING", "badminton"]]
COMMENTS = [None, None, "a short comment", "Comment With Capitals and, punctuation: yes; #hash @data",
            "@data is not a tag here", "x",
            "This dataset was generated for the round trip check and this comment is long enough "
            "to be wrapped by textwrap over several lines, @problemName included, so that the "
            "continuation lines get their own hash prefix in the written file.",
            "word " * 40, "   leading and trailing blanks   ", "tab\tand\nnewline inside"]
NAMES = ["sample_data", "p", "MyData", "ds_01", "UPPER", "mixedCase-Name.v2", "x" * 30]


def _round_sig(x, k):
    return float("%.*e" % (k - 1, x))


def _gen_values(rng, n, m):
    regime = rng.choice(["small_int", "big_int", "unit", "mixed_series", "mixed_panel", "tiny",
                         "huge", "decimal2", "neg_int", "wide", "const"])
    rows = []
    for _ in range(n):
        if regime == "small_int":
            r = [rng.randint(-9, 99) for _ in range(m)]
        elif regime == "neg_int":
            r = [-rng.randint(0, 5000) for _ in range(m)]
        elif regime == "big_int":
            r = [rng.choice([1, -1]) * rng.randint(10 ** 6, 10 ** 9) for _ in range(m)]
        elif regime == "unit":
            r = [rng.uniform(-1, 1) for _ in range(m)]
        elif regime == "tiny":
            r = [rng.uniform(-1, 1) * 10 ** rng.choice([-6, -5, -4]) for _ in range(m)]
        elif regime == "huge":
            r = [rng.uniform(-1, 1) * 10 ** rng.choice([7, 8, 9]) for _ in range(m)]
        elif regime == "decimal2":
            r = [round(rng.uniform(-500, 500), 2) for _ in range(m)]
        elif regime == "mixed_series":
            k = rng.randint(-6, 9)
            r = [rng.uniform(-1, 1) * 10 ** k for _ in range(m)]
        elif regime == "const":
            v = rng.choice([0.0, 1.0, -2.5, 1e-6, 1e9, 3])
            r = [v for _ in range(m)]
        elif regime == "wide":
            r = [rng.choice([1, -1]) * _round_sig(rng.uniform(1, 10), rng.randint(1, 7))
                 * 10 ** rng.randint(-6, 9) for _ in range(m)]
        else:
            r = [rng.uniform(-1, 1) * 10 ** rng.randint(-6, 9) for _ in range(m)]
        if regime in ("unit", "mixed_panel", "decimal2") and rng.random() < 0.3:
            r[rng.randrange(m)] = float(rng.randint(-3, 3))
        rows.append(r)
    return regime, rows


# every printable ASCII character a class label may contain (the unchanged writer + loader bring all
# of them back, lower-cased; found empirically and proved for the model: coq/C18/Alphabet.v): all but
# ":" (dimension separator) and "?" (missing-value marker); white space only inside (stripped outside)
LABEL_ALPHABET = "".join(chr(c) for c in range(33, 127) if chr(c) not in ":?")
SPECIALS = [c for c in LABEL_ALPHABET if not c.isalnum()]
UNICODE_LABELS = ["\u00e9t\u00e9", "\u00c9T\u00c9-2", "stra\u00dfe", "\u65e5\u672c", "\u03a3x", "na\u00efve#1"]


def _alphabet_labels(rng, ch, k):
    """k distinct labels that differ only around the special character ch: classes that merge as soon
    as ch (or what follows it) is taken for a delimiter, a comment marker, a tag, an operator"""
    base = rng.choice(["c", "pr", "Ab", "x1", "7"])
    cand = [base, base + ch, base + ch + "1", base + ch + "2", ch + base, ch, base + ch + ch,
            base.upper() + ch + "Z", "".join(rng.choice(LABEL_ALPHABET) for _ in range(rng.randint(2, 6)))]
    out = []
    for lab in [cand[0], cand[1]] + rng.sample(cand[2:], len(cand) - 2):
        if lab.lower() not in [o.lower() for o in out]:
            out.append(lab)
    return out[:max(2, k)]


# class values by TYPE (the writer prints them with an f-string, the loader returns strings): each
# pool has a FALSY member (0, 0.0, False, the empty / a white-space-only string) next to others;
# what comes back is str(value).strip().lower() - measured on the unchanged writer / loader pair.
# "" / " " / "\t" all come back as '' (the loader strips); a label list of ONLY empty strings is
# not generated: its header line `@classLabel true ` cannot be told from one without labels.
TYPED_POOLS = [("int", [0, 1]), ("int", [0, 1, 2, 3]), ("int", [-1, 0, 1]), ("int", [0]),
               ("float", [0.0, 1.0, 2.5]), ("float", [0.0, -1.5]), ("float", [-0.0, 0.5]),
               ("bool", [False, True]), ("bool", [False]),
               ("str", ["", "a", "B"]), ("str", ["", "0"]), ("str", [" ", "x"]),
               ("str", ["\t", "yes", ""]), ("str", ["0", "00", "False"])]


def _typed_labels(rng, n):
    typ, pool = rng.choice(TYPED_POOLS)
    labels = list(pool)
    class_values = [rng.choice(labels) for _ in range(n)]
    class_values[rng.randrange(n)] = labels[0]          # the falsy member occurs
    # how the values are handed over: a list of Python values, a list of numpy scalars, an ndarray
    # (docstring: class_value_list is a list / ndarray; class_label is a list)
    form = rng.choice(["list", "numpy-scalars", "ndarray"] if typ != "str" else
                      ["list", "list", "ndarray", "object-ndarray"])
    return labels, class_values, {"type": typ, "form": form}


def _gen_roundtrip(rng, special=None):
    n = rng.choice([1, 1, 2, 2, 3, 3, 4, 5, 6])
    m = rng.choice([1, 2, 2, 3, 3, 4, 5, 6, 8, 10, 12, 16, 24, 30])
    if n * m > 60:
        m = max(2, 60 // n)
    regime, rows = _gen_values(rng, n, m)
    k = rng.choice([0, 0, 0, 1, 2, 2, 3, 4])
    labels = None
    class_values = []
    if k:
        pool = rng.choice([p for p in LABEL_POOLS if len(p) >= min(k, 1)])
        labels = pool[:k] if len(pool) >= k else pool
        class_values = [rng.choice(labels) for _ in range(n)]
        if pool in (["1", "2"], ["0", "1", "2", "3"], ["-1", "1"]) and rng.random() < 0.5:
            labels = [int(x) for x in labels]          # integer class labels, as np.unique gives
            class_values = [int(x) for x in class_values]
    label_form = None
    if special is None and rng.random() < 0.4:
        labels, class_values, label_form = _typed_labels(rng, n)
    if special is not None:
        # labels over the whole label alphabet, built around one special character (now and then
        # non-ASCII labels: Python-side comparison only)
        if special == "unicode":
            # (always one label that str.lower and str.casefold treat differently)
            labels = ["stra\u00dfe"] + rng.sample([u for u in UNICODE_LABELS if u != "stra\u00dfe"],
                                                  rng.randint(1, 3))
        else:
            labels = _alphabet_labels(rng, special, rng.randint(2, 5))
        n = max(n, 2)
        while len(rows) < n:
            rows.append(list(rows[0]))
        class_values = [labels[i % len(labels)] for i in range(n)]
        rng.shuffle(class_values)
    el = rng.random() < 0.4
    sl = m if (el or rng.random() < 0.25) else -1
    # row labels of the panel handed to the writer: default RangeIndex, a permutation of 0..n-1 (a
    # shuffled / sorted panel), or other integers (a selection): instances are written BY POSITION
    u = rng.random()
    row_index = None
    if len(rows) >= 2 and u < 0.3:
        row_index = list(range(len(rows)))
        while row_index == sorted(row_index):
            rng.shuffle(row_index)
    elif u < 0.4:
        row_index = sorted(rng.sample(range(50), len(rows)), reverse=rng.random() < 0.5)
    return {"row_index": row_index, "label_form": label_form,
            "kind": "roundtrip", "regime": regime, "values": rows, "labels": labels,
            "class_values": class_values, "name": rng.choice(NAMES),
            "comment": rng.choice(COMMENTS), "equal_length": el, "series_length": sl}


BASE_HEADER = ["@problemName demo", "@timeStamps false", "@univariate true", "@classLabel true a b"]
BASE_DATA = ["1.5,2,-3e-2:a", "4,5.25,6:b", "7,8,9:a"]


def _ts_variants():
    H, D = BASE_HEADER, BASE_DATA
    U = [d.rsplit(":", 1)[0] for d in D]
    HN = H[:3] + ["@classLabel false"]
    v = []

    def add(name, lines):
        v.append({"kind": "ts_lines", "variant": name, "lines": lines})

    add("base", H + ["@data"] + D)
    add("base-unlabelled", HN + ["@data"] + U)
    add("upper-tags", [h.upper() for h in H] + ["@DATA"] + D)
    add("mixed-case-tags", ["@ProblemName Demo", "@TimeStamps FALSE", "@UniVariate True",
                            "@ClassLabel TRUE A B", "@Data"] + [d.upper() for d in D])
    add("blank-lines", ["", "   "] + H[:2] + [""] + H[2:] + ["", "@data", ""] + D[:1] + ["", "\t"] + D[1:]
        + [""])
    add("indented", ["  " + h + "  " for h in H] + ["\t@data \t"] + ["  " + d + "\t" for d in D])
    add("spaces-around-values", H + ["@data", " 1.5 , 2 ,-3e-2 : a ", "4, 5.25,6:b"])
    add("hash-comments", ["# c1", "#c2 @data"] + H[:2] + ["# mid"] + H[2:] + ["@data"] + D)
    add("percent-comments", ["%c1", "% @problemName x"] + H + ["@data"] + D)
    add("comment-after-data", H + ["@data", D[0], "# late", D[1]])
    add("comment-after-data-unlabelled", HN + ["@data", U[0], "# late"])
    add("unknown-tags", H[:3] + ["@equalLength true", "@seriesLength 3", "@missing false"] + H[3:]
        + ["@data"] + D)
    for i, t in enumerate(["problemname", "timestamps", "univariate", "classlabel"]):
        add("missing-" + t, H[:i] + H[i + 1:] + ["@data"] + D)
    add("old-writer-class_label", H[:3] + ["@class_label false", "@data"] + U)
    add("no-data-tag", H + D)
    add("data-tag-with-value", H + ["@data x"] + D)
    add("data-tag-suffix", H + ["@dataset"] + D)
    add("tag-after-data", H + ["@data", D[0], "@univariate true", D[1]])
    add("problemname-after-data", H + ["@data", D[0], "@problemName again"])
    add("data-twice", H + ["@data", D[0], "@data", D[1]])
    add("bad-boolean-timestamps", [H[0], "@timeStamps maybe"] + H[2:] + ["@data"] + D)
    add("bad-boolean-univariate", H[:2] + ["@univariate 1"] + H[3:] + ["@data"] + D)
    add("univariate-no-value", H[:2] + ["@univariate"] + H[3:] + ["@data"] + D)
    add("timestamps-extra-token", [H[0], "@timeStamps false x"] + H[2:] + ["@data"] + D)
    add("problemname-no-value", ["@problemName"] + H[1:] + ["@data"] + D)
    add("problemname-with-spaces", ["@problemName my data set"] + H[1:] + ["@data"] + D)
    add("problemname-prefix", ["@problemNameX y"] + H[1:] + ["@data"] + D)
    add("classlabel-true-no-values", H[:3] + ["@classLabel true", "@data"] + D)
    add("classlabel-no-value", H[:3] + ["@classLabel", "@data"] + D)
    add("classlabel-bad-boolean", H[:3] + ["@classLabel yes a b", "@data"] + D)
    add("classlabel-false-with-values", H[:3] + ["@classLabel false a b", "@data"] + U)
    add("classlabel-double-space", H[:3] + ["@classLabel true  a  b", "@data"] + D)
    add("label-not-declared", H + ["@data", "1,2,3:zzz"])
    add("label-mixed-case", H[:3] + ["@classLabel true Aa B", "@data", "1,2:Aa", "3,4:B", "5,6:AA"])
    add("label-with-hash", H[:3] + ["@classLabel true c# c", "@data", "1,2:c#", "3,4:c", "5,6:C#"])
    add("label-hash-then-digits", H[:3] + ["@classLabel true pr#1 pr#2", "@data", "1,2:pr#1",
                                            "3,4:pr#2"])
    add("label-starts-with-hash", H[:3] + ["@classLabel true #a b", "@data", "1,2:#a", "3,4:b"])
    add("label-with-percent-at-plus", H[:3] + ["@classLabel true a%b x@data +1 -1", "@data",
                                                "1,2:a%b", "3,4:x@data", "5,6:+1", "7,8:-1"])
    add("hash-after-value", H + ["@data", "1,2:a # note", "3,4:b#"])
    add("label-with-comma", H[:3] + ["@classLabel true a,b c", "@data", "1,2:a,b", "3,4:c"])
    add("label-with-inner-space", H + ["@data", "1,2:a b", "3,4: b "])
    add("label-missing", H + ["@data", "1,2,3"])
    add("label-empty", H + ["@data", "1,2,3:", "4,5,6:b"])
    add("unlabelled-with-colon", HN + ["@data", "1,2:3,4", "5,6:7,8"])
    add("extra-dimension-later", H + ["@data", D[0], "1,2:3,4:b"])
    add("fewer-dimensions-later", H[:2] + ["@univariate false", H[3], "@data", "1,2:3,4:a", "5,6:b"])
    add("multivariate", H[:2] + ["@univariate false", H[3], "@data", "1,2:3,4:a", "5,6:7,8:b"])
    add("multivariate-empty-dim", H[:2] + ["@univariate false", H[3], "@data", "1,2::a", "5,6:7:b"])
    add("new-writer-multivariate-flag", H + ["@data", "1,2::a", "3,4::b"])
    add("unequal-length", H + ["@data", "1:a", "1,2,3,4:b", "5,6:a"])
    add("missing-values", H + ["@data", "1,?,3:a", "?,?,?:b"])
    add("nan-inf-tokens", H + ["@data", "NaN,inf,-inf:a", "nan,1,2:b"])
    add("exponent-forms", H + ["@data", "1E5,2.5e-3,-1.e+2,.5:a", "+1,-0,00012,1e0:b"])
    add("non-numeric", H + ["@data", "1,abc,3:a"])
    add("empty-piece", H + ["@data", "1,,3:a"])
    add("trailing-comma", H + ["@data", "1,2,:a"])
    add("inner-space-in-number", H + ["@data", "1 2,3:a"])
    add("double-sign", H + ["@data", "--1,3:a"])
    add("bare-dot", H + ["@data", ".,3:a"])
    add("bare-exponent", H + ["@data", "1e,3:a"])
    add("only-label", H + ["@data", "a", "b"])
    add("only-blank-lines", ["", "  ", ""])
    add("empty-file", [])
    add("only-comments", ["# nothing", "# here"])
    add("only-data-tag", ["@data"])
    add("header-only", H + ["@data"])
    add("header-without-data-tag", H)
    add("data-before-header", D + H + ["@data"] + D)
    add("single-instance", H + ["@data", D[0]])
    add("single-value", H + ["@data", "5:a"])
    add("duplicate-tags", H + H + ["@data"] + D)
    add("classlabel-redefined", H + ["@classLabel false", "@data"] + U)
    add("crlf-free-long", H + ["@data"] + [",".join(str(i * j) for j in range(1, 25)) + ":a"
                                          for i in range(1, 7)])
    return v


def _flat_variants():
    v = []
    A = ["@relation demo", "@attribute att0 numeric", "@attribute att1 numeric",
         "@attribute target {a,B}"]
    DA = ["1.5,2,a", "-3e-2,4,B", "5,6,a"]

    def add(kind, name, lines):
        v.append({"kind": kind, "variant": name, "lines": lines})

    add("arff_lines", "base", A + ["@data"] + DA)
    add("arff_lines", "upper-data-tag", A + ["@DATA"] + DA)
    add("arff_lines", "percent-comments", ["% c", "%@attribute x"] + A + ["", "@data", ""] + DA + [""])
    add("arff_lines", "spaces", A + ["@data", " 1.5 , 2 , a ", "3,4,B"])
    add("arff_lines", "label-case-kept", A + ["@data", "1,2,Aa", "3,4,AA"])
    add("arff_lines", "missing", A + ["@data", "1,?,a", "?,?,B"])
    add("arff_lines", "no-data-tag", A + DA)
    add("arff_lines", "non-numeric", A + ["@data", "1,x,a"])
    add("arff_lines", "empty-piece", A + ["@data", "1,,a"])
    add("arff_lines", "only-label", A + ["@data", "a"])
    add("arff_lines", "unequal", A + ["@data", "1,a", "1,2,3,B"])
    add("arff_lines", "data-in-relation-name", ["@relation my@data", "1,2,a", "3,4,B"])
    add("arff_lines", "empty", [])
    add("arff_lines", "numeric-labels", A + ["@data", "1,2,1", "3,4,2"])
    # multi-character labels / multi-digit last values: a character lost at the end of a line shows
    add("arff_lines", "long-labels", A[:3] + ["@attribute target {alpha,Be2,c_33}", "@data",
                                               "1.25,20.5,alpha", "3,44.75,Be2", "5,66.125,c_33"])
    add("arff_lines", "multi-digit-labels", A[:3] + ["@attribute target {10,25,300}", "@data",
                                                      "1,2,10", "3,4,25", "5,6,300"])
    v.append({"kind": "arff_lines", "variant": "unlabelled-multi-digit", "labelled": False,
              "lines": A[:3] + ["@data", "1.5,20.25", "3,44.75", "5,66.125"]})
    v.append({"kind": "arff_lines", "variant": "unlabelled-integers", "labelled": False,
              "lines": A[:3] + ["@data", "10,200", "30,400", "50,625"]})
    T = ["1\t1.5\t2\t-3e-2", "2\t4\t5.25\t6", "1\t7\t8\t9"]
    add("tsv_lines", "base", T)
    add("tsv_lines", "blank-lines", [T[0], "", T[1], ""])
    add("tsv_lines", "single", T[:1])
    add("tsv_lines", "negative-labels", ["-1\t1\t2", "1\t3\t4"])
    add("tsv_lines", "exponents", ["0\t1E5\t2.5e-3\t-1.5", "3\t1\t2\t3"])
    add("tsv_lines", "multi-digit", ["10\t1.25\t20.5\t300.125", "25\t4\t5.25\t66.75",
                                     "300\t7\t8\t912.5"])
    add("tsv_lines", "long", ["%d\t" % (i % 3) + "\t".join("%.5f" % (i * 0.37 - j * 0.11)
                                                           for j in range(20)) for i in range(6)])
    return v


def bundled_files(repo=None):
    repo = repo or _repo()
    out = []
    base = os.path.join(repo, DATA)
    for d in sorted(os.listdir(base)):
        p = os.path.join(base, d)
        if not os.path.isdir(p):
            continue
        for f in sorted(os.listdir(p)):
            ext = f.rsplit(".", 1)[-1]
            if ext in ("ts", "arff", "tsv"):
                out.append((d, f, ext))
    return out


MUTATIONS = ["drop_first", "set_label", "set_cell", "edit_cell_inplace", "add_column"]
SLOW_LOADERS = ("load_japanese_vowels",)
HIST_K = 5


def _ld(split, xy):
    return {"op": "load", "split": split, "xy": bool(xy)}


def _mu(target, how):
    return {"op": "mutate", "target": target, "how": how}


def _fixed_histories():
    return [
        # the single-frame form of a named split, then the (X, y) form of the same split
        [_ld("train", False), _ld("train", True)],
        [_ld("test", True), _ld("test", False), _ld(None, True)],
        [_ld("test", False), _ld("test", True), _ld(None, True), _ld(None, False)],
        # the caller edits what it was given; the next call must not see it
        [_ld("train", True), _mu(0, "edit_cell_inplace"), _ld("train", True), _ld(None, False)],
        [_ld("train", True), _mu(0, "set_label"), _mu(0, "drop_first"), _ld("train", True)],
        [_ld(None, False), _mu(0, "set_label"), _ld(None, True), _ld(None, False)],
        [_ld("test", False), _mu(0, "add_column"), _ld("test", False), _ld("test", True)],
        [_ld(None, True), _mu(0, "set_cell"), _ld("train", True), _ld(None, True)],
        # different splits of one dataset one after the other
        [_ld("train", True), _ld("test", True), _ld(None, True)],
        [_ld(None, True), _ld("test", True), _ld("train", False)],
    ]


def _rand_history(rng):
    ops, nload = [], rng.randint(2, 4)
    prev = rng.choice([None, "train", "test"])
    for k in range(nload):
        split = prev if rng.random() < 0.6 else rng.choice([None, "train", "test"])
        prev = split
        ops.append(_ld(split, rng.random() < 0.5))
        if k < nload - 1 and rng.random() < 0.5:
            tgt = k if rng.random() < 0.7 else rng.randrange(k + 1)
            tsplit = [o for o in ops if o["op"] == "load"][tgt]["split"]
            # (split=None frames carry duplicate row labels: no drop by label there; a second
            # X["extra"] = ... would overwrite, not add)
            hows = [h for h in MUTATIONS if not (h == "drop_first" and tsplit is None)
                    and not (h == "add_column" and _mu(tgt, h) in ops)]
            ops.append(_mu(tgt, rng.choice(hows)))
    return ops


def _gen_histories(rng, tier):
    out = []
    fixed = _fixed_histories()
    for fn in LOADERS:
        slow = fn in SLOW_LOADERS
        nfix, nrand = (0, 0) if slow else ((1, 3) if tier == "quick" else (len(fixed) - 2, 12))
        # always: frame form then (X, y) form of one split; an in-place edit of a nested series
        # followed by calls that read the same file again
        must = [fixed[0], fixed[3]]
        rest = [h for h in fixed if h not in must]
        hs = must + rng.sample(rest, nfix) + [_rand_history(rng) for _ in range(nrand)]
        for ops in hs:
            out.append({"kind": "history", "loader": fn, "ops": ops})
    return out


def _rand_flat(rng, fmt):
    """a random univariate labelled panel as .arff / .tsv lines: multi-character labels, values with
    several digits (so that a character lost anywhere, in particular at the very end, shows)"""
    n, m = rng.randint(1, 5), rng.randint(1, 6)
    if fmt == "arff":
        labels = rng.sample(["alpha", "Be2", "c_33", "10", "25", "300", "x", "Long-Label.7"],
                            rng.randint(1, 3))
    else:
        labels = rng.sample(["1", "2", "10", "25", "300", "-1", "-12"], rng.randint(1, 3))
    rows = []
    for _ in range(n):
        vals = [rng.choice([str(rng.randint(-999, 9999)), "%.3f" % rng.uniform(-500, 500),
                            "%.2e" % rng.uniform(-1, 1), "%d.5" % rng.randint(10, 99)])
                for _ in range(m)]
        lab = rng.choice(labels)
        rows.append(",".join(vals + [lab]) if fmt == "arff" else "\t".join([lab] + vals))
    if fmt == "arff":
        head = ["@relation rnd"] + ["@attribute att%d numeric" % j for j in range(m)] + [
            "@attribute target {%s}" % ",".join(labels), "@data"]
        if rng.random() < 0.3:
            head = ["% a comment line"] + head
        return {"kind": "arff_lines", "variant": "random", "lines": head + rows}
    return {"kind": "tsv_lines", "variant": "random", "lines": rows}


def gen_cases(rng, tier):
    cases = []
    for _ in range(170 if tier == "quick" else 5000):
        # every third round trip: labels around one special character, all of them in turn
        sp = None
        if _ % 3 == 0:
            j = _ // 3
            sp = "unicode" if j % 16 == 15 else SPECIALS[(j - j // 16) % len(SPECIALS)]
        cases.append(_gen_roundtrip(rng, sp))
    # writer-side rejections and option corners
    cases.append({"kind": "roundtrip", "regime": "reject", "values": [[1, 2], [3, 4]], "labels": ["a"],
                  "class_values": ["a"], "name": "p", "comment": None, "equal_length": False,
                  "series_length": -1})
    cases.append({"kind": "roundtrip", "regime": "reject", "values": [[1, 2], [3, 4]], "labels": None,
                  "class_values": [], "name": "p", "comment": None, "equal_length": True,
                  "series_length": -1})
    cases.append({"kind": "roundtrip", "regime": "corner", "values": [[1.0, 2.0]], "labels": None,
                  "class_values": [], "name": "p", "comment": None, "equal_length": False,
                  "series_length": 0})
    # outside the quantifier (multivariate flag on one column, options that contradict each other):
    # no oracle, but the model must predict what the real writer + loader do
    base = {"kind": "roundtrip", "regime": "corner", "name": "p", "comment": None,
            "equal_length": False, "series_length": -1}
    for extra in (
            {"values": [[1.5, 2], [3, 4]], "labels": ["a", "B"], "class_values": ["a", "B"],
             "univariate": False},
            {"values": [[1.5, 2], [3, 4]], "labels": None, "class_values": [], "univariate": False},
            {"values": [[1, 2], [3, 4]], "labels": ["a", "b"], "class_values": []},
            {"values": [[1, 2], [3, 4]], "labels": None, "class_values": ["a", "b"]},
            {"values": [[1, 2], [3, 4]], "labels": None, "class_values": [7, 8]},
            {"values": [[1, 2], [3, 4]], "labels": [], "class_values": [7.5, 8.5]},
            {"values": [[1, 2, 3]], "labels": ["x"], "class_values": ["not-declared"]},
            {"values": [[0.5], [0.25]], "labels": ["A"], "class_values": ["A", "A"],
             "equal_length": True, "series_length": 1}):
        cases.append(dict(base, **extra))
    cases += _ts_variants()
    cases += _flat_variants()
    for _k in range(14 if tier == "quick" else 200):
        cases.append(_rand_flat(rng, "arff"))
    for _k in range(8 if tier == "quick" else 100):
        cases.append(_rand_flat(rng, "tsv"))
    heavy = []
    files = bundled_files()
    names = {}
    for d, f, ext in files:
        heavy.append({"kind": "file", "dataset": d, "file": f, "fmt": ext})
        names.setdefault(d, set()).add(ext)
    for d in sorted(names):
        if len(names[d]) >= 2:
            heavy.append({"kind": "formats", "dataset": d, "fmts": sorted(names[d])})
    for fn in LOADERS:
        heavy.append({"kind": "split", "loader": fn})
    heavy += _gen_histories(rng, tier)
    # the bundled-data cases are the expensive ones inside Coq: spread them over the shards
    heavy.sort(key=lambda c: ((c.get("file") or c.get("loader") or c["dataset"])[::-1],
                              json.dumps(c, sort_keys=True)))
    step = max(1, len(cases) // (len(heavy) + 1))
    out = []
    for i, c in enumerate(cases):
        out.append(c)
        if (i + 1) % step == 0 and heavy:
            out.append(heavy.pop())
    return out + heavy


# ------------------------------------------------------------------------------------------------
# implementation side (driver subprocess)

_TMP = None


def driver_init():
    global _TMP
    import tempfile
    import warnings
    warnings.simplefilter("ignore")
    _TMP = tempfile.mkdtemp(prefix="c18_")
    import atexit
    import shutil
    pid = os.getpid()
    atexit.register(lambda: os.getpid() == pid and shutil.rmtree(_TMP, ignore_errors=True))
    # everything a bundled-data case needs is imported here, and NO loader is called: those cases
    # run in forked copies of this process (see run_impl)
    import hashlib  # noqa: F401
    import numpy  # noqa: F401
    import pandas  # noqa: F401
    from sktime.datasets import base  # noqa: F401
    from sktime.utils import data_io  # noqa: F401


def _tmp():
    if _TMP is None:
        driver_init()
    return _TMP


def _frepr(x):
    return repr(float(x))


def _canon_ts(res):
    """(X, y) or X as returned by load_from_tsfile_to_dataframe -> rows x dims x repr(values)."""
    import pandas as pd
    if isinstance(res, tuple):
        X, y = res
        labels = [str(v) for v in y]
        form = "tuple"
    else:
        X, labels, form = res, None, "frame"
    if not isinstance(X, pd.DataFrame):
        raise AssertionError("loader returned %s" % type(X).__name__)
    rows = [[[_frepr(v) for v in X.iloc[i, j].values] for j in range(X.shape[1])]
            for i in range(X.shape[0])]
    return {"rows": rows, "labels": labels, "form": form, "columns": [str(c) for c in X.columns],
            "index": [int(i) for i in X.index]}


# how a text file made of the same lines may be terminated / padded: the parsed panel and labels must
# not depend on it (universal newlines for the .ts / .arff loaders, pandas for .tsv)
TERMINATIONS = ["lf-nofinal", "crlf", "crlf-nofinal", "trailing-blank", "spaces"]


def _terminated(lines, how):
    if how == "lf":
        return "".join(ln + "\n" for ln in lines)
    if how == "lf-nofinal":
        return "\n".join(lines)
    if how == "crlf":
        return "".join(ln + "\r\n" for ln in lines)
    if how == "crlf-nofinal":
        return "\r\n".join(lines)
    if how == "trailing-blank":
        return "".join(ln + "\n" for ln in lines) + "\n   \n\n"
    if how == "spaces":                       # blanks around every line (not for tab-separated files)
        return "".join("  " + ln + " \n" for ln in lines)
    raise AssertionError(how)


def _load_text(text, fmt, tag, labelled=True):
    from sktime.utils.data_io import (load_from_arff_to_dataframe, load_from_tsfile_to_dataframe,
                                      load_from_ucr_tsv_to_dataframe)
    p = os.path.join(_tmp(), "%s.%s" % (tag, fmt))
    with open(p, "w", encoding="utf-8", newline="") as f:
        f.write(text)
    try:
        if fmt == "ts":
            return {"loaded": _canon_ts(load_from_tsfile_to_dataframe(p))}
        if fmt == "arff":
            if not labelled:
                X = load_from_arff_to_dataframe(p, has_class_labels=False)
                return {"loaded": _canon_flat((X, []))}
            return {"loaded": _canon_flat(load_from_arff_to_dataframe(p))}
        return {"loaded": _canon_flat(load_from_ucr_tsv_to_dataframe(p))}
    except Exception as e:  # every exception family is a rejection of the file
        return {"loaded": None, "load_err": "%s: %s" % (type(e).__name__, str(e)[:160])}


def _canon_flat(res):
    X, y = res
    rows = [[_frepr(v) for v in X.iloc[i, 0].values] for i in range(X.shape[0])] if X.shape[1] else []
    return {"rows": rows, "labels": [str(v) for v in y], "ncols": int(X.shape[1])}


def _load_lines(lines, fmt, tag, labelled=True):
    """the file made of these lines, each ended by a newline - and the same lines under every other
    termination (`variants`: what the loader returns for each)"""
    out = _load_text(_terminated(lines, "lf"), fmt, tag, labelled)
    if lines:
        out["variants"] = {}
        for how in TERMINATIONS:
            if how == "spaces" and fmt == "tsv":
                continue
            out["variants"][how] = _load_text(_terminated(lines, how), fmt, tag + "_t", labelled)
    return out


def _load_ts_lines(lines, tag):
    return _load_lines(lines, "ts", tag)


def _load_flat_lines(lines, fmt, tag, labelled=True):
    return _load_lines(lines, fmt, tag, labelled)


def _read_lines(path):
    with open(path, "r", encoding="utf-8") as f:
        text = f.read()
    lines = text.split("\n")
    if lines and lines[-1] == "":
        lines.pop()
    return lines


def _is_data_line(ln, fmt):
    s = ln.strip()
    if not s:
        return False
    return s[0] in "-+.0123456789" or s[:3].lower() == "nan"


def _excerpt(path, fmt, max_tokens=320):
    """header (everything up to the first case) + first cases + last case of a bundled file."""
    lines = _read_lines(path)
    if fmt == "tsv":
        first = 0
    else:
        first = next(i for i, ln in enumerate(lines) if ln.strip().lower().startswith("@data")) + 1
    head, data = lines[:first], [ln for ln in lines[first:] if ln.strip()]
    pick = [0, 1, len(data) - 1] if len(data) >= 3 else list(range(len(data)))
    out = []
    budget = max_tokens
    for k, i in enumerate(pick):
        ntok = data[i].count(",") + data[i].count("\t") + 1
        if k and ntok > budget:
            continue
        budget -= ntok
        out.append(data[i])
    return head + out, len(data)


def _row_fp(X, i):
    import hashlib
    import numpy as np
    h = hashlib.sha1()
    for j in range(X.shape[1]):
        s = X.iloc[i, j]
        h.update(np.asarray(s.values, dtype="float64").tobytes())
        h.update(b"|")
    return h.hexdigest()[:6]


def _ulp10(v):
    """one unit of the last digit of repr(v): an upper bound of the unit of the last digit of the
    literal v was read from (trailing zeros of the literal are lost, never gained)"""
    from decimal import Decimal
    if v != v or v in (float("inf"), float("-inf")):
        return 0.0
    return 10.0 ** Decimal(repr(float(v))).as_tuple().exponent


FORKED_KINDS = ("file", "formats", "split", "history")


def forked(fn, *args):
    """fn(*args) in a forked child; the JSON-able result comes back through a pipe.  The parent never
    calls a dataset loader, so every forked run starts from the state of a fresh process: whatever
    history of calls a case needs is inside the case, and a failing case fails alone in a replay."""
    import signal
    r, w = os.pipe()
    pid = os.fork()
    if pid == 0:
        try:
            os.close(r)
            try:
                payload = {"ok": fn(*args)}
            except BaseException:
                import traceback
                payload = {"exc": traceback.format_exc()[-1500:]}
            with os.fdopen(w, "w") as f:
                json.dump(payload, f, default=str)
        finally:
            os._exit(0)
    os.close(w)
    try:
        with os.fdopen(r) as f:
            data = f.read()
    finally:
        try:
            os.kill(pid, signal.SIGKILL)
        except OSError:
            pass
        os.waitpid(pid, 0)
    if not data:
        raise RuntimeError("forked case died without a result")
    payload = json.loads(data)
    if "exc" in payload:
        raise RuntimeError(payload["exc"])
    return payload["ok"]


def run_impl(case):
    _tmp()
    if case["kind"] == "history":
        return _run_history_case(case)
    if case["kind"] in FORKED_KINDS:
        return forked(_run_impl, case)
    return _run_impl(case)


# ---- histories of loader calls ----------------------------------------------------------------

def _cell_fp(v):
    import hashlib
    import numpy as np
    if hasattr(v, "values"):
        return hashlib.sha1(np.asarray(v.values, dtype="float64").tobytes()).hexdigest()[:6]
    return "!" + hashlib.sha1(repr(v).encode()).hexdigest()[:5]       # not a nested series


def _dump(res):
    """canonical form of what a loader call returned: per-cell fingerprints of the feature columns,
    labels, column names, index, return form"""
    if isinstance(res, tuple):
        X, y = res
        form, labels, cols = "xy", [str(v) for v in y], [str(c) for c in X.columns]
        feat = list(range(X.shape[1]))
    else:
        X, form = res, "frame"
        cols = [str(c) for c in X.columns]
        feat = [j for j, c in enumerate(cols) if c != "class_val"]
        labels = [str(v) for v in X["class_val"]] if "class_val" in cols else None
    arr = X.to_numpy()
    return {"form": form, "columns": cols, "index": [str(i) for i in X.index],
            "rows": [[_cell_fp(arr[i, j]) for j in feat] for i in range(arr.shape[0])],
            "y": labels}


def _apply_edit(obj, how):
    """the caller edits, in place, an object a loader call handed to it; returns the parameters the
    model needs (what was written)"""
    import pandas as pd
    X = obj[0] if isinstance(obj, tuple) else obj
    if how == "drop_first":
        X.drop(X.index[0], inplace=True)
        return {}
    if how == "set_label":
        if isinstance(obj, tuple):
            y = obj[1]
            if isinstance(y, pd.Series):
                y.iloc[0] = "zz"
                return {"label": str(y.iloc[0])}
            y[0] = "zz"
            return {"label": str(y[0])}
        j = list(X.columns).index("class_val")
        X.iloc[0, j] = "zz"
        return {"label": str(X.iloc[0, j])}
    if how == "set_cell":
        X.iat[0, 0] = pd.Series([1.0, 2.0, 3.0])
        return {"cell": _cell_fp(X.iat[0, 0])}
    if how == "edit_cell_inplace":
        X.iat[0, 0].iloc[0] = 12345.678
        return {"cell": _cell_fp(X.iat[0, 0])}
    if how == "add_column":
        X["extra"] = [pd.Series([0.5, 1.5]) for _ in range(len(X))]
        return {"cell": _cell_fp(X["extra"].iloc[0])}
    raise AssertionError(how)


def _history_child(loader, ops):
    from sktime.datasets import base
    f = getattr(base, loader)
    held, ret, params = [], [], []
    for i, o in enumerate(ops):
        try:
            if o["op"] == "load":
                obj = f(split=o["split"], return_X_y=o["xy"])
                held.append(obj)
                ret.append(_dump(obj))
                params.append(None)
            else:
                params.append(_apply_edit(held[o["target"]], o["how"]))
        except Exception as e:
            return {"err": "op %d %s: %s: %s" % (i, o, type(e).__name__, str(e)[:160])}
    try:
        final = [_dump(obj) for obj in held]
    except Exception as e:
        return {"err": "re-reading the caller's objects: %s: %s" % (type(e).__name__, str(e)[:160])}
    return {"ret": ret, "final": final, "params": params}


def _first_call_child(loader, split, xy):
    from sktime.datasets import base
    try:
        return _dump(getattr(base, loader)(split=split, return_X_y=xy))
    except Exception as e:
        return {"err": "%s: %s" % (type(e).__name__, str(e)[:160])}


def _files_child(loader):
    from sktime.utils.data_io import load_from_tsfile_to_dataframe
    name, out = LOADER_NAME[loader], {}
    for part in ("TRAIN", "TEST"):
        out[part.lower()] = _dump(load_from_tsfile_to_dataframe(
            os.path.join(_repo(), DATA, name, "%s_%s.ts" % (name, part))))
    return out


_REF = {}


def _key(split, xy):
    return "%s/%s" % (str(split).lower(), "xy" if xy else "frame")


def _run_history_case(case):
    """the history in one forked process; every distinct call of it (and its sibling form) as the
    FIRST call of another forked process; the two files parsed directly in a third"""
    fn = case["loader"]
    out = forked(_history_child, fn, case["ops"])
    refs = _REF.setdefault(fn, {})
    if "files" not in refs:
        refs["files"] = forked(_files_child, fn)
    out["files"] = refs["files"]
    out["ref"] = {}
    for o in case["ops"]:
        if o["op"] == "load":
            for xy in (True, False):
                k = _key(o["split"], xy)
                if k not in refs:
                    refs[k] = forked(_first_call_child, fn, o["split"], xy)
                out["ref"][k] = refs[k]
    return out


def _run_impl(case):
    import textwrap
    import numpy as np
    import pandas as pd
    k = case["kind"]
    repo = _repo()
    if k == "roundtrip":
        from sktime.utils.data_io import load_from_tsfile_to_dataframe, write_dataframe_to_tsfile
        X = pd.DataFrame()
        X["dim_0"] = [pd.Series(r) for r in case["values"]]
        if case.get("row_index") is not None:
            # the panel as a caller has it after shuffling / sorting / selecting: row labels are not
            # 0..n-1 in order (a permutation of them, or any other integers); cases are positional
            X.index = list(case["row_index"])
        printed = [pd.Series(r).to_string(index=False, header=False, na_rep="NaN").split("\n")
                   for r in case["values"]]
        wrapped = textwrap.wrap("# " + case["comment"]) if case["comment"] else []
        out = {"printed": printed, "wrapped": wrapped, "file": None, "loaded": None}
        d = os.path.join(_tmp(), "rt")
        path = os.path.join(d, case["name"], case["name"] + "_transform.ts")
        if os.path.exists(path):
            os.remove(path)
        class_values = case["class_values"]
        lf = case.get("label_form")
        if lf and class_values:
            npt = {"int": np.int64, "float": np.float64, "bool": np.bool_, "str": np.str_}[lf["type"]]
            if lf["form"] == "numpy-scalars":
                class_values = [npt(v) for v in class_values]
            elif lf["form"] == "ndarray":
                class_values = np.asarray(class_values, dtype=npt if lf["type"] != "str" else None)
            elif lf["form"] == "object-ndarray":
                class_values = np.asarray(class_values, dtype=object)
        try:
            write_dataframe_to_tsfile(
                X, d, problem_name=case["name"], class_label=case["labels"],
                class_value_list=class_values, equal_length=case["equal_length"],
                series_length=case["series_length"], comment=case["comment"],
                univariate=case.get("univariate", True))
        except (ValueError, IndexError) as e:
            out["write_err"] = type(e).__name__
            return out
        out["file"] = _read_lines(path)
        try:
            out["loaded"] = _canon_ts(load_from_tsfile_to_dataframe(path))
        except Exception as e:
            out["load_err"] = "%s: %s" % (type(e).__name__, str(e)[:160])
        # the written lines under the other terminations (a file that went through another editor /
        # platform): the same panel
        out["variants"] = {how: _load_text(_terminated(out["file"], how), "ts", "rt_t")
                           for how in TERMINATIONS}
        return out
    if k == "ts_lines":
        return _load_ts_lines(case["lines"], "v")
    if k in ("arff_lines", "tsv_lines"):
        return _load_flat_lines(case["lines"], k[:-6], "v", case.get("labelled", True))
    if k == "file":
        path = os.path.join(repo, DATA, case["dataset"], case["file"])
        lines, ncases = _excerpt(path, case["fmt"])
        out = {"lines": lines, "ncases": ncases}
        if case["fmt"] == "ts":
            out.update(_load_ts_lines(lines, "x"))
        else:
            out.update(_load_flat_lines(lines, case["fmt"], "x"))
            if any("@attribute" in ln.lower() and "relational" in ln.lower() for ln in lines):
                out["relational"] = True
        return out
    if k == "formats":
        from sktime.utils.data_io import (load_from_arff_to_dataframe,
                                          load_from_tsfile_to_dataframe,
                                          load_from_ucr_tsv_to_dataframe)
        fn = {"ts": load_from_tsfile_to_dataframe, "arff": load_from_arff_to_dataframe,
              "tsv": load_from_ucr_tsv_to_dataframe}
        name = case["dataset"]
        loaded, lines = {}, {}
        for fmt in case["fmts"]:
            p = os.path.join(repo, DATA, name, "%s_TRAIN.%s" % (name, fmt))
            try:
                X, y = fn[fmt](p)
            except Exception as e:
                return {"err": "%s loader on %s: %s: %s" % (fmt, os.path.basename(p),
                                                            type(e).__name__, str(e)[:120])}
            loaded[fmt] = (X, [str(v) for v in y])
            lines[fmt] = _excerpt(p, fmt, max_tokens=520)[0]
        out = {"shape": {}, "labels": {}, "pairs": {}, "lines": lines}
        for fmt, (X, y) in loaded.items():
            out["shape"][fmt] = [int(X.shape[0]), int(X.shape[1]),
                                 [[int(len(X.iloc[i, j])) for j in range(X.shape[1])]
                                  for i in range(X.shape[0])]]
            out["labels"][fmt] = y
        fmts = case["fmts"]
        for a in range(len(fmts)):
            for b in range(a + 1, len(fmts)):
                Xa, Xb = loaded[fmts[a]][0], loaded[fmts[b]][0]
                worst, where, nval, nbad = 0.0, None, 0, 0
                if Xa.shape == Xb.shape:
                    for i in range(Xa.shape[0]):
                        for j in range(Xa.shape[1]):
                            va, vb = Xa.iloc[i, j].values, Xb.iloc[i, j].values
                            if len(va) != len(vb):
                                continue
                            for t, (x, y) in enumerate(zip(va, vb)):
                                nval += 1
                                x, y = float(x), float(y)
                                if x != x and y != y:
                                    continue
                                # one unit of the last digit of the coarser of the two literals (the bundled
                                # roundings are double-rounded in places: half a unit is too strict)
                                tol = max(_ulp10(x), _ulp10(y)) * (1 + 1e-9)
                                dd = abs(x - y)
                                if not dd <= tol:
                                    nbad += 1
                                    if where is None:
                                        where = [i, j, t, repr(x), repr(y)]
                                if dd == dd and dd > worst:
                                    worst = dd
                out["pairs"]["%s-%s" % (fmts[a], fmts[b])] = {
                    "max_abs_diff": _frepr(worst), "beyond_printed_precision": nbad,
                    "first": where, "values": nval}
        return out
    if k == "split":
        from sktime.datasets import base
        from sktime.utils.data_io import load_from_tsfile_to_dataframe
        f = getattr(base, case["loader"])
        out = {}
        for split in (None, "train", "test"):
            key = str(split).lower()
            try:
                X, y = f(split=split, return_X_y=True)
                out["xy_" + key] = {"fp": [_row_fp(X, i) for i in range(len(X))],
                                    "y": [str(v) for v in y], "columns": [str(c) for c in X.columns]}
            except Exception as e:
                out["err"] = "split=%r return_X_y=True: %s: %s" % (split, type(e).__name__, str(e)[:120])
                return out
            try:
                F = f(split=split, return_X_y=False)
                cols = [str(c) for c in F.columns]
                Fx = F[[c for c in F.columns if str(c) != "class_val"]]
                out["fr_" + key] = {"fp": [_row_fp(Fx, i) for i in range(len(F))],
                                    "y": [str(v) for v in F["class_val"]] if "class_val" in cols else None,
                                    "columns": cols}
            except Exception as e:
                out["err"] = "split=%r return_X_y=False: %s: %s" % (split, type(e).__name__, str(e)[:120])
                return out
        name = LOADER_NAME[case["loader"]]
        for part in ("TRAIN", "TEST"):
            X, y = load_from_tsfile_to_dataframe(
                os.path.join(repo, DATA, name, "%s_%s.ts" % (name, part)))
            out["file_" + part.lower()] = {"fp": [_row_fp(X, i) for i in range(len(X))],
                                           "y": [str(v) for v in y]}
        return out
    raise AssertionError(k)


# ------------------------------------------------------------------------------------------------
# oracle: the theorems' conclusions restated on the implementation's output


def _tok_ulp(tok):
    """one unit of the last printed digit of a decimal literal"""
    from decimal import Decimal
    return Decimal(1).scaleb(Decimal(tok.strip()).as_tuple().exponent)


def _norm_label(v):
    return str(v).strip().lower()


def oracle(case, out):
    msg = _oracle(case, out)
    lf = case.get("label_form") if case["kind"] == "roundtrip" else None
    if msg and lf and ":" in msg and case.get("class_values"):
        # one clause (hence one replay) per type of class value
        head, rest = msg.split(":", 1)
        msg = "%s (%s class values):%s [class_value_list %r given as %s]" % (
            head, lf["type"], rest, case["class_values"], lf["form"])
    return msg


def _oracle(case, out):
    import math
    from decimal import Decimal
    k = case["kind"]
    if k == "roundtrip":
        vals, cv = case["values"], case["class_values"]
        must_reject = (len(cv) > 0 and len(cv) != len(vals)) or (
            case["equal_length"] and case["series_length"] == -1)
        if "write_err" in out:
            return None if must_reject else "roundtrip-write-rejected: %s" % out["write_err"]
        if must_reject:
            return None
        if bool(case["labels"]) != bool(cv) or not case.get("univariate", True):
            return None  # contradictory options / multivariate flag: correspondence only
        if out["loaded"] is None:
            return "roundtrip-written-file-does-not-load: %s" % out.get("load_err")
        ld = out["loaded"]
        rows = ld["rows"]
        if len(rows) != len(vals):
            return "roundtrip-instance-count: wrote %d loaded %d" % (len(vals), len(rows))
        if any(len(r) != 1 for r in rows) or ld["columns"] != ["dim_0"]:
            return "roundtrip-not-univariate: columns %s" % ld["columns"]
        for i, (r, orig, pr) in enumerate(zip(rows, vals, out["printed"])):
            got = r[0]
            if len(got) != len(orig):
                return "roundtrip-series-length: instance %d wrote %d loaded %d" % (
                    i, len(orig), len(got))
            for j, (g, o, t) in enumerate(zip(got, orig, pr)):
                if float(g) != float(t):
                    return "roundtrip-value-not-the-printed-token: [%d][%d] printed %r loaded %s" % (
                        i, j, t, g)
                ulp = _tok_ulp(t)
                err = abs(Decimal(float(g)) - Decimal(o))
                if err > ulp / 2 * (1 + Decimal("1e-9")) + abs(Decimal(o)) * Decimal("1e-15"):
                    return ("roundtrip-value-beyond-printed-precision: [%d][%d] original %r printed "
                            "%r loaded %s" % (i, j, o, t, g))
        if cv:
            want = [_norm_label(v) for v in cv]
            if ld["form"] != "tuple" or ld["labels"] != want:
                return "roundtrip-labels: wrote %s loaded %s" % (want, ld["labels"])
        elif ld["form"] != "frame" or ld["labels"] is not None:
            return "roundtrip-labels: none written, loaded %s" % ld["labels"]
        if ld["index"] != list(range(len(vals))):
            return "roundtrip-instance-order: index %s" % ld["index"]
        return _termination_clause(out)
    if k in ("ts_lines", "arff_lines", "tsv_lines"):
        return _termination_clause(out)   # otherwise model verdict vs loader verdict (correspondence)
    if k == "file":
        if out["loaded"] is None and not out.get("relational"):
            return "bundled-file-does-not-load: %s %s" % (case["file"], out.get("load_err"))
        return _termination_clause(out)
    if k == "formats":
        if "err" in out:
            return "formats-loader-raised: %s" % out["err"]
        fm = case["fmts"]
        sh = out["shape"]
        for f in fm[1:]:
            if sh[f] != sh[fm[0]]:
                a, b = sh[fm[0]], sh[f]
                bad = [i for i in range(min(len(a[2]), len(b[2]))) if a[2][i] != b[2][i]][:1]
                return "formats-shape: %s %s vs %s %s%s" % (
                    fm[0], a[:2], f, b[:2],
                    ", series lengths of instance %d: %s vs %s" % (bad[0], a[2][bad[0]], b[2][bad[0]])
                    if bad else "")
        ref = [s.lower() for s in out["labels"][fm[0]]]
        for f in fm[1:]:
            if [s.lower() for s in out["labels"][f]] != ref:
                return "formats-labels: %s differs from %s" % (f, fm[0])
        if "ts" in fm and out["labels"]["ts"] != [s.lower() for s in out["labels"]["ts"]]:
            return "formats-labels: .ts labels are not lower-cased"
        for pair, r in out["pairs"].items():
            if r["values"] == 0 or r["beyond_printed_precision"]:
                return ("formats-values: %s: %d of %d values differ beyond one unit of the coarser "
                        "printed literal, first %s" % (pair, r["beyond_printed_precision"],
                                                       r["values"], r["first"]))
        return None
    if k == "split":
        if "err" in out:
            return "split-loader-raised: %s" % out["err"]
        tr, te, no = out["xy_train"], out["xy_test"], out["xy_none"]
        if no["fp"] != tr["fp"] + te["fp"]:
            return "split-none-is-not-train-then-test: instances (%d vs %d + %d)" % (
                len(no["fp"]), len(tr["fp"]), len(te["fp"]))
        if no["y"] != tr["y"] + te["y"]:
            return "split-none-is-not-train-then-test: labels"
        for part, key in (("train", "xy_train"), ("test", "xy_test")):
            if out[key]["fp"] != out["file_" + part]["fp"] or out[key]["y"] != out["file_" + part]["y"]:
                return "split-%s-is-not-the-%s-file" % (part, part.upper())
        for key in ("none", "train", "test"):
            xy, fr = out["xy_" + key], out["fr_" + key]
            if fr["columns"] != xy["columns"] + ["class_val"]:
                return "split-single-frame-columns: %s %s" % (key, fr["columns"])
            if fr["fp"] != xy["fp"]:
                return "split-single-frame-instances-differ: %s" % key
            if fr["y"] != xy["y"]:
                return "split-single-frame-labels-differ: %s" % key
        return None
    if k == "history":
        return _history_oracle(case, out)
    return "unknown-kind"


def _termination_clause(out):
    """the same lines, terminated / padded differently, parse to the same panel and labels"""
    base = out.get("loaded")
    for how, v in sorted((out.get("variants") or {}).items()):
        got = v.get("loaded")
        if (got is None) != (base is None):
            return "termination-changes-the-parse: with `%s` the file is %s (%s), with a newline " \
                   "after every line it is %s" % (
                       how, "rejected" if got is None else "accepted", v.get("load_err"),
                       "rejected" if base is None else "accepted")
        if got != base:
            what = "shape"
            for key in ("labels", "rows", "columns", "index", "form", "ncols"):
                if base.get(key) != got.get(key):
                    what = key
                    break
            detail = ""
            if what == "labels":
                detail = ": labels %s vs %s" % (got["labels"][-3:], base["labels"][-3:])
            elif what == "rows" and len(got["rows"]) == len(base["rows"]):
                i = next(i for i, (x, y) in enumerate(zip(got["rows"], base["rows"])) if x != y)
                detail = ": instance %d %s vs %s" % (i, str(got["rows"][i])[-60:],
                                                     str(base["rows"][i])[-60:])
            return "termination-changes-the-parse: with `%s` the %s differ from the file with a " \
                   "newline after every line%s" % (how, what, detail)
    return None


def _summ(d):
    if d is None or "err" in d:
        return str(d)
    return "%s: %d rows, columns %s, labels %s..." % (
        d["form"], len(d["rows"]), d["columns"], None if d["y"] is None else d["y"][:3])


def _first_diff(a, b, index=True):
    """where two canonical results differ (None when they are equal)"""
    if "err" in a or "err" in b:
        return None if a == b else "one of them raised"
    for key in ("form", "columns"):
        if a[key] != b[key]:
            return "%s %s vs %s" % (key, a[key], b[key])
    if len(a["rows"]) != len(b["rows"]):
        return "%d vs %d instances" % (len(a["rows"]), len(b["rows"]))
    for i, (x, y) in enumerate(zip(a["rows"], b["rows"])):
        if x != y:
            return "instance %d (fingerprints %s vs %s)" % (i, x, y)
    if a["y"] != b["y"]:
        if a["y"] is None or b["y"] is None or len(a["y"]) != len(b["y"]):
            return "labels %s vs %s" % (a["y"] and a["y"][:3], b["y"] and b["y"][:3])
        i = next(i for i, (x, y) in enumerate(zip(a["y"], b["y"])) if x != y)
        return "label %d (%r vs %r)" % (i, a["y"][i], b["y"][i])
    if index and a["index"] != b["index"]:
        return "index %s... vs %s..." % (a["index"][:3], b["index"][:3])
    return None


def _edited(d, how, prm, xy):
    """the canonical result after the caller's edit (mirror of the model's `mutate`)"""
    d = {"form": d["form"], "columns": list(d["columns"]), "index": list(d["index"]),
         "rows": [list(r) for r in d["rows"]], "y": None if d["y"] is None else list(d["y"])}
    if how == "drop_first":
        d["rows"], d["index"] = d["rows"][1:], d["index"][1:]
        if not xy and d["y"] is not None:
            d["y"] = d["y"][1:]
    elif how == "set_label":
        if d["y"]:
            d["y"][0] = prm["label"]
    elif how in ("set_cell", "edit_cell_inplace"):
        if d["rows"] and d["rows"][0]:
            d["rows"][0][0] = prm["cell"]
    elif how == "add_column":
        d["rows"] = [r + [prm["cell"]] for r in d["rows"]]
        d["columns"] = d["columns"] + ["extra"]
    return d


def _pure(files, split, xy):
    """the pure function of the two files: what load(split, return_X_y) must return"""
    tr, te = files["train"], files["test"]
    parts = [tr, te] if split is None else [tr if split == "train" else te]
    rows = [r for p in parts for r in p["rows"]]
    y = [v for p in parts for v in p["y"]]
    cols = list(tr["columns"])
    return {"form": "xy" if xy else "frame", "columns": cols if xy else cols + ["class_val"],
            "rows": rows, "y": y, "index": [i for p in parts for i in p["index"]]}


def _call_text(case, o):
    return "%s(split=%r, return_X_y=%s)" % (case["loader"], o["split"], o["xy"])


def _history_oracle(case, out):
    ops = case["ops"]
    loads = [o for o in ops if o["op"] == "load"]
    if any("err" in r for r in out["ref"].values()):
        bad = sorted(k for k, r in out["ref"].items() if "err" in r)[0]
        return "split-loader-raised: first call %s: %s" % (bad, out["ref"][bad]["err"])
    # the first-call references are the pure function of the two files, consistently in both forms
    for o in loads:
        for xy in (True, False):
            ref = out["ref"][_key(o["split"], xy)]
            # (row labels are not instances: which index the frames carry is only required to be the
            # same in both forms and in every call, below)
            d = _first_diff(ref, _pure(out["files"], o["split"], xy), index=False)
            if d:
                return "loader-result-is-not-the-pure-function-of-the-files: %s as a first call " \
                       "vs train-then-test of the parsed files: %s" % (
                           _call_text(case, dict(o, xy=xy)), d)
        a, b = out["ref"][_key(o["split"], True)], out["ref"][_key(o["split"], False)]
        if a["index"] != b["index"] or b["columns"] != a["columns"] + ["class_val"] \
                or a["rows"] != b["rows"] or a["y"] != b["y"]:
            what = "index %s... vs %s..." % (a["index"][:3], b["index"][:3]) \
                if a["index"] != b["index"] else _first_diff(
                    a, dict(b, form="xy", columns=[c for c in b["columns"] if c != "class_val"]))
            return "split-forms-inconsistent: split=%r (X, y) form %s vs single frame %s: %s" % (
                o["split"], _summ(a), _summ(b), what)
    if "err" in out:
        return "loader-result-depends-on-history: a call that works as a first call raised " \
               "inside the history: %s" % out["err"]
    # every call of the history returns what the same call returns as the first call of a process
    k = 0
    for i, o in enumerate(ops):
        if o["op"] != "load":
            continue
        d = _first_diff(out["ret"][k], out["ref"][_key(o["split"], o["xy"])])
        if d:
            before = "; ".join(_call_text(case, p) if p["op"] == "load" else
                               "caller: %s on result #%d" % (p["how"], p["target"]) for p in ops[:i])
            return "loader-result-depends-on-history: call #%d %s after [%s] returned %s; as a " \
                   "first call it returns %s; they differ in %s" % (
                       k, _call_text(case, o), before, _summ(out["ret"][k]),
                       _summ(out["ref"][_key(o["split"], o["xy"])]), d)
        k += 1
    # the caller's objects at the end: the returned value with the caller's own edits, nothing else
    for k, o in enumerate(loads):
        want, touched = out["ret"][k], False
        for p, prm in zip(ops, out["params"]):
            if p["op"] == "mutate" and p["target"] == k:
                want, touched = _edited(want, p["how"], prm, o["xy"]), True
        d = _first_diff(out["final"][k], want)
        if d:
            if not touched:
                return "loader-result-changed-behind-the-caller: result #%d of %s was never " \
                       "edited by the caller but is different at the end of the history: %s" % (
                           k, _call_text(case, o), d)
            return "caller-edit-not-local: result #%d of %s after the caller's own edits " \
                   "differs from the returned value with those edits applied: %s" % (
                       k, _call_text(case, o), d)
    return None


def nontrivial(case, out):
    k = case["kind"]
    if k == "roundtrip":
        return out.get("loaded") is not None and len(case["values"]) >= 2
    if k in ("ts_lines", "arff_lines", "tsv_lines"):
        return True
    if k == "file":
        return out.get("loaded") is not None
    return True


def _shrink_history(case):
    ops = case["ops"]
    nload = sum(1 for o in ops if o["op"] == "load")
    for i, o in enumerate(ops):
        if o["op"] == "load" and nload <= 1:
            continue
        rest = []
        k = sum(1 for p in ops[:i] if p["op"] == "load")       # number of the removed load
        for j, p in enumerate(ops):
            if j == i:
                continue
            if p["op"] == "mutate" and o["op"] == "load":
                if p["target"] == k:
                    continue
                p = dict(p, target=p["target"] - 1) if p["target"] > k else p
            rest.append(p)
        # an edit must come after the load it targets
        seen, ok = 0, True
        for p in rest:
            if p["op"] == "load":
                seen += 1
            elif p["target"] >= seen:
                ok = False
        if ok and rest != ops:
            yield dict(case, ops=rest)


def shrink(case):
    if case["kind"] == "history":
        for c in _shrink_history(case):
            yield c
        return
    if case["kind"] != "roundtrip":
        return
    c = dict(case)
    n = len(c["values"])
    if n > 1:
        for i in range(n):
            d = dict(c)
            d["values"] = c["values"][:i] + c["values"][i + 1:]
            if c["class_values"]:
                d["class_values"] = c["class_values"][:i] + c["class_values"][i + 1:]
            if c.get("row_index") is not None:
                # keep the kind of row labels: the remaining labels, re-ranked to 0..n-2
                rest = c["row_index"][:i] + c["row_index"][i + 1:]
                d["row_index"] = [sorted(rest).index(v) for v in rest]
            yield d
        if c.get("row_index") is not None:
            d = dict(c)
            d["row_index"] = None
            yield d
    m = len(c["values"][0])
    if m > 1:
        for cut in (m // 2, m - 1):
            if cut >= 1:
                d = dict(c)
                d["values"] = [r[:cut] for r in c["values"]]
                if d["series_length"] > 0:
                    d["series_length"] = cut
                yield d
    for key, val in (("comment", None), ("equal_length", False), ("series_length", -1),
                     ("name", "p")):
        if c[key] != val and not (key == "series_length" and c["equal_length"]):
            d = dict(c)
            d[key] = val
            yield d
    if c["labels"]:
        d = dict(c)
        d["labels"], d["class_values"] = None, []
        yield d
    if any(v != 1 for r in c["values"] for v in r):
        d = dict(c)
        d["values"] = [[1 for _ in r] for r in c["values"]]
        yield d


# ------------------------------------------------------------------------------------------------
# model side

CASES_HEADER = """From Coq Require Import ZArith List Bool Ascii String.
Require Import SkV.Lib.Base SkV.C18.Model SkV.C18.Cases.
Import ListNotations.
Open Scope string_scope.
Open Scope list_scope.
Open Scope Z_scope.
"""


def _s(x):
    return "(L %s)" % cstr(x)


def _sl(xs):
    return clist([_s(x) for x in xs])


def _impl_ts(ld):
    if ld is None:
        return "None"
    rows = clist([clist([_sl(s) for s in r]) for r in ld["rows"]])
    return "(Some (%s, %s))" % (rows, copt(ld["labels"], _sl))


def _impl_flat(ld):
    if ld is None:
        return "None"
    return "(Some (%s, %s))" % (clist([_sl(s) for s in ld["rows"]]), _sl(ld["labels"]))


def _wopts(case, out):
    return "(mkW %s false %s %s %s %s %s)" % (
        _s(case["name"]), cbool(case.get("univariate", True)),
        _sl([str(x) for x in (case["labels"] or [])]),
        cbool(case["equal_length"]), cz(case["series_length"]), _sl(out["wrapped"]))


def _ascii_ok(lines):
    return all(ord(ch) < 128 for ln in lines for ch in ln)


def coq_case(case, out):
    k = case["kind"]
    if k == "roundtrip":
        if not _ascii_ok([str(v) for v in (case["labels"] or [])] + [case["name"]]
                         + (out["file"] or [])):
            return None         # the model is on ASCII bytes; non-ASCII labels: Python oracle only
        return "CRoundtrip %s %s %s %s %s" % (
            _wopts(case, out), clist([_sl(r) for r in out["printed"]]),
            _sl([str(v) for v in case["class_values"]]), copt(out["file"], _sl),
            _impl_ts(out["loaded"]))
    if k == "ts_lines":
        return "CTsLines %s %s" % (_sl(case["lines"]), _impl_ts(out["loaded"]))
    if k == "arff_lines":
        if not case.get("labelled", True):
            return None                      # the model's .arff parser is the labelled one
        return "CArffLines %s %s" % (_sl(case["lines"]), _impl_flat(out["loaded"]))
    if k == "tsv_lines":
        return "CTsvLines %s %s" % (_sl(case["lines"]), _impl_flat(out["loaded"]))
    if k == "file":
        if out.get("relational"):
            return None
        lines = out["lines"]
        if case["fmt"] == "ts":
            return "CTsLines %s %s" % (_sl(lines), _impl_ts(out["loaded"]))
        if case["fmt"] == "arff":
            return "CArffLines %s %s" % (_sl(lines), _impl_flat(out["loaded"]))
        return "CTsvLines %s %s" % (_sl(lines), _impl_flat(out["loaded"]))
    if k == "formats":
        if sorted(case["fmts"]) != ["arff", "ts", "tsv"] or "err" in out:
            return None
        ln = out["lines"]
        return "CFormats %s %s %s" % (_sl(ln["ts"]), _sl(ln["arff"]), _sl(ln["tsv"]))
    if k == "split":
        if "err" in out:
            return None
        # the Python oracle compares every instance; inside Coq the model's concatenation is run on
        # the first / last SPLIT_K instances of each part (and the same positions of split=None)
        ntr, nte = len(out["file_train"]["fp"]), len(out["file_test"]["fp"])

        def pos(n):
            return list(range(n)) if n <= 2 * SPLIT_K else (
                list(range(SPLIT_K)) + list(range(n - SPLIT_K, n)))
        ptr, pte = pos(ntr), pos(nte)
        pno = ptr + [ntr + i for i in pte]

        def sel(d, idx):
            ok = [i for i in idx if i < len(d["fp"])]
            return {"fp": [d["fp"][i] for i in ok],
                    "y": [d["y"][i] for i in ok] if d["y"] is not None else None}

        def xy(d):
            return "(%s, %s)" % (clist(["[[%s]]" % _s(fp) for fp in d["fp"]]), _sl(d["y"]))

        def fr(d):
            return clist(["([[%s]], %s)" % (_s(fp), _s(y)) for fp, y in zip(d["fp"], d["y"] or [])])
        if len(out["xy_none"]["fp"]) != ntr + nte or len(out["xy_train"]["fp"]) != ntr \
                or len(out["xy_test"]["fp"]) != nte or len(out["fr_none"]["fp"]) != ntr + nte:
            ptr, pte, pno = list(range(ntr)), list(range(nte)), list(range(len(out["xy_none"]["fp"])))
        return "CSplit %s %s %s %s %s %s" % (
            xy(sel(out["file_train"], ptr)), xy(sel(out["file_test"], pte)),
            xy(sel(out["xy_none"], pno)), xy(sel(out["xy_train"], ptr)),
            xy(sel(out["xy_test"], pte)), fr(sel(out["fr_none"], pno)))
    if k == "history":
        return _coq_history(case, out)
    return None


def _hpos(n):
    return list(range(n)) if n <= 2 * HIST_K else (
        list(range(HIST_K)) + list(range(n - HIST_K, n)))


def _c_row(fps):
    return clist(["[%s]" % _s(fp) for fp in fps])


def _c_loaded(d, xpos, ypos):
    """a canonical result as a `loaded` term, excerpted at the given positions"""
    rows = [d["rows"][i] for i in xpos if 0 <= i < len(d["rows"])]
    ys = d["y"] or []
    if d["form"] == "xy":
        labs = [ys[i] for i in ypos if 0 <= i < len(ys)]
        return "(LXy %s %s)" % (clist([_c_row(r) for r in rows]), _sl(labs))
    pairs = [(d["rows"][i], ys[i]) for i in xpos if 0 <= i < len(d["rows"]) and i < len(ys)]
    return "(LFrame %s)" % clist(["(%s, %s)" % (_c_row(r), _s(y)) for r, y in pairs])


def _coq_history(case, out):
    if "err" in out or "files" not in out:
        return None
    tr, te = out["files"]["train"], out["files"]["test"]
    if tr["y"] is None or te["y"] is None:
        return None
    ntr, nte = len(tr["rows"]), len(te["rows"])
    ptr, pte = _hpos(ntr), _hpos(nte)
    pos = {None: ptr + [ntr + i for i in pte], "train": ptr, "test": pte}

    def filexy(d, idx):
        return "(%s, %s)" % (clist([_c_row(d["rows"][i]) for i in idx]), _sl([d["y"][i] for i in idx]))
    ops, terms, ret, fin = case["ops"], [], [], []
    loads = [o for o in ops if o["op"] == "load"]
    for o, prm in zip(ops, out["params"]):
        if o["op"] == "load":
            terms.append("(HLoad (%s, %s))" % (
                {None: "None", "train": "(Some Train)", "test": "(Some Test)"}[o["split"]],
                "FormXy" if o["xy"] else "FormFrame"))
            continue
        how = o["how"]
        m = {"drop_first": "MDropFirst",
             "set_label": "(MSetLabel %s)" % _s((prm or {}).get("label", "")),
             "set_cell": "(MSetCell [%s])" % _s((prm or {}).get("cell", "")),
             "edit_cell_inplace": "(MSetCell [%s])" % _s((prm or {}).get("cell", "")),
             "add_column": "(MAddColumn [%s])" % _s((prm or {}).get("cell", ""))}[how]
        terms.append("(HMutate %d %s)" % (o["target"], m))
    for k, o in enumerate(loads):
        p = pos[o["split"]]
        ret.append(_c_loaded(out["ret"][k], p, p))
        # rows the caller dropped from the front shift the positions of what is left
        drops = sum(1 for q in ops if q["op"] == "mutate" and q["target"] == k
                    and q["how"] == "drop_first")
        xp = [i - drops for i in p if i >= drops]
        fin.append(_c_loaded(out["final"][k], xp, p if o["xy"] else xp))
    return "CHistory %s %s %s %s %s" % (filexy(tr, ptr), filexy(te, pte), clist(terms),
                                        clist(ret), clist(fin))


def coq_model_term(case):
    k = case["kind"]
    if k in ("ts_lines",):
        return "parse_ts %s" % _sl(case["lines"])
    if k == "arff_lines":
        return "parse_arff %s" % _sl(case["lines"])
    if k == "tsv_lines":
        return "parse_tsv %s" % _sl(case["lines"])
    if k == "roundtrip":
        # the model needs the printed tokens, which only the driver can produce: show the header
        o = {"wrapped": []}
        return "render_header %s writer_header" % _wopts(case, o)
    if k == "history":
        # the model on a two-instance stand-in for the files: what every call must return
        calls = clist(["(%s, %s)" % ({None: "None", "train": "(Some Train)", "test": "(Some Test)"}[
            o["split"]], "FormXy" if o["xy"] else "FormFrame") for o in case["ops"]
            if o["op"] == "load"])
        return ("map (pure_load (Ok ([[[L \"train0\"]]; [[L \"train1\"]]], Some [L \"a\"; L \"b\"])) "
                "(Ok ([[[L \"test0\"]]], Some [L \"c\"]))) %s" % calls)
    return "parser_tags"


def distribution(cases, results):
    import collections
    d = collections.Counter()
    for c, r in zip(cases, results):
        o = r.get("out") or {}
        k = c["kind"]
        if k == "roundtrip":
            d["roundtrip:regime=%s" % c["regime"]] += 1
            d["roundtrip:labels=%d" % len(c["labels"] or [])] += 1
            ri = c.get("row_index")
            d["roundtrip:row-labels=%s" % ("range" if ri is None else "permutation"
                                           if sorted(ri) == list(range(len(ri))) else "other")] += 1
            labs = "".join(str(v) for v in (c["labels"] or []))
            d["roundtrip:label-chars=%s" % ("non-ascii" if any(ord(ch) > 126 for ch in labs) else
                                            "special" if any(not ch.isalnum() and ch != "_"
                                                             for ch in labs) else "plain")] += 1
            for ch in sorted(set(labs)):
                if ch in "#%@,+-./":
                    d["roundtrip:label-has %s" % ch] += 1
            d["roundtrip:instances=%d" % len(c["values"])] += 1
            lf = c.get("label_form")
            if lf:
                d["roundtrip:class-values=%s as %s" % (lf["type"], lf["form"])] += 1
                if any(not v for v in c["class_values"]):
                    d["roundtrip:falsy-class-value"] += 1
            d["roundtrip:%s" % ("comment" if c["comment"] else "no-comment")] += 1
            d["roundtrip:equal_length=%s,series_length=%s" % (
                c["equal_length"], c["series_length"] > 0)] += 1
            d["roundtrip:%s" % ("loaded" if o.get("loaded") else "not-loaded")] += 1
        elif k in ("ts_lines", "arff_lines", "tsv_lines", "file"):
            d["%s:%s" % (k, "accepted" if o.get("loaded") else "rejected")] += 1
        elif k == "history":
            loads = [p for p in c["ops"] if p["op"] == "load"]
            d["history:calls=%d" % len(loads)] += 1
            d["history:mixes-return-forms=%s" % (len(set(p["xy"] for p in loads)) > 1)] += 1
            d["history:mixes-splits=%s" % (len(set(p["split"] for p in loads)) > 1)] += 1
            for p in c["ops"]:
                if p["op"] == "mutate":
                    d["history:caller-edit=%s" % p["how"]] += 1
        else:
            d[k] += 1
    return dict(d)


def extra_coverage(cases, results, tier):
    files = [c["file"] for c in cases if c["kind"] == "file"]
    return {"exhaustive": False,
            "exhaustive_scope": "bundled files: %d (all .ts/.arff/.tsv under %s); datasets with >= 2 "
                                "formats: %s; loaders: %s" % (
                                    len(files), DATA,
                                    [c["dataset"] for c in cases if c["kind"] == "formats"],
                                    [c["loader"] for c in cases if c["kind"] == "split"]) +
            "; call histories: %d" % sum(1 for c in cases if c["kind"] == "history")}
