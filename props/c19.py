"""C19 - benchmark runs are exactly-once, resumable and store what was actually predicted.

Model: coq/C19/Model.v (result store as a state machine following Orchestrator._iter / fit_predict,
HDDResults / RAMResults, BaseResults._append_key, HDDBaseResults.save).  Tie: correspondence (C) -
the REAL Orchestrator is run over a scratch directory (or a RAMResults object) with deterministic
test-double estimators that count their calls, log their arguments and raise on the k-th fit /
predict; every observable (status, calls with arguments, which entries were written, the whole
store, registry, master file, load_predictions) is compared exactly with the model inside Coq.
"""
import itertools

from harness.core import cbool, clist, copt, cz, czlist

ID = "C19"
MODEL_TARGETS = ["C19/Cases.vo"]
PROOF_TARGETS = ["C19/Store.vo", "C19/Proofs.vo", "C19/Grid.vo", "C19/Gen.vo", "C19/Bridge.vo"]
OBLIGATION_FILES = ["C19/Bridge.v"]
PROPS_FILE = "C19/Props.v"
SHARD = 70
PER_CASE_TIMEOUT = 120
RULE = ("histories of 1-4 fit_predict runs over small grids (<= 2 strategies x 2 datasets x 1-3 "
        "folds, 4-7 instances per dataset; thorough: up to 3 x 3 x 3): 'resume' = for each grid / "
        "flag combination EVERY crash point (k-th fit, k-th predict, all k) followed by a resume on "
        "the same or a fresh results object and a third identical run; 'overwrite' = overwrite runs "
        "after complete and after crashed runs, possibly crashing themselves; 'history' = random "
        "flag / crash / fresh-object histories incl. the rejected flag combination; 'regrid' = later "
        "runs over a sub-grid with a new results object (master file merge); 'ram' = RAMResults "
        "histories; 'permidx' = datasets whose integer index is permuted or has other labels; 'floatcsv' = fractional float predictions (oracle only); cv = KFold(2/3), "
        "SingleSplit (unshuffled and shuffled), PresplitFilesCV with and without inner KFold; TSC "
        "and TSR strategies.  non-trivial = at least two runs of which one crashed or skipped "
        "something (RAM: a completed run); distinct = distinct canonical JSON case")
TRUSTED = [
    "props/c19.py test doubles (_Dbl*: deterministic fit/predict, global call counters, raise on "
    "the k-th call) and their Gallina twins dbl_fit / dbl_pred in coq/C19/Cases.v",
    "props/c19.py canonicalisation: file path / dict key -> (strategy, dataset, fold, item); CSV "
    "files parsed with the csv module (index, y_true, y_pred columns only; the four timestamp "
    "columns are ignored); 'written in this run' detected by resetting every file's mtime to a "
    "sentinel before the run (HDD) / object identity of the stored wrapper (RAM)",
    "registry and master file compared as sets (HDDBaseResults.save merges with list(set()), whose "
    "order is arbitrary); load_predictions output compared as a set of records",
]
MODELLED = [
    "the file system is a key -> content map with atomic whole-entry writes: a crash INSIDE "
    "DataFrame.to_csv / joblib.dump leaving a torn or empty file cannot be exhibited by the model "
    "(a torn .csv would count as 'exists' for check_predictions_exist and be skipped on resume)",
    "crashes are exceptions raised by the estimator's fit / predict; a crash in dataset.load(), "
    "cv.split or results.save() itself is not modelled",
    "estimators are deterministic functions of (parameter, training rows) / (parameter, state, "
    "instance); timestamps stored next to the predictions and y_proba are outside the model",
    "directories created as a side effect of the existence checks (HDDResults._generate_key calls "
    "os.makedirs) are not part of the modelled store; only files are",
    "shuffled SingleSplit: the folds are taken from an independent cv.split call with the same "
    "random_state (the permutation itself is sklearn's); unshuffled SingleSplit, KFold and "
    "PresplitFilesCV folds are computed by the model",
    "Orchestrator.fit (fit only) and Orchestrator.predict (raises NotImplementedError) are outside "
    "the property's observation points and not modelled",
    "float-valued predictions: the model stores integers (the doubles predict integer-valued "
    "floats for regression); exact float read-back from CSV is checked separately (kind "
    "'floatcsv', oracle only: the text to_csv stores must parse - correctly rounded, Python float() - "
    "to the double handed to save_predictions, and load_predictions must return that double bit "
    "for bit)",
    "a record's numpy dtype is not part of the model: the CSV store keeps decimal text, so a "
    "float32 prediction comes back as the float64 of its shortest decimal repr and a numeric-looking "
    "string label as an integer (see notes/C19.md, observations)",
]
NOT_RUNNABLE = [
    "UEADataset (.ts files on disk) is not exercised: datasets are RAMDataset objects; "
    "PresplitFilesCV is driven through a DataFrame whose index carries the 'train'/'test' labels, "
    "which is exactly what UEADataset.load produces",
]

def translate(repo):
    from translator import orch_c19
    return orch_c19.translate(repo)


ITEMS = ("train", "test", "fit")         # ITrain, ITest, IFit
FLAGS = ("ow_pred", "on_train", "save_fit", "ow_fit")

# ------------------------------------------------------------------------------------------------
# the deterministic test doubles (pure functions first: shared by the doubles and the oracle)


def _dbl_fit(p, xs, ys):
    s = p
    for x, y in zip(xs, ys):
        s = (s * 31 + x * 7 + y) % 1009
    return s


def _dbl_pred(reg, p, s, x):
    return (s * 3 + p * x) % 11 - 5 if reg else (s + p * x) % 7


CALLS = {"fit": 0, "predict": 0, "fail": None, "log": []}


def _fl(v, sc):
    """kind 'floatcsv': the float an integer v stands for under sc = [divisor, power of two]:
    v / divisor * 2**power (fractional mantissas over the whole exponent range, down to
    subnormals and up to the largest doubles)."""
    import math
    return math.ldexp(float(v) / float(sc[0]), int(sc[1]))


class _Boom(RuntimeError):
    """The failure injected at the k-th fit / predict call."""


def _lab(v, lt):
    """kind 'typedcsv': the label / value an integer v stands for under label type lt"""
    import numpy as np
    if lt == "strnum":
        return str(int(v))                 # '3'   (UEA class labels look like this)
    if lt == "strpad":
        return "%02d" % int(v)             # '03'
    if lt == "str":
        return "c%d" % int(v)              # 'c3'  (positive control: survives a CSV)
    if lt == "f32":
        return np.float32(int(v) / 7.0)    # a float32 that is not a short decimal
    raise AssertionError(lt)


def _unlab(v):
    """inverse of _lab for the doubles' fit (labels back to the integer they stand for)"""
    if isinstance(v, str):
        return int("".join(ch for ch in v if ch.isdigit() or ch == "-"))
    return int(v)


def _feat(X):
    return [int(X.iloc[i, 0].iloc[0]) for i in range(len(X))]


def _make_doubles():
    import numpy as np
    from sktime.classification.base import BaseClassifier
    from sktime.regression.base import BaseRegressor

    def fit(self, X, y):
        CALLS["fit"] += 1
        xs = _feat(X)
        ys = [_unlab(v) for v in y]
        CALLS["log"].append([1, self.p, xs, ys])
        if CALLS["fail"] == ["fit", CALLS["fit"]]:
            raise _Boom("fit %d" % CALLS["fit"])
        # a refit of an already fitted object is visible in its state: the orchestrator must fit a
        # fresh clone per fold, so `refits_` is 0 in every stored record
        self.refits_ = getattr(self, "refits_", -1) + 1
        self.state_ = _dbl_fit(self.p, xs, ys) + 2000 * self.refits_
        self._is_fitted = True
        return self

    def predict(self, X):
        CALLS["predict"] += 1
        xs = _feat(X)
        CALLS["log"].append([0, self.p, xs, []])
        if CALLS["fail"] == ["predict", CALLS["predict"]]:
            raise _Boom("predict %d" % CALLS["predict"])
        reg = self._reg
        out = [_dbl_pred(reg, self.p, self.state_, x) for x in xs]
        if CALLS.get("labeltype"):                   # kind 'typedcsv': typed labels / float32
            lt = CALLS["labeltype"]
            return np.array([_lab(v, lt) for v in out], dtype=np.float32 if lt == "f32" else None)
        if CALLS.get("scale"):                       # kind 'floatcsv': genuinely fractional floats
            return np.array([_fl(v, CALLS["scale"]) for v in out], dtype=float)
        return np.array(out, dtype=float if reg else int)

    def init(self, p=1):
        self.p = p
        super(type(self), self).__init__()

    global DblClassifier, DblRegressor
    if "DblClassifier" not in globals():
        DblClassifier = type("DblClassifier", (BaseClassifier,),
                             {"__init__": init, "fit": fit, "predict": predict, "_reg": False,
                              "__module__": __name__})
        DblRegressor = type("DblRegressor", (BaseRegressor,),
                            {"__init__": init, "fit": fit, "predict": predict, "_reg": True,
                             "__module__": __name__})
    return DblClassifier, DblRegressor


def driver_init():
    import logging
    import warnings
    warnings.filterwarnings("ignore")
    logging.getLogger().setLevel(logging.CRITICAL)
    _make_doubles()


# ------------------------------------------------------------------------------------------------
# case generation


def _grid(rng, n_s, n_d, cv, task=None, n_lo=4, n_hi=7):
    """A grid with distinct instance features across all datasets (so that a call's arguments
    identify the dataset, fold and part it belongs to)."""
    task = task or rng.choice(["tsc", "tsc", "tsr"])
    pool = rng.sample(range(1, 200), 9 * n_d)
    sids = rng.sample(range(1, 9), n_s)
    dids = rng.sample(range(1, 9), n_d)
    params = rng.sample(range(1, 12), n_s)
    data = []
    for j in range(n_d):
        n = rng.randint(n_lo, n_hi)
        if cv[0] == "kfold":
            n = max(n, 2 * cv[1])            # every training fold keeps >= 2 rows
        if cv[0] in ("single", "single_shuffle"):
            n = max(n, cv[1] + 2)            # TSCTask.set_metadata wants several training rows
        xs = pool[9 * j: 9 * j + n]
        ys = [rng.randint(0, 3) if task == "tsc" else rng.randint(-5, 5) for _ in range(n)]
        labels = None
        if cv[0] == "presplit":
            k = rng.randint(2, n - 1)      # >= 2 training rows (TSCTask.set_metadata wants several)
            labels = [True] * k + [False] * (n - k)
            rng.shuffle(labels)
            # keep the file split different from every inner k-fold fold, so that the arguments
            # of a fit call identify its fold (the oracle maps calls back to tasks)
            while cv[1] and [i for i in range(n) if not labels[i]] in _kfold_blocks(n, cv[1]):
                rng.shuffle(labels)
        data.append({"name": dids[j], "xs": xs, "ys": ys, "labels": labels})
    return {"task": task, "strategies": [[s, p] for s, p in zip(sids, params)], "datasets": data,
            "cv": list(cv)}


def _kfold_blocks(n, k):
    sizes = [n // k + (1 if i < n % k else 0) for i in range(k)]
    return [list(range(sum(sizes[:i]), sum(sizes[:i + 1]))) for i in range(k)]


def _run(fresh=False, fail=None, sel=None, **fl):
    r = {"fresh": bool(fresh), "fail": fail}
    if sel is not None:
        r["sel"] = sel              # [strategy names, dataset names] this run's Orchestrator gets
    for f in FLAGS:
        r[f] = bool(fl.get(f, False))
    return r


def _n_folds(cv, n=None):
    if cv[0] == "kfold":
        return cv[1]
    if cv[0] == "presplit":
        return 1 + (cv[1] or 0)
    return 1


def _crash_points(n_tasks, on_train):
    return [["fit", k] for k in range(1, n_tasks + 1)] + \
           [["predict", k] for k in range(1, n_tasks * (2 if on_train else 1) + 1)]


CVS_QUICK = [("kfold", 2), ("kfold", 3), ("single", 2), ("single_shuffle", 2, 7), ("presplit", None),
             ("presplit", 2)]


def gen_cases(rng, tier):
    cases = []
    thorough = tier == "thorough"

    def add(kind, backend, grid, runs):
        c = {"kind": kind, "backend": backend}
        c.update(grid)
        c["runs"] = runs
        cases.append(c)

    # 1. every crash point, then resume (same / fresh object), then a third identical run
    plans = [((2, 2, ("kfold", 2)), [(0, 0), (1, 0), (0, 1), (1, 1)]),
             ((1, 2, ("kfold", 3)), [(1, 1), (0, 1)]),
             ((2, 1, ("presplit", 2)), [(1, 1), (1, 0)]),
             ((2, 2, ("single", 2)), [(1, 1), (0, 0)]),
             ((2, 1, ("single_shuffle", 2, 5)), [(1, 1)]),
             ((2, 2, ("presplit", None)), [(1, 1)])]
    if thorough:
        plans += [((3, 3, ("kfold", 3)), [(0, 0), (1, 0), (0, 1), (1, 1)]),
                  ((3, 2, ("presplit", 2)), [(1, 1), (0, 1)]),
                  ((2, 3, ("single_shuffle", 3, 11)), [(1, 1), (1, 0)])]
    for (n_s, n_d, cv), flagsets in plans:
        n_tasks = n_s * n_d * _n_folds(cv)
        for on_train, save_fit in flagsets:
            fl = {"on_train": bool(on_train), "save_fit": bool(save_fit)}
            for j, fail in enumerate(_crash_points(n_tasks, on_train)):
                for fresh2 in ((True, False) if (n_s, n_d) == (2, 2) or thorough else (j % 2 == 0,)):
                    g = _grid(rng, n_s, n_d, cv)
                    add("resume", "hdd", g,
                        [_run(True, fail, **fl), _run(fresh2, None, **fl),
                         _run(not fresh2 if j % 3 else fresh2, None, **fl)])
    # 2. overwrite runs: after a complete run, after a crashed run, crashing themselves
    for i in range(40 if not thorough else 200):
        cv = rng.choice(CVS_QUICK)
        n_s, n_d = rng.choice([(2, 2), (1, 2), (2, 1)])
        if _n_folds(cv) > 2:
            n_s, n_d = rng.choice([(1, 2), (2, 1)])
        g = _grid(rng, n_s, n_d, cv)
        n_tasks = n_s * n_d * _n_folds(cv)
        on_train = rng.random() < 0.6
        save_fit = rng.random() < 0.6
        fl = {"on_train": on_train, "save_fit": save_fit}
        first_fail = rng.choice([None, None] + _crash_points(n_tasks, on_train))
        ow = {"ow_pred": rng.random() < 0.8, "ow_fit": save_fit and rng.random() < 0.5}
        if not ow["ow_pred"] and not ow["ow_fit"]:
            ow["ow_pred"] = True
        ow_fail = rng.choice([None, None, None] + _crash_points(n_tasks, on_train))
        runs = [_run(True, first_fail, **fl), _run(rng.random() < 0.5, ow_fail, **fl, **ow),
                _run(rng.random() < 0.5, None, **fl)]
        add("overwrite", "hdd", g, runs)
    # 3. random histories (any flags, including the rejected combination; changing flags)
    for i in range(70 if not thorough else 500):
        cv = rng.choice(CVS_QUICK)
        n_s, n_d = rng.choice([(2, 2), (1, 2), (2, 1), (1, 1)])
        if _n_folds(cv) > 2 and (n_s, n_d) == (2, 2):
            n_s = 1
        g = _grid(rng, n_s, n_d, cv)
        n_tasks = n_s * n_d * _n_folds(cv)
        runs = []
        for r in range(rng.randint(2, 4)):
            fl = {"on_train": rng.random() < 0.5, "save_fit": rng.random() < 0.6,
                  "ow_pred": rng.random() < 0.2, "ow_fit": rng.random() < 0.2}
            fail = rng.choice([None, None] + _crash_points(n_tasks, fl["on_train"]))
            runs.append(_run(r == 0 or rng.random() < 0.5, fail, **fl))
        add("history", "hdd", g, runs)
    # 4. in-memory results
    for i in range(40 if not thorough else 200):
        cv = rng.choice(CVS_QUICK)
        n_s, n_d = rng.choice([(2, 2), (1, 2), (2, 1)])
        if _n_folds(cv) > 2 and (n_s, n_d) == (2, 2):
            n_d = 1
        g = _grid(rng, n_s, n_d, cv)
        n_tasks = n_s * n_d * _n_folds(cv)
        runs = []
        for r in range(rng.randint(1, 3)):
            fl = {"on_train": rng.random() < 0.5, "save_fit": rng.random() < 0.15,
                  "ow_pred": rng.random() < 0.2}
            fail = rng.choice([None, None] + _crash_points(n_tasks, fl["on_train"]))
            runs.append(_run(r == 0 or rng.random() < 0.3, fail, **fl))
        add("ram", "ram", g, runs)
    # 5. the grid changes between runs (new Orchestrator + results object over the same directory
    #    with a sub-grid): the master file must keep the earlier names, the registry is merged
    for i in range(45 if not thorough else 200):
        cv = rng.choice([("kfold", 2), ("single", 2), ("presplit", None), ("single_shuffle", 2, 3)])
        g = _grid(rng, 2, 2, cv)
        sn = [x[0] for x in g["strategies"]]
        dn = [d["name"] for d in g["datasets"]]

        def sub():
            a = rng.choice([sn, sn, [sn[0]], [sn[1]]])
            b = rng.choice([dn, dn, [dn[0]], [dn[1]]])
            return [list(a), list(b)]
        runs = []
        for r in range(rng.randint(2, 4)):
            sel = sub()
            fl = {"on_train": rng.random() < 0.5, "save_fit": rng.random() < 0.5,
                  "ow_pred": rng.random() < 0.15}
            n_tasks = len(sel[0]) * len(sel[1]) * _n_folds(cv)
            fail = rng.choice([None, None, None] + _crash_points(n_tasks, fl["on_train"]))
            runs.append(_run(True, fail, sel=sel, **fl))
        add("regrid", "hdd", g, runs)
    # 6. float-valued predictions written to / read back from CSV (oracle only)
    #    y_pred = v / divisor * 2**power and y_true likewise: fractional mantissas (about 1/3 of
    #    them are not read back exactly by a non-round-trip parser) at ordinary, tiny (subnormal)
    #    and huge exponents; to_csv writes the shortest repr, which identifies the double
    for i in range(10 if not thorough else 60):
        g = _grid(rng, 1, 1, ("kfold", 2), task="tsr", n_lo=6, n_hi=9)
        g["scale"] = [7 if i % 2 == 0 else rng.choice([3, 49, 1000003, 10, 1]),
                      rng.choice([0, 0, 0, -3, 40, -40, 1000, -1000, -1070])]
        if i % 3 != 2:
            g["datasets"][0]["yscale"] = [rng.choice([7, 3, 10, 1000003]), rng.choice([0, 0, -5, 60, -1060])]
        add("floatcsv", "hdd", g, [_run(True, None, on_train=True)])
    # 7. typed values through the stores (oracle only): string class labels that look like numbers
    #    ('3', '03'), plain string labels ('c3', positive control), float32 predictions; on disk
    #    and in memory (RAMResults keeps the objects: positive control)
    for i in range(8 if not thorough else 32):
        lt = ["strnum", "strpad", "str", "f32"][i % 4]
        g = _grid(rng, 1, 1, ("kfold", 2), task="tsr" if lt == "f32" else "tsc", n_lo=6, n_hi=8)
        g["labeltype"] = lt
        g["datasets"][0]["labeltype"] = lt
        add("typedcsv", "hdd" if i < 4 or i % 2 else "ram", g, [_run(True, None, on_train=True)])
    # 9. regression with an INTEGER-typed target and a regressor predicting non-integer floats, on
    #    disk and in memory: the stored predictions are the predicted floats, bit for bit, whatever
    #    the type of the true values (seed C19-f)
    for i in range(10 if not thorough else 50):
        g = _grid(rng, 1, 1, rng.choice([("kfold", 2), ("single", 2)]), task="tsr", n_lo=6, n_hi=9)
        g["scale"] = [rng.choice([7, 3, 10, 49]), rng.choice([0, 0, -2, 3])]
        g["datasets"][0]["int_target"] = True
        add("floatcsv", "hdd" if i % 2 == 0 else "ram", g, [_run(True, None, on_train=True)])
    # 8. datasets whose integer index is a permutation of 0..n-1 (or has other labels): everything
    #    the orchestrator does with a fold goes by position; a true value looked up by LABEL would be
    #    another instance's (seed C19-e)
    for i in range(30 if not thorough else 150):
        cv = rng.choice([("kfold", 2), ("kfold", 3), ("single", 2), ("single_shuffle", 2, 9)])
        n_s, n_d = rng.choice([(1, 1), (2, 1), (1, 2)])
        g = _grid(rng, n_s, n_d, cv)
        for d in g["datasets"]:
            n = len(d["xs"])
            perm = list(range(n))
            while perm == list(range(n)):
                rng.shuffle(perm)
            d["index"] = perm if i % 3 else [7 + 3 * v for v in perm]      # permuted / other labels
        n_tasks = n_s * n_d * _n_folds(cv)
        fl = {"on_train": rng.random() < 0.7, "save_fit": rng.random() < 0.4}
        fail = rng.choice([None] + _crash_points(n_tasks, fl["on_train"]))
        add("permidx", rng.choice(["hdd", "hdd", "ram"]) if not fl["save_fit"] else "hdd", g,
            [_run(True, fail, **fl), _run(rng.random() < 0.5, None, **fl)])
    return cases


# ------------------------------------------------------------------------------------------------
# implementation side (driver subprocess)


def _build_data(ds, task):
    import numpy as np
    import pandas as pd
    from sktime.utils._testing.panel import make_classification_problem
    n = len(ds["xs"])
    X, _ = make_classification_problem(n_instances=n, n_timepoints=4, random_state=0)
    for i in range(n):
        X.iloc[i, 0] = pd.Series(np.arange(4, dtype=float) + ds["xs"][i])
    data = X.copy()
    if ds.get("labeltype"):                          # kind 'typedcsv': string labels (f32: float targets)
        lt = ds["labeltype"]
        data["target"] = [float(v) for v in ds["ys"]] if lt == "f32" else [_lab(v, lt) for v in ds["ys"]]
    elif ds.get("yscale"):                           # kind 'floatcsv': fractional true values too
        data["target"] = [_fl(v, ds["yscale"]) for v in ds["ys"]]
    elif ds.get("int_target"):                       # kind 'floatcsv': a regression target of INTEGER type
        data["target"] = np.array([int(v) for v in ds["ys"]], dtype=np.int64)
    else:
        data["target"] = [float(v) for v in ds["ys"]] if task == "tsr" else [int(v) for v in ds["ys"]]
    if ds.get("labels") is not None:
        data.index = ["train" if b else "test" for b in ds["labels"]]
    elif ds.get("index") is not None:
        # an integer index that is not 0..n-1 in order (a frame that was shuffled or filtered
        # without reset_index): folds, records and true values go by POSITION, never by label
        data.index = [int(v) for v in ds["index"]]
    return data


def _make_cv(cv):
    from sklearn.model_selection import KFold
    from sktime.series_as_features.model_selection import PresplitFilesCV, SingleSplit
    if cv[0] == "kfold":
        return KFold(cv[1])
    if cv[0] == "single":
        return SingleSplit(test_size=cv[1], shuffle=False)
    if cv[0] == "single_shuffle":
        return SingleSplit(test_size=cv[1], random_state=cv[2])
    if cv[0] == "presplit":
        return PresplitFilesCV(cv=KFold(cv[1]) if cv[1] else None)
    raise AssertionError(cv)


def _sname(i):
    return "S%d" % i


def _dname(i):
    return "D%d" % i


def _num(v):
    """Canonical integer of a stored / loaded value; a non-integral float is kept as a string so
    that it can never compare equal to a model value."""
    try:
        f = float(v)
    except (TypeError, ValueError):
        return "s:%s" % (v,)
    if f != f or f in (float("inf"), float("-inf")):
        return repr(f)
    return int(f) if f == int(f) else repr(f)


def _sel(case, r):
    return r.get("sel") or [[x[0] for x in case["strategies"]], [d["name"] for d in case["datasets"]]]


def _new_env(case, path, r):
    from sktime.benchmarking.data import RAMDataset
    from sktime.benchmarking.orchestration import Orchestrator
    from sktime.benchmarking.results import HDDResults, RAMResults
    from sktime.benchmarking.strategies import TSCStrategy, TSRStrategy
    from sktime.benchmarking.tasks import TSCTask, TSRTask
    clf, reg = _make_doubles()
    tsr = case["task"] == "tsr"
    ssel, dsel = _sel(case, r)
    datasets = [RAMDataset(_build_data(d, case["task"]), _dname(d["name"])) for d in case["datasets"]
                if d["name"] in dsel]
    tasks = [(TSRTask if tsr else TSCTask)(target="target") for _ in datasets]
    strategies = [(TSRStrategy if tsr else TSCStrategy)((reg if tsr else clf)(p=p), name=_sname(s))
                  for s, p in case["strategies"] if s in ssel]
    results = HDDResults(path=path) if case["backend"] == "hdd" else RAMResults()
    return Orchestrator(tasks, datasets, strategies, _make_cv(case["cv"]), results)


SENTINEL_NS = 10 ** 18


def _walk(path):
    import os
    out = []
    for r, _, fs in os.walk(path):
        for f in fs:
            out.append(os.path.relpath(os.path.join(r, f), path))
    return sorted(out)


def _parse_path(rel):
    """'S3/D1/S3_train_0.csv' -> (3, 1, 0, item index); None if the file is not one the store
    is supposed to contain."""
    import re
    m = re.fullmatch(r"S(\d+)/D(\d+)/S(\d+)_(train|test)_(\d+)\.(csv|pickle)", rel)
    if not m or m.group(1) != m.group(3):
        return None
    s, d, part, f, ext = int(m.group(1)), int(m.group(2)), m.group(4), int(m.group(5)), m.group(6)
    if ext == "pickle":
        return (s, d, f, 2) if part == "train" else None
    return (s, d, f, 0 if part == "train" else 1)


def _read_csv(p):
    import csv
    with open(p, newline="") as f:
        rows = list(csv.reader(f))
    head = rows[0]
    ci, ct, cp = head.index("index"), head.index("y_true"), head.index("y_pred")
    body = rows[1:]
    return ([_num(r[ci]) for r in body], [_num(r[ct]) for r in body], [_num(r[cp]) for r in body],
            [[r[ct] for r in body], [r[cp] for r in body]])


def _observe_hdd(path, results, before):
    import os
    import joblib
    files, written, unexpected, raw = [], [], [], {}
    master = None
    now = _walk(path)
    for rel in now:
        p = os.path.join(path, rel)
        touched = os.stat(p).st_mtime_ns != SENTINEL_NS
        if rel == "results.pickle":
            m = joblib.load(p)
            master = [sorted(int(x[1:]) for x in m.strategy_names),
                      sorted(int(x[1:]) for x in m.dataset_names)]
            continue
        k = _parse_path(rel)
        if k is None:
            unexpected.append(rel)
            continue
        if k[3] == 2:
            st = joblib.load(p)
            ok = st.name == _sname(k[0]) and getattr(st.estimator, "state_", None) is not None
            files.append(list(k) + [int(st.estimator.state_) if ok else -1])
        else:
            idx, yt, yp, rawp = _read_csv(p)
            files.append(list(k) + [idx, yt, yp])
            raw["%d/%d/%d/%d" % k] = rawp
        if touched:
            written.append(list(k))
    deleted = [rel for rel in before if rel not in now]
    return files, written, master, unexpected, deleted, raw


def _observe_ram(results, before):
    files, written, unexpected = [], [], []
    for key, w in results.results.items():
        parts = key.split("_")
        try:
            s, d, part, f = int(parts[0][1:]), int(parts[1][1:]), parts[2], int(parts[3])
            k = (s, d, f, {"train": 0, "test": 1}[part])
            assert w.strategy_name == _sname(s) and w.dataset_name == _dname(d)
        except Exception:
            unexpected.append(key)
            continue
        files.append(list(k) + [[_num(v) for v in w.index], [_num(v) for v in w.y_true],
                                [_num(v) for v in w.y_pred]])
        if before.get(key) is not w:
            written.append(list(k))
    deleted = [k for k in before if k not in results.results]
    return sorted(files), sorted(written), None, unexpected, deleted, {}


def _typed(v):
    """[python type name, repr] of a stored / loaded value (numpy scalars through .item())"""
    v = v.item() if hasattr(v, "item") else v
    return [type(v).__name__, repr(v)]


def _observe_loaded(results, n_folds, float_raw=False, typed=False):
    out = []
    for f in range(n_folds):
        for it, part in ((0, "train"), (1, "test")):
            try:
                recs = []
                for p in results.load_predictions(f, part):
                    # float_raw: the exact doubles (hex), no canonicalisation, no tolerance
                    yp = [float(v).hex() for v in p.y_pred] if float_raw else [_num(v) for v in p.y_pred]
                    yt = [float(v).hex() for v in p.y_true] if float_raw else [_num(v) for v in p.y_true]
                    if typed:
                        yp, yt = [_typed(v) for v in p.y_pred], [_typed(v) for v in p.y_true]
                    recs.append([int(p.strategy_name[1:]), int(p.dataset_name[1:]),
                                 [_num(v) for v in p.index], yt, yp])
                out.append([f, it, sorted(recs)])
            except (FileNotFoundError, KeyError):
                out.append([f, it, None])
    return out


def run_impl(case):
    import shutil
    import tempfile
    path = tempfile.mkdtemp(prefix="c19_") if case["backend"] == "hdd" else None
    try:
        return _run_history(case, path)
    finally:
        if path:
            shutil.rmtree(path, ignore_errors=True)


def _run_history(case, path):
    import os
    _make_doubles()
    hdd = case["backend"] == "hdd"
    orch = None
    cur_sel = None
    outs = []
    scale = case.get("scale")
    labeltype = case.get("labeltype")
    # the folds, from a cv.split call that is independent of the orchestrator
    cv0 = _make_cv(case["cv"])
    folds = []
    for d in case["datasets"]:
        data = _build_data(d, case["task"])
        folds.append([[[int(i) for i in tr], [int(i) for i in te]]
                      for tr, te in cv0.split(data, data["target"])])
    n_folds = cv0.get_n_splits()
    for r in case["runs"]:
        if orch is None or r["fresh"] or _sel(case, r) != cur_sel:
            if not (orch is None or r["fresh"]):
                raise AssertionError("case changes the grid without a fresh results object")
            orch = _new_env(case, path, r)
            cur_sel = _sel(case, r)
        res = orch.results
        if hdd:
            before = _walk(path)
            for rel in before:
                os.utime(os.path.join(path, rel), ns=(SENTINEL_NS, SENTINEL_NS))
        else:
            before = dict(res.results)
        CALLS.update(fit=0, predict=0, fail=r["fail"], log=[], scale=scale, labeltype=labeltype)
        try:
            orch.fit_predict(overwrite_predictions=r["ow_pred"], predict_on_train=r["on_train"],
                             save_fitted_strategies=r["save_fit"],
                             overwrite_fitted_strategies=r["ow_fit"])
            status = "done"
        except _Boom:
            status = "crashed"
        except NotImplementedError:
            status = "notimpl"
        except ValueError as e:
            if "Can only overwrite fitted strategies" not in str(e):
                raise
            status = "rejected"
        finally:
            CALLS["fail"] = None
        log = CALLS["log"]
        if hdd:
            files, written, master, unexpected, deleted, raw = _observe_hdd(path, res, before)
        else:
            files, written, master, unexpected, deleted, raw = _observe_ram(res, before)
        o = {"status": status, "calls": log, "nfit": CALLS["fit"], "npredict": CALLS["predict"],
             "files": sorted(files), "written": sorted(written), "master": master,
             "reg": [sorted(int(x[1:]) for x in res.strategy_names),
                     sorted(int(x[1:]) for x in res.dataset_names)],
             "unexpected": unexpected, "deleted": deleted,
             "loaded": _observe_loaded(res, n_folds, float_raw=bool(scale), typed=bool(labeltype))}
        if scale:
            o["raw_pred"] = raw
        outs.append(o)
    return {"folds": folds, "n_folds": n_folds, "runs": outs}


# ------------------------------------------------------------------------------------------------
# oracle: the theorems' conclusions restated on the implementation's output


def _expected(case, folds):
    """(s, d, f, item) -> content, by an independent fit on the fold's training instances."""
    reg = case["task"] == "tsr"
    exp = {}
    for j, d in enumerate(case["datasets"]):
        for s, p in case["strategies"]:
            for f, (tr, te) in enumerate(folds[j]):
                st = _dbl_fit(p, [d["xs"][i] for i in tr], [d["ys"][i] for i in tr])
                exp[(s, d["name"], f, 2)] = [st]
                for it, idx in ((0, tr), (1, te)):
                    exp[(s, d["name"], f, it)] = [
                        list(idx), [d["ys"][i] for i in idx],
                        [_dbl_pred(reg, p, st, d["xs"][i]) for i in idx]]
    return exp


def _requested(r, hdd):
    return [it for it, on in ((0, r["on_train"]), (1, True), (2, r["save_fit"] and hdd)) if on]


def _check_folds(case, folds):
    cv = case["cv"]
    for j, d in enumerate(case["datasets"]):
        n = len(d["xs"])
        fs = folds[j]
        if len(fs) != _n_folds(cv):
            return "folds-count: dataset %d has %d folds" % (d["name"], len(fs))
        for f, (tr, te) in enumerate(fs):
            if sorted(tr + te) != list(range(n)):
                return "fold-not-a-partition: dataset %d fold %d %s | %s" % (d["name"], f, tr, te)
            if not tr or not te:
                return "fold-empty-part: dataset %d fold %d" % (d["name"], f)
        kf = fs
        if cv[0] == "presplit":
            lab = d["labels"]
            if fs[0] != [[i for i in range(n) if lab[i]], [i for i in range(n) if not lab[i]]]:
                return "presplit-first-fold-not-the-file-split: %s" % fs[0]
            kf = fs[1:]
        if cv[0] in ("kfold", "presplit") and kf:
            tests = [te for _, te in kf]
            if sorted(sum(tests, [])) != list(range(n)):
                return "kfold-test-folds-do-not-tile: %s" % tests
            if any(te != list(range(te[0], te[0] + len(te))) for te in tests) or \
                    max(map(len, tests)) - min(map(len, tests)) > 1:
                return "kfold-test-folds-not-balanced-blocks: %s" % tests
        if cv[0] in ("single", "single_shuffle") and len(fs[0][1]) != cv[1]:
            return "single-split-test-size: %s" % fs[0]
        if cv[0] == "single" and fs[0] != [list(range(n - cv[1])), list(range(n - cv[1], n))]:
            return "single-split-unshuffled-order: %s" % fs[0]
    return None


def oracle(case, out):
    hdd = case["backend"] == "hdd"
    folds = out["folds"]
    f = _check_folds(case, folds)
    if f:
        return f
    if case["kind"] == "floatcsv":
        return _oracle_float(case, out)
    if case["kind"] == "typedcsv":
        return _oracle_typed(case, out)
    exp = _expected(case, folds)
    grid3_all = sorted({k[:3] for k in exp})
    # arguments of a fit call -> the task it belongs to; the parts of a task by their instances
    fit_key, part_xs = {}, {}
    for j, d in enumerate(case["datasets"]):
        for s, p in case["strategies"]:
            for fo, (tr, te) in enumerate(folds[j]):
                fit_key.setdefault((p, tuple(d["xs"][i] for i in tr)), []).append((s, d["name"], fo))
                part_xs[(s, d["name"], fo)] = ([d["xs"][i] for i in tr], [d["xs"][i] for i in te])
    prev = {}            # store before the run
    prev_done_flags = None
    for ri, (r, o) in enumerate(zip(case["runs"], out["runs"])):
        tag = "run %d" % ri
        if not hdd and r["fresh"]:
            prev = {}
        ssel, dsel = _sel(case, r)            # the grid of this run's Orchestrator
        grid3 = [k for k in grid3_all if k[0] in ssel and k[1] in dsel]
        n_tasks = len(grid3)
        base_reg = out["runs"][ri - 1]["reg"] if ri and not r["fresh"] else [[], []]
        prev_master = (out["runs"][ri - 1]["master"] if ri else None) or [[], []]
        this_run = (tuple(r[x] for x in FLAGS), tuple(ssel), tuple(dsel))
        cur = {tuple(x[:4]): x[4:] for x in o["files"]}
        written = {tuple(x) for x in o["written"]}
        no_ow = not r["ow_pred"] and not r["ow_fit"]
        req = _requested(r, hdd)
        if o["unexpected"] or o["deleted"]:
            return "store-has-unexpected-or-deleted-entries: %s %s %s" % (tag, o["unexpected"], o["deleted"])
        if len(cur) != len(o["files"]):
            return "exactly-once-duplicate-key: %s" % tag
        # flag validation
        if r["ow_fit"] and not r["save_fit"]:
            if o["status"] != "rejected" or cur != prev or o["calls"] or written:
                return "illegal-flags-not-rejected-cleanly: %s status %s" % (tag, o["status"])
            continue
        if o["status"] == "rejected":
            return "legal-flags-rejected: %s" % tag
        # calls: each fit is on exactly one fold's training instances (in order), each predict on
        # exactly the instances of one part
        fit_keys, pred_keys = [], []
        cur_task = None
        for c in o["calls"]:
            if c[0] == 1:
                # (two folds may share a training set, e.g. the file split and an inner k-fold
                # fold: folds are visited in order, so take the first one not fitted yet)
                cands = [t for t in fit_key.get((c[1], tuple(c[2])), []) if t not in fit_keys]
                if not cands:
                    return "fit-not-on-a-fold's-training-instances: %s %s" % (tag, c)
                cur_task = cands[0]
                d = [d for d in case["datasets"] if d["name"] == cur_task[1]][0]
                if c[3] != [d["ys"][d["xs"].index(x)] for x in c[2]]:
                    return "fit-targets-misaligned: %s %s" % (tag, c)
                fit_keys.append(cur_task)
            else:
                if cur_task is None or dict(case["strategies"])[cur_task[0]] != c[1] \
                        or c[2] not in part_xs[cur_task]:
                    return "predict-not-on-a-part-of-the-fitted-fold: %s %s" % (tag, c)
                trx, tex = part_xs[cur_task]
                pred_keys.append(cur_task + (0 if c[2] == trx else 1,))
        # status vs failure point
        fail = r["fail"]
        if o["status"] == "crashed":
            if not fail or not o["calls"] or o["calls"][-1][0] != (1 if fail[0] == "fit" else 0) \
                    or (o["nfit"] if fail[0] == "fit" else o["npredict"]) != fail[1]:
                return "crash-without-failure-point: %s" % tag
            if pred_keys and fail[0] == "predict":
                pred_keys_done = pred_keys[:-1]
            else:
                pred_keys_done = pred_keys
        else:
            pred_keys_done = pred_keys
            if fail and (o["nfit"] if fail[0] == "fit" else o["npredict"]) >= fail[1]:
                return "failure-swallowed: %s status %s" % (tag, o["status"])
        if o["status"] == "notimpl":
            if hdd or not r["save_fit"]:
                return "unexpected-NotImplementedError: %s" % tag
            if cur != prev or written:
                return "not-implemented-run-changed-store: %s" % tag
            prev_done_flags = None
            continue
        if not hdd and r["save_fit"] and n_tasks and o["status"] == "done":
            return "ram-save-fitted-not-refused: %s" % tag
        # every entry is a grid key; written entries are honest; untouched entries are unchanged
        for k, v in cur.items():
            if k not in exp:
                return "record-outside-grid: %s %s" % (tag, k)
            if k in written:
                if v != exp[k]:
                    return "record-not-what-fit-then-predict-gives: %s key %s stored %s expected %s" % (
                        tag, k, v, exp[k])
            elif k not in prev or prev[k] != v:
                return "record-changed-without-write: %s %s" % (tag, k)
        for k in prev:
            if k not in cur:
                return "record-lost: %s %s" % (tag, k)
        for k in written:
            if k not in cur:
                return "written-entry-missing: %s %s" % (tag, k)
        # a prediction record is written iff its predict call completed
        if sorted(pred_keys_done) != sorted(k for k in written if k[3] != 2):
            return "predict-calls-and-written-records-differ: %s calls %s written %s" % (
                tag, sorted(pred_keys_done), sorted(written))
        if len(set(pred_keys)) != len(pred_keys) or len(set(fit_keys)) != len(fit_keys):
            return "exactly-once-call-repeated: %s" % tag
        if any(k[:3] not in fit_keys for k in written):
            return "write-without-fit: %s" % tag
        if hdd and no_ow:
            # completed records and saved strategies are neither recomputed nor modified
            for k in prev:
                if k in written:
                    return "completed-entry-rewritten: %s %s" % (tag, k)
                if k in pred_keys:
                    return "completed-record-recomputed: %s %s" % (tag, k)
            missing = {(s, d, fo, it) for (s, d, fo) in grid3 for it in req if (s, d, fo, it) not in prev}
            if o["status"] == "done" and written != missing:
                return "not-exactly-the-missing-ones-produced: %s written %s missing %s" % (
                    tag, sorted(written), sorted(missing))
            if not written <= missing:
                return "produced-something-not-missing: %s %s" % (tag, sorted(written - missing))
            need_fit = sorted({k[:3] for k in missing})
            if o["status"] == "done" and sorted(fit_keys) != need_fit:
                return "fits-not-exactly-the-incomplete-tasks: %s fits %s needed %s" % (
                    tag, sorted(fit_keys), need_fit)
            if prev_done_flags == this_run and (o["nfit"] or o["npredict"] or written):
                return "identical-rerun-performs-fits: %s nfit %d npredict %d" % (
                    tag, o["nfit"], o["npredict"])
        if r["ow_pred"] and o["status"] == "done":
            want = {(s, d, fo, it) for (s, d, fo) in grid3 for it in req if it != 2}
            if o["nfit"] != n_tasks or set(pred_keys) != want or not want <= written:
                return "overwrite-did-not-recompute-every-record: %s nfit %d of %d" % (
                    tag, o["nfit"], n_tasks)
        if r["ow_fit"] and o["status"] == "done":
            if not {(s, d, fo, 2) for (s, d, fo) in grid3} <= written:
                return "overwrite-fitted-did-not-rewrite-every-strategy: %s" % tag
        if not hdd and sorted(fit_keys) != grid3[:len(fit_keys)] and o["status"] == "done":
            return "ram-run-did-not-fit-every-task: %s" % tag
        if o["status"] == "done":
            # exactly one record per strategy, dataset, fold and requested part
            for (s, d, fo) in grid3:
                for it in req:
                    if (s, d, fo, it) not in cur:
                        return "exactly-once-record-missing: %s %s" % (tag, (s, d, fo, it))
            # the store equals that of an uninterrupted run: every requested entry is the honest one
            if all(k in written or k not in prev or prev[k] == exp[k] for k in cur):
                for k, v in cur.items():
                    if v != exp[k]:
                        return "final-store-differs-from-uninterrupted-run: %s %s" % (tag, k)
            # registry: the run's strategies and datasets, whatever the object had registered
            # before, and (on disk) the names already in the master file, which is rewritten
            want_reg = [sorted(set(base_reg[0]) | set(ssel) | (set(prev_master[0]) if hdd else set())),
                        sorted(set(base_reg[1]) | set(dsel) | (set(prev_master[1]) if hdd else set()))]
            if not (set(ssel) <= set(o["reg"][0]) and set(dsel) <= set(o["reg"][1])):
                return "registry-incomplete: %s registry %s run's grid %s" % (tag, o["reg"], [ssel, dsel])
            if o["reg"] != want_reg:
                return "registry-not-merged-with-master-file: %s registry %s expected %s" % (
                    tag, o["reg"], want_reg)
            if hdd and o["master"] != o["reg"]:
                return "master-file-incomplete: %s %s registry %s" % (tag, o["master"], o["reg"])
            # read back == stored
            sn, dn = o["reg"]
            for fo, it, recs in o["loaded"]:
                have_all = all((s, d, fo, it) in cur for s in sn for d in dn)
                if have_all and recs is None:
                    return "read-back-fails-after-complete-run: %s fold %d part %s" % (
                        tag, fo, ITEMS[it])
                if not have_all and recs is not None:
                    return "read-back-of-a-missing-record-succeeds: %s fold %d part %s" % (
                        tag, fo, ITEMS[it])
                if it in req and set(ssel) == set(sn) and set(dsel) == set(dn) and recs is None:
                    return "read-back-fails-after-complete-run: %s fold %d part %s" % (
                        tag, fo, ITEMS[it])
                if recs is not None:
                    got = {(x[0], x[1], fo, it): x[2:] for x in recs}
                    want = {(s, d, fo, it): cur.get((s, d, fo, it)) for s in sn for d in dn}
                    if got != want:
                        return "read-back-not-equal-to-stored: %s fold %d part %s" % (tag, fo, ITEMS[it])
            prev_done_flags = this_run if no_ow else None
        else:
            prev_done_flags = None
            if hdd and o["master"] != (out["runs"][ri - 1]["master"] if ri else None):
                return "master-file-written-by-crashed-run: %s" % tag
        prev = cur
    return None


def _oracle_float(case, out):
    """kind 'floatcsv': y_pred = v / divisor * 2**power as a double, y_true likewise; (a) the text
    to_csv stored identifies exactly the double that was handed to save_predictions, (b) the record
    read back equals what was stored, to the last bit (hex comparison, no tolerance)."""
    sc = case["scale"]
    o = out["runs"][0]
    if o["status"] != "done":
        return "float-run-did-not-complete: %s" % o["status"]
    d = case["datasets"][0]
    ysc = d.get("yscale")
    tf = [_fl(y, ysc) if ysc else float(y) for y in d["ys"]]          # the true values handed over
    s, p = case["strategies"][0]
    exp = {}
    for fo, (tr, te) in enumerate(out["folds"][0]):
        st = _dbl_fit(p, [d["xs"][i] for i in tr], [int(tf[i]) for i in tr])   # the double's fit
        for it, idx in ((0, tr), (1, te)):
            exp[(fo, it)] = ([tf[i].hex() for i in idx],
                             [_fl(_dbl_pred(True, p, st, d["xs"][i]), sc).hex() for i in idx])
    # (a) what is on disk: the text of every stored value parses (correctly rounded) to exactly the
    #     double that fit-then-predict gives - so the store itself loses nothing
    for key, (rt, rp) in sorted(o.get("raw_pred", {}).items()):
        fo, it = int(key.split("/")[2]), int(key.split("/")[3])
        for what, texts, want in (("true value", rt, exp[(fo, it)][0]), ("prediction", rp, exp[(fo, it)][1])):
            got = [float(t).hex() for t in texts]
            if got != want:
                bad = [(t, w) for t, g, w in zip(texts, got, want) if g != w]
                return ("record-not-what-fit-then-predict-gives: float %s %r is on disk as the text %r "
                        "(fold %d part %s)" % (what, float.fromhex(bad[0][1]), bad[0][0], fo, ITEMS[it]))
    # (b) read back == stored, bit for bit
    for fo, it, recs in o["loaded"]:
        if recs is None:
            return "read-back-fails-after-complete-run: fold %d" % fo
        if len(recs) != 1:
            return "read-back-not-one-record: fold %d part %s" % (fo, ITEMS[it])
        _, _, idx, yt, yp = recs[0]
        for what, got, want in (("true value", yt, exp[(fo, it)][0]), ("prediction", yp, exp[(fo, it)][1])):
            if got != want:
                bad = [(a, b) for a, b in zip(got, want) if a != b]
                return ("read-back-not-equal-to-stored: float %s %r read back as %r (%d of %d values "
                        "of fold %d part %s)" % (what, float.fromhex(bad[0][1]), float.fromhex(bad[0][0]),
                                                len(bad), len(want), fo, ITEMS[it]))
    return None


def _same_up_to_type(got, want):
    """a CSV keeps text, not types: a string label that spells an integer comes back as that
    integer; a float32 comes back as the double of its shortest decimal repr (which rounds back to
    the same float32).  Anything else is a different VALUE."""
    import ast as _ast
    import numpy as np
    (gt, gr), (wt, wr) = got, want
    g, w = _ast.literal_eval(gr), _ast.literal_eval(wr)
    if wt == "str" and gt == "int":
        try:
            return int(w) == g
        except ValueError:
            return False
    if wt == "float" and gt == "float":
        return bool(np.float32(g) == np.float32(w))
    return False


def _oracle_typed(case, out):
    """kind 'typedcsv': the record read back equals what was stored - as a VALUE OF ITS TYPE: the
    string label '03' is not the integer 3, the float32 nearest to 1/7 is not the double 0.14285715"""
    lt = case["labeltype"]
    o = out["runs"][0]
    if o["status"] != "done":
        return "typed-run-did-not-complete: %s" % o["status"]
    d = case["datasets"][0]
    s, p = case["strategies"][0]
    reg = case["task"] == "tsr"
    for fo, it, recs in o["loaded"]:
        if recs is None or len(recs) != 1:
            return "read-back-fails-after-complete-run: fold %d part %s" % (fo, ITEMS[it])
        tr, te = out["folds"][0][fo]
        idx = tr if it == 0 else te
        st = _dbl_fit(p, [d["xs"][i] for i in tr], [d["ys"][i] for i in tr])
        want_t = [_typed(float(d["ys"][i]) if lt == "f32" else _lab(d["ys"][i], lt)) for i in idx]
        want_p = [_typed(_lab(_dbl_pred(reg, p, st, d["xs"][i]), lt)) for i in idx]
        _, _, _, yt, yp = recs[0]
        for what, got, want in (("true value", yt, want_t), ("prediction", yp, want_p)):
            if got != want:
                if len(got) != len(want):
                    return "read-back-not-equal-to-stored: value: %d %ss read back for %d stored" % (
                        len(got), what, len(want))
                bad = [(a, b) for a, b in zip(got, want) if a != b]
                # is it ONLY the type that was lost (the value is the one the stored text spells)?
                only_type = all(_same_up_to_type(a, b) for a, b in bad)
                return ("read-back-not-equal-to-stored: %s: %s stored as %s %s, read back as %s %s "
                        "(%d of %d values of fold %d part %s)" % (
                            "type only" if only_type else "value", what, bad[0][1][0], bad[0][1][1],
                            bad[0][0][0], bad[0][0][1], len(bad), len(want), fo, ITEMS[it]))
    return None


def nontrivial(case, out):
    sts = [o["status"] for o in out["runs"]]
    if case["kind"] in ("floatcsv", "typedcsv"):
        return sts == ["done"]
    skipped = any(o["status"] == "done" and o["nfit"] < len({tuple(x[:3]) for x in o["files"]})
                  for o in out["runs"])
    return len(sts) >= 2 and ("crashed" in sts or skipped) or (case["backend"] == "ram" and "done" in sts)


def shrink(case):
    runs = case["runs"]
    if len(runs) > 1:
        for i in range(len(runs)):
            d = dict(case)
            d["runs"] = runs[:i] + runs[i + 1:]
            if d["runs"]:
                d["runs"] = [dict(d["runs"][0], fresh=True)] + d["runs"][1:]
            yield d
    has_sel = any(r.get("sel") for r in runs)
    if has_sel:
        d = dict(case)
        d["runs"] = [{k: v for k, v in r.items() if k != "sel"} for r in runs]
        yield d
    if len(case["strategies"]) > 1 and not has_sel:
        for i in range(len(case["strategies"])):
            d = dict(case)
            d["strategies"] = case["strategies"][:i] + case["strategies"][i + 1:]
            yield d
    if len(case["datasets"]) > 1 and not has_sel:
        for i in range(len(case["datasets"])):
            d = dict(case)
            d["datasets"] = case["datasets"][:i] + case["datasets"][i + 1:]
            yield d
    for i, r in enumerate(runs):
        if r["fail"] and r["fail"][1] > 1:
            d = dict(case)
            d["runs"] = runs[:i] + [dict(r, fail=[r["fail"][0], r["fail"][1] - 1])] + runs[i + 1:]
            yield d
        for fl in FLAGS:
            if r[fl]:
                d = dict(case)
                d["runs"] = runs[:i] + [dict(r, **{fl: False})] + runs[i + 1:]
                yield d
    if case["cv"][0] == "kfold" and case["cv"][1] > 2:
        d = dict(case)
        d["cv"] = ["kfold", 2]
        yield d
    if case["task"] == "tsr" and case["kind"] not in ("floatcsv", "typedcsv"):
        d = dict(case)
        d["task"] = "tsc"
        yield d


# ------------------------------------------------------------------------------------------------
# model side


CASES_HEADER = """From Coq Require Import ZArith List Bool.
Require Import SkV.Lib.Base SkV.Lib.ZRange SkV.C19.Model SkV.C19.Cases.
Import ListNotations.
Open Scope Z_scope.
"""

_ITEM = ("ITrain", "ITest", "IFit")


def _ckey(k):
    return "(%s, %s, %s, %s)" % (cz(k[0]), cz(k[1]), cz(k[2]), _ITEM[k[3]])


def _cint(v):
    # a non-integral value can never agree with the model: encode it as an impossible marker
    return cz(v) if isinstance(v, int) else "(-999999)"


def _ccontent(k, v):
    if k[3] == 2:
        return "Fit %s" % cz(v[0])
    return "Pred %s %s %s" % (clist([_cint(x) for x in v[0]]), clist([_cint(x) for x in v[1]]),
                              clist([_cint(x) for x in v[2]]))


def _cfold(f):
    return "(%s, %s)" % (czlist(f[0]), czlist(f[1]))


def _cflags(r):
    return "{| ow_pred := %s; on_train := %s; save_fit := %s; ow_fit := %s |}" % tuple(
        cbool(r[f]) for f in FLAGS)


def _cfail(f):
    return "None" if not f else "(Some (%s, %s))" % (cbool(f[0] == "fit"), cz(f[1]))


def _crunspec(r, case):
    ssel, dsel = _sel(case, r)
    return "{| r_fresh := %s; r_flags := %s; r_fail := %s; r_sel := (%s, %s) |}" % (
        cbool(r["fresh"]), _cflags(r), _cfail(r["fail"]), czlist(ssel), czlist(dsel))


_STATUS = {"done": 0, "crashed": 1, "rejected": 2, "notimpl": 3}


def _cobs(o, folds):
    calls = clist(["(%s, %s, %s, %s)" % (cbool(c[0] == 1), cz(c[1]), czlist(c[2]), czlist(c[3]))
                   for c in o["calls"]])
    files = clist(["(%s, %s)" % (_ckey(x[:4]), _ccontent(x[:4], x[4:])) for x in o["files"]])
    master = "None" if o["master"] is None else "(Some (%s, %s))" % (czlist(o["master"][0]),
                                                                   czlist(o["master"][1]))
    loaded = clist(["(%s, %s, %s)" % (
        cz(f), _ITEM[it],
        "None" if recs is None else "(Some %s)" % clist(
            ["(%s, %s, %s)" % (cz(x[0]), cz(x[1]), _ccontent((0, 0, 0, it), x[2:])) for x in recs]))
        for f, it, recs in o["loaded"]])
    return ("{| o_status := %d; o_calls := %s; o_written := %s; o_files := %s; o_master := %s; "
            "o_reg := (%s, %s); o_loaded := %s; o_folds := %s |}" % (
                _STATUS[o["status"]], calls, clist([_ckey(k) for k in o["written"]]), files, master,
                czlist(o["reg"][0]), czlist(o["reg"][1]), loaded,
                clist([clist([_cfold(f) for f in fs]) for fs in folds])))


def _ccv(cv):
    if cv[0] == "kfold":
        return "(CVKFold %s)" % cz(cv[1])
    if cv[0] == "single":
        return "(CVSingle %s)" % cz(cv[1])
    if cv[0] == "presplit":
        return "(CVPresplit %s)" % copt(cv[1], cz)
    return "CVGiven"


def _cstrats(case):
    return clist(["(%s, %s)" % (cz(s), cz(p)) for s, p in case["strategies"]])


def _cdata(case, folds):
    return clist([
        "{| ds_name := %s; ds_rows := %s; ds_labels := %s; ds_given := %s |}" % (
            cz(d["name"]), clist(["(%s, %s)" % (cz(x), cz(y)) for x, y in zip(d["xs"], d["ys"])]),
            clist([cbool(b) for b in (d.get("labels") or [])]),
            clist([_cfold(f) for f in folds[j]]) if (folds and case["cv"][0] == "single_shuffle")
            else "[]")
        for j, d in enumerate(case["datasets"])])


def coq_case(case, out):
    if case["kind"] in ("floatcsv", "typedcsv"):
        return None
    runs = clist(["(%s, %s)" % (_crunspec(r, case), _cobs(o, out["folds"]))
                  for r, o in zip(case["runs"], out["runs"])])
    return "Case %s %s %s %s %s %s" % (cbool(case["backend"] == "hdd"), cbool(case["task"] == "tsr"),
                                       _cstrats(case), _cdata(case, out["folds"]), _ccv(case["cv"]),
                                       runs)


def coq_model_term(case):
    # for shuffled single splits the folds are an input taken from the implementation; replay
    # files for those show the model on the unshuffled folds of the same sizes
    c = dict(case)
    if c["cv"][0] == "single_shuffle":
        c["cv"] = ["single", c["cv"][1]]
    return ("model_history %s %s {| g_strats := %s; g_data := %s; g_cv := %s |} %s empty_store" % (
        cbool(c["backend"] == "hdd"), cbool(c["task"] == "tsr"), _cstrats(c), _cdata(c, None),
        _ccv(c["cv"]), clist([_crunspec(r, c) for r in c["runs"]])))


def distribution(cases, results):
    import collections
    d = collections.Counter()
    for c, r in zip(cases, results):
        o = r.get("out") or {}
        d["kind:" + c["kind"]] += 1
        d["cv:" + c["cv"][0] + (str(c["cv"][1]) if c["cv"][0] in ("kfold", "presplit") else "")] += 1
        d["task:" + c["task"]] += 1
        d["grid:%dx%dx%d" % (len(c["strategies"]), len(c["datasets"]), _n_folds(c["cv"]))] += 1
        for rr, oo in zip(c["runs"], o.get("runs", [])):
            d["run:" + oo["status"]] += 1
            if rr["fail"] and oo["status"] == "crashed":
                d["crash-at:" + rr["fail"][0]] += 1
            if rr["fresh"]:
                d["run:fresh-object"] += 1
            if rr.get("sel"):
                d["run:sub-grid" if len(rr["sel"][0]) * len(rr["sel"][1]) < len(c["strategies"]) * len(c["datasets"])
                  else "run:full-grid-after-sub-grid"] += 1
            if oo["status"] == "done" and oo["nfit"] == 0:
                d["run:nothing-to-do"] += 1
    return dict(d)
